#!/bin/sh
# usage: tools/trypatch.sh <patch.diff>  - applies the patch to /repo, runs every quick check, restores /repo
P="$1"
cd /verif || exit 2
[ -z "$(git -C /repo status --porcelain)" ] || { echo "repo not clean"; exit 2; }
git -C /repo apply "$P" || { echo "PATCH DOES NOT APPLY"; exit 3; }
for c in $(/venv/bin/python -c "import json;print(' '.join(c['property_id'] for c in json.load(open('MANIFEST.json'))['checks']))"); do
  out=$(./check $c --no-evidence 2>&1); rc=$?
  if [ $rc -ne 0 ]; then echo "  $c exit $rc"; echo "$out" | grep -E "^VIOLATION|^ANALYSIS-ERROR|^  job_shop_lib" | cut -c1-300 | head -6; fi
done
git -C /repo checkout -- . ; git -C /repo reset -q; git -C /repo checkout -- .
[ -z "$(git -C /repo status --porcelain)" ] || echo "REPO NOT RESTORED"
