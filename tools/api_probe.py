#!/venv/bin/python
"""Runs every check on the mechanical API-evolution overlay (jslstatic/selftest/apiprobe.py).
usage: tools/api_probe.py [seed]"""
import json, os, sys
V = os.path.dirname(os.path.dirname(os.path.abspath(__file__)))
sys.path.insert(0, V)
from jslstatic.cli import Ctx, run_property
from jslstatic.selftest import apiprobe

seed = int(sys.argv[1]) if len(sys.argv) > 1 else 0
ov, n_enc, n_alias = apiprobe.overlay(seed)
print(f"{n_enc} attributes encapsulated, {n_alias} public methods renamed with a forwarding alias, {len(ov)} files (seed {seed})")
base = Ctx("C00", "quick", 0, overlay=ov)
_ = base.types
print("  folded back:", sum(1 for n in base.repo.unbundle_notes if "folded" in n), "notes")
bad = 0
for p in [c["property_id"] for c in json.load(open(os.path.join(V, "MANIFEST.json")))["checks"]]:
    code, chk, err = run_property(p, write=False, quiet=True, base=base)
    if code:
        bad += 1
        print(f"  {p} exit {code}: " + (err or "; ".join(f"{f.rule}: {f.message[:140]}" for f in chk.findings[:2]))[:420])
print(f"{bad} checks raised an alarm on the API-evolved tree")
sys.stdout.flush()
os._exit(1 if bad else 0)
