import json,sys,os
STYLE=os.environ.get("SEED_STYLE","plain")
gid=sys.argv[1]; pids=sys.argv[2:]
props={json.loads(l)['id']:json.loads(l) for l in open('/verif/properties.jsonl')}
blocks=[]
for pid in pids:
    p=props[pid]
    blocks.append(f"""  [{pid}] {p['title']}
  Statement: {p['statement']}
  Formal reading: {p['quantifier']['text']}
  Files most involved: {', '.join(p['anchors']['files'])}""")
print(f"""You are helping test a verification tool for the open-source Python library job_shop_lib (job shop scheduling: instances, schedules, a Dispatcher state machine with observers, dispatching rules, CP-SAT solver, graph encodings, Gym environments).

You have your own scratch git worktree of the library at /tmp/wt-{gid} (a checkout of the current HEAD). Work ONLY inside /tmp/wt-{gid} and /tmp/seed-{gid}. Never touch /repo or /verif and do not read anything under /verif. Run python as `/venv/bin/python` with the worktree as the current directory, and ALWAYS with `PYTHONPATH=/tmp/wt-{gid}` for scripts stored outside the worktree (otherwise the installed copy of the library is imported). There is no network.

Two properties of the library are under study:

""" + "\n\n".join(blocks) + f"""

Your task: for EACH of the two properties produce TWO different, independent source changes to the library (four changes in total; each applied to a clean checkout, not stacked), each of which
  (1) BREAKS that property (some input / history / configuration now violates the statement),
  (2) still imports/compiles, and the existing test suite still passes completely with the change (`cd /tmp/wt-{gid} && /venv/bin/python -m pytest -q -p no:cacheprovider` -> 190 passed),
  (3) is REALISTIC - the kind of slip a maintainer could make in a refactor, optimisation, bug-fix-gone-wrong or feature patch (not sabotage, not `if x == 12345`), and
  (4) needs something specific to manifest: a particular multi-step sequence of operations, an unusual-but-legal input (flexible operations with several machines, zero durations, jobs of different lengths, recirculation, a second episode after reset, >= 100 steps, a query issued after another query, ids equal to 0...), or two cooperating code sites that each look fine alone. Do NOT produce changes that ordinary use would expose at once.
""" + ("""This round asks for a particular packaging: each change must look like a REAL COMMIT of roughly 20-70 changed lines that is mostly legitimate work - a refactor (helpers extracted or inlined, a loop turned into a comprehension or numpy expression, state moved between attributes, early returns reorganised), a small feature (new optional argument, new convenience property) or a performance patch - and the property-breaking slip is a small part of it, the kind a reviewer would skim past. The legitimate part must really be behaviour-preserving; only the slip changes behaviour. Vary the mechanism of the slip across your four changes and avoid the most obvious ones (deleting a reset line, dropping a single check). """ if STYLE=="commit" else "") + ("""This round asks for a particular packaging: each change must look like a FEATURE COMMIT of roughly 30-90 changed lines - it adds something new (an optional keyword argument whose default keeps today's behaviour, a new public method / property / classmethod constructor with existing code re-expressed through it, a new registered rule / filter / observer / transformation, a hook or callback defaulting to a no-op, a verbose flag or logging, richer error messages, a copy()/to_*() helper, an iterator or context-manager protocol). The feature itself must be correct and useful; the property-breaking slip is a small part of the commit that changes the EXISTING behaviour (what callers who never use the new feature observe) - for example while existing code is re-routed through the new method, while a default is threaded through several layers, while a constructor is split, or while an error path is rewritten. A reviewer skimming the diff should see a feature, not a bug. Vary the mechanism of the slip across your four changes. """ if STYLE=="feature" else "") + f"""Be inventive: prefer mechanisms such as caching/memoisation added in the wrong place, aliasing of mutable objects, off-by-one at boundaries, wrong-but-plausible default handling, state kept across episodes, order of observer notification/acquisition, conditions that are equivalent only for 'normal' inputs, integer/float or truthiness slips, partial updates of parallel data structures. The four changes should differ from each other in mechanism and location.

For each change write into /tmp/seed-{gid}/<property id>-<k>/ (k = 1, 2), e.g. /tmp/seed-{gid}/{pids[0]}-1/ :
  - patch.diff : `git diff` of the change against HEAD (library source only, under job_shop_lib/; do not edit tests)
  - demo.py    : a small standalone program using only the public API that exits 0 on the unmodified library and exits non-zero (assertion error) with the change applied. It must check the property's observable behaviour, not the source text. Put `import sys, os; sys.path.insert(0, os.getcwd())` at the top so that it imports the checkout it is run from.
  - notes.md   : 5-10 lines: what the change is, which clause of which property it breaks, what is needed for it to manifest, and the exact commands you ran with their results (suite pass count with the change; demo result with and without the change).
Verify all of this yourself by actually running it: apply the patch, run the full suite (190 passed), run the demo from the worktree (must fail), `git checkout -- .`, run the demo again (must pass). Leave the worktree clean (git status empty) when you finish. The unmodified library may itself deviate from the properties in places; your demo must pass on the unmodified library, so steer around such deviations.

Finish with a short summary listing, per change, the file/function touched and one line on how it breaks the property.""")
