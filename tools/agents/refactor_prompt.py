import sys
gid, files = sys.argv[1], sys.argv[2]
print(f"""You are helping test a source-level verification tool for the open-source Python library job_shop_lib (job shop scheduling: instances, schedules, a Dispatcher state machine with observers, dispatching rules, CP-SAT solver, graph encodings, Gym environments). The tool must NOT raise alarms on code whose behaviour is unchanged, so we need realistic behaviour-PRESERVING edits to try it on.

You have your own scratch git worktree of the library at /tmp/wt-{gid} (a checkout of the current HEAD). Work ONLY inside /tmp/wt-{gid} and /tmp/refac-{gid}. Never touch /repo or /verif and do not read anything under /verif. Run python as `/venv/bin/python` with the worktree as the current directory (e.g. `cd /tmp/wt-{gid} && /venv/bin/python -m pytest -q -p no:cacheprovider`), and use `PYTHONPATH=/tmp/wt-{gid}` for any script stored outside the worktree, so that the worktree's job_shop_lib is the one imported. There is no network.

Files in your scope: {files}

Your task: produce EIGHT different, independent refactorings (each applied to a clean checkout, not stacked) of code in those files, of the kind a maintainer would really commit, each of which
  (1) preserves behaviour EXACTLY for every input, history and configuration (same results, same exceptions in the same situations, same side effects and their order, same aliasing of returned/cached objects as far as callers can observe) - be strict about this; if in doubt pick another refactoring;
  (2) keeps the full test suite passing (`/venv/bin/python -m pytest -q -p no:cacheprovider` -> 190 passed);
  (3) is a substantive change to executable code, not just comments/docstrings/whitespace. Use a VARIETY of refactoring kinds across the eight, for example: extract a helper function or method / inline one; rename local variables, private helpers or parameters of private helpers; loop <-> comprehension / generator / any()/all(); guard clauses and early returns <-> nested if/else; reorder statements that are independent; replace an idiom by an equivalent one (x = [] vs list(), d.clear() vs d = {{}} ONLY where no alias can observe the difference, sorted(...)[0] vs min(...), a <= b vs b >= a, `not a == b` vs `a != b`, enumerate vs range(len()), tuple unpacking, f-strings); move a constant to module level; add or tighten type annotations; split a long function into private steps; merge two trivial private helpers; use a local alias for a repeated attribute chain.
Prefer touching the core logic in scope (the functions that do the real work) over peripheral code such as __repr__.

For each refactoring k in 1..8 write into /tmp/refac-{gid}/k/ :
  - patch.diff : `git diff` against HEAD (library source only; do not edit tests)
  - notes.md   : 3-6 lines: what was changed, why behaviour is identical, and the test-suite result with the patch.
Verify each: apply, run the full suite (must be 190 passed), `git checkout -- .`. Leave the worktree clean when you finish. Finish with a one-line-per-refactoring summary.""")
