import sys
gid=sys.argv[1]
print(f"""You are helping test a verification tool for the open-source Python library job_shop_lib.

You have a scratch git worktree of the library at /tmp/wt-{gid} (a clean checkout of HEAD). Work ONLY inside /tmp/wt-{gid} and /tmp/seed-{gid}. Never touch /repo or /verif and do not read anything under /verif. Run python as `/venv/bin/python` with the worktree as the current directory (and `PYTHONPATH=/tmp/wt-{gid}` for scripts stored outside the worktree). There is no network. Do not use `git stash`; use `git apply`, `git diff > file`, `git checkout -- .` and `git clean -fdq`.

The directory /tmp/seed-{gid}/ holds four sub-directories (named like C07-1). Each contains
  patch.diff - a FEATURE commit against HEAD (it adds something: an optional argument whose default keeps today's behaviour, a new public method / property / class, a hook ...) that leaves the EXISTING behaviour - what callers who never use the new feature observe - unchanged EXCEPT for one small slip,
  notes.md   - a description of the slip, and
  demo.py    - a program that exits 0 on HEAD and non-zero with patch.diff applied.

Your task, for EACH of the four sub-directories: produce /tmp/seed-{gid}/<sub>/repaired.diff - the SAME feature commit with ONLY the slip repaired, so that callers who never use the new feature observe exactly HEAD's behaviour (the feature itself stays, and must of course work). Concretely:
  1. `cd /tmp/wt-{gid} && git apply /tmp/seed-{gid}/<sub>/patch.diff`
  2. Repair the slip described in notes.md with the smallest edit that fits the style of the clean-up (keep every other part of the commit, the feature included, exactly as it is; do not revert the feature, do not restructure anything else). If the notes mention other behaviour differences from HEAD (they should not), repair those too and say so.
  3. Verify: `/venv/bin/python -m pytest -q -p no:cacheprovider` -> 190 passed; `/venv/bin/python /tmp/seed-{gid}/<sub>/demo.py` -> exit 0. Convince yourself (by reading the diff against HEAD carefully, and with a small differential script if useful) that the repaired tree behaves exactly like HEAD for every caller that does not use the new feature, not only for the demo.
  4. Write the result: `git add -N .` for new files, then `git diff > /tmp/seed-{gid}/<sub>/repaired.diff` (library source only), then `git reset -q; git checkout -- .; git clean -fdq` so the worktree is clean again.
  5. Append to /tmp/seed-{gid}/<sub>/notes.md a section "## Repair" with 2-5 lines: which lines you changed to repair the slip (quote them) and the verification results.

Finish with a short summary: per sub-directory, the repair made (one or two lines) and anything in the clean-up part you found NOT to be behaviour-preserving.""")
