#!/bin/sh
# usage: tools/seedround.sh <group> <prefix>   e.g.  tools/seedround.sh VB u
# runs tools/seedcheck.py --keep on every /tmp/seed-<group>/C*/ ; ids become <prop>-<prefix><k><group>
g="$1"; pre="${2:-u}"
cd /verif || exit 2
for d in /tmp/seed-$g/C*/; do
  id=$(basename "$d"); prop=${id%-*}
  echo "=== $g/$id"
  /venv/bin/python tools/seedcheck.py "$d" "${prop}-${pre}${id#*-}$g" "$prop" --keep 2>&1 | grep -E "^suite|^demo|VIOLATION|ANALYSIS-ERROR|detected by|\[R" | cut -c1-330
done
