#!/venv/bin/python
"""Runs every check on the global private-rename overlay (jslstatic/selftest/renames.py).
usage: tools/rename_all_private.py [seed]"""
import json, os, re, sys
V = os.path.dirname(os.path.dirname(os.path.abspath(__file__)))
sys.path.insert(0, V)
from jslstatic.cli import Ctx, run_property
from jslstatic.selftest import renames

seed = int(sys.argv[1]) if len(sys.argv) > 1 else 0
ov, mapping = renames.overlay(seed)
print(f"{len(mapping)} private identifiers renamed in {len(ov)} files (seed {seed})")
base = Ctx("C00", "quick", 0, overlay=ov)
_ = base.types
inv = {v: k for k, v in mapping.items()}
bad = 0
for p in [c["property_id"] for c in json.load(open(os.path.join(V, "MANIFEST.json")))["checks"]]:
    code, chk, err = run_property(p, write=False, quiet=True, base=base)
    if code:
        bad += 1
        msg = err or "; ".join(f"{f.rule}: {f.message[:140]}" for f in chk.findings[:2])
        print(f"  {p} exit {code}: " + re.sub(r"_q\d\d\d", lambda m: f"{m.group(0)}(={inv.get(m.group(0), '?')})", msg)[:420])
print(f"{bad} checks raised an alarm on the renamed tree")
sys.stdout.flush()
os._exit(1 if bad else 0)
