#!/venv/bin/python
"""Confirms seeded changes and runs a *snapshot* of the checks against them
without touching /repo's working tree (so that work on /verif can go on while
a round is being measured).

usage: seedcheck_overlay.py <snapshot dir with jslstatic/ MANIFEST.json ...> <prefix> <group> [<group> ...]
       e.g. seedcheck_overlay.py /tmp/firstrun/verif x PA PB   (reads /tmp/seed-PA/C01-1/ ...)

1. per seed, in its own scratch worktree of /repo HEAD (outside /repo and
   /verif, removed afterwards): apply the patch, run the pinned suite (must
   pass), run the demo (must fail), revert, run the demo (must pass).
2. per seed and claimed property: the snapshot's check on /repo's sources with
   the patch applied as an in-memory overlay (same analysis as applying the
   patch to /repo and running the quick command; the stored patches are
   replayed this way by every thorough tier).
3. stores patch, demo, notes and meta.json under /verif/seeded/<id>/.
"""
import glob
import json
import os
import shutil
import subprocess
import sys
import tempfile
from concurrent.futures import ProcessPoolExecutor

PY = "/venv/bin/python"
VERIF = os.path.dirname(os.path.dirname(os.path.abspath(__file__)))


def sh(cmd, cwd=None, timeout=1800):
    p = subprocess.run(cmd, shell=True, cwd=cwd, capture_output=True, text=True, timeout=timeout)
    return p.returncode, p.stdout + p.stderr


def confirm(args):
    src, sid, prop = args
    patch, demo = os.path.join(src, "patch.diff"), os.path.join(src, "demo.py")
    meta = {"id": sid, "property": prop, "source_dir": src}
    wt = tempfile.mkdtemp(prefix="sv-", dir="/tmp")
    os.rmdir(wt)
    rc, out = sh(f"git -C /repo worktree add -q --detach {wt} HEAD")
    if rc != 0:
        meta["applies"] = False
        meta["confirmed"] = False
        meta["error"] = out[-300:]
        return meta
    try:
        rc, out = sh(f"git apply {patch} || git apply --3way {patch}", cwd=wt)
        meta["applies"] = rc == 0
        if rc != 0:
            meta["confirmed"] = False
            return meta
        rc, out = sh(f"{PY} -m pytest -q -p no:cacheprovider -x 2>&1 | tail -3", cwd=wt)
        meta["suite_with_change"] = out.strip().splitlines()[-1] if out.strip() else ""
        suite_ok = " passed" in out and "failed" not in out and "error" not in out.lower().replace("0 errors", "")
        txt = open(demo).read()
        is_test = txt.count("def test_") > 0 and "__main__" not in txt
        runner = f"{PY} -m pytest -q -p no:cacheprovider {demo}" if is_test else f"{PY} {demo}"
        env = f"PYTHONPATH={wt} "
        rc1, o1 = sh(env + runner, cwd=wt)
        sh("git reset -q --hard HEAD && git clean -fdq", cwd=wt)
        rc2, o2 = sh(env + runner, cwd=wt)
        meta["demo_with_change_exit"] = rc1
        meta["demo_without_change_exit"] = rc2
        meta["demo_with_change_tail"] = o1.strip().splitlines()[-3:]
        meta["confirmed"] = bool(suite_ok and rc1 != 0 and rc2 == 0)
    finally:
        sh(f"git -C /repo worktree remove --force {wt}")
        shutil.rmtree(wt, ignore_errors=True)
    return meta


def run_checks(args):
    snap, patch, props = args
    code = (
        "import sys, json, os\n"
        f"sys.path.insert(0, {snap!r})\n"
        "from jslstatic.selftest import patches\n"
        "from jslstatic import cli\n"
        f"ov = patches.overlay_of({patch!r})\n"
        "out = {}\n"
        f"for p in {props!r}:\n"
        "    code, chk, err = cli.run_property(p, overlay=ov, write=False, quiet=True)\n"
        "    out[p] = [code, (err or '')[:300] if code == 2 else '; '.join(f'{f.rule} {f.message[:120]}' for f in (chk.findings if chk else [])[:3])]\n"
        "print('RESULT' + json.dumps(out))\n"
        "sys.stdout.flush(); os._exit(0)\n"
    )
    p = subprocess.run([PY, "-B", "-c", code], cwd=snap, capture_output=True, text=True, timeout=3600)
    for line in p.stdout.splitlines():
        if line.startswith("RESULT"):
            return json.loads(line[6:])
    return {"_error": [2, (p.stdout + p.stderr)[-400:]]}


def main():
    snap, prefix = sys.argv[1], sys.argv[2]
    groups = sys.argv[3:]
    props = [c["property_id"] for c in json.load(open(os.path.join(snap, "MANIFEST.json")))["checks"]]
    seeds = []
    for g in groups:
        for d in sorted(glob.glob(f"/tmp/seed-{g}/C*/")):
            name = os.path.basename(d.rstrip("/"))
            prop = name.split("-")[0]
            seeds.append((d.rstrip("/"), f"{prop}-{prefix}{name.split('-', 1)[1]}{g}", prop))
    with ProcessPoolExecutor(6) as ex:
        metas = list(ex.map(confirm, seeds))
    # each worker analyses one seed for its property's own check first; all checks per seed in one process
    with ProcessPoolExecutor(12) as ex:
        results = list(ex.map(run_checks, [(snap, os.path.join(s[0], "patch.diff"), props) for s in seeds]))
    n_det = n_ref = 0
    for (src, sid, prop), meta, res in zip(seeds, metas, results):
        meta["checks"] = {p: r[0] for p, r in res.items()}
        meta["detected_by"] = sorted(p for p, r in res.items() if r[0] == 1)
        meta["analysis_errors"] = sorted(p for p, r in res.items() if r[0] == 2)
        meta["first_run_messages"] = {p: r[1] for p, r in res.items() if r[0] != 0}
        print(f"=== {sid}: confirmed={meta.get('confirmed')} suite={meta.get('suite_with_change')!r} demo={meta.get('demo_with_change_exit')}/{meta.get('demo_without_change_exit')}")
        print("    detected by:", meta["detected_by"], " analysis errors:", meta["analysis_errors"])
        for p, r in res.items():
            if r[0] != 0:
                print(f"      {p} exit {r[0]}: {r[1][:220]}")
        n_det += bool(meta["detected_by"])
        n_ref += bool(not meta["detected_by"] and meta["analysis_errors"])
        dst = os.path.join(VERIF, "seeded", sid)
        os.makedirs(dst, exist_ok=True)
        shutil.copy(os.path.join(src, "patch.diff"), os.path.join(dst, "patch.diff"))
        shutil.copy(os.path.join(src, "demo.py"), os.path.join(dst, "demo.py"))
        if os.path.exists(os.path.join(src, "notes.md")):
            shutil.copy(os.path.join(src, "notes.md"), os.path.join(dst, "notes.md"))
            meta["needs_to_manifest"] = "see notes.md"
        meta["what_was_run"] = [
            "scratch worktree of /repo HEAD: git apply patch.diff; /venv/bin/python -m pytest -q -p no:cacheprovider -x; demo.py (must fail); git reset --hard; demo.py (must pass)",
            "every claimed check (a snapshot of /verif taken before the round) on /repo's sources with patch.diff applied as an in-memory overlay",
        ]
        json.dump(meta, open(os.path.join(dst, "meta.json"), "w"), indent=1)
    print(f"{len(seeds)} seeds: {sum(1 for m in metas if m.get('confirmed'))} confirmed, {n_det} detected at first run, {n_ref} refused only")


if __name__ == "__main__":
    main()
