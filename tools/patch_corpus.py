#!/venv/bin/python
"""Runs every check against every stored patch (see jslstatic/selftest/patches.py).
usage: tools/patch_corpus.py [refactors|seeded|all] [-j N] [--record]
       tools/patch_corpus.py one <id>
--record rewrites seeded/EXPECT.json (seed id -> checks that report it); the
ids in EXPECTED_MISSES are changes no check reports (documented in DESIGN.md §7).
"""
import json, os, sys, time
from concurrent.futures import ProcessPoolExecutor

V = os.path.dirname(os.path.dirname(os.path.abspath(__file__)))
sys.path.insert(0, V)
from jslstatic.selftest import patches  # noqa: E402

EXPECTED_MISSES = set(json.load(open(os.path.join(os.path.dirname(os.path.dirname(os.path.abspath(__file__))), "seeded", "EXPECTED_MISSES.json")))["ids"])


def one(pid):
    for kind, name, p in patches.items():
        if name == pid:
            k, _, st, res = patches.run_one((kind, name, p, patches.all_props()))
            print(pid, st)
            for prop, (code, msg) in res.items():
                print(f"  {prop} exit {code}: {msg[:400]}")
            sys.stdout.flush()
            os._exit(0)
    print("no such patch")
    os._exit(2)


def main():
    if len(sys.argv) > 2 and sys.argv[1] == "one":
        one(sys.argv[2])
    which = sys.argv[1] if len(sys.argv) > 1 and not sys.argv[1].startswith("-") else "all"
    jobs = int(sys.argv[sys.argv.index("-j") + 1]) if "-j" in sys.argv else min(16, os.cpu_count() or 4)
    props = patches.all_props()
    work = [(k, n, p, props) for k, n, p in patches.items(which)]
    t0 = time.time()
    with ProcessPoolExecutor(max_workers=jobs) as ex:
        results = list(ex.map(patches.run_one, work))
    bad = 0
    n_ref = n_seed = n_det = n_stale = n_refused = 0
    refusals = patches.load_refusals()
    features = patches.load_features()
    n_feat = 0
    expect = {}
    for kind, pid, st, res in results:
        if st != "ran":
            n_stale += 1
            print(f"  {kind} {pid}: {st}")
            continue
        if kind == "refactor":
            n_ref += 1
            documented = refusals.get(pid, set())
            want = features.get(pid, {})
            for p_, rules_ in want.items():
                c_, m_ = res.get(p_, (0, ""))
                if c_ == 1 and any(r in m_ for r in rules_):
                    n_feat += 1
                else:
                    bad += 1
                    print(f"  MISSED feature {pid}: {p_} should report {rules_}, got exit {c_}: {m_[:120]}")
            alarms = {p: cm for p, cm in res.items() if not (cm[0] == 2 and p in documented) and p not in want}
            n_refused += sum(1 for p, cm in res.items() if cm[0] == 2 and p in documented)
            if alarms:
                bad += 1
                for p, (code, msg) in alarms.items():
                    print(f"  FALSE ALARM refactor {pid}: {p} exit {code}: {msg[:200]}")
        else:
            n_seed += 1
            det = sorted(p for p, (c, _) in res.items() if c == 1)
            errs = [p for p, (c, _) in res.items() if c == 2]
            expect[pid] = det
            if det:
                n_det += 1
            elif pid not in EXPECTED_MISSES:
                bad += 1
                print(f"  MISSED seeded {pid}: no check reports it (analysis errors: {errs})")
    print(f"patch corpus: {n_ref} refactors silent-checked ({n_refused} documented refusals, {n_feat} expected feature reports), {n_seed} seeded ({n_det} detected), {n_stale} stale, {bad} problems, {time.time() - t0:.0f}s")
    if "--record" in sys.argv and which in ("all", "seeded") and not n_stale:
        with open(patches.EXPECT, "w", encoding="utf-8") as fh:
            json.dump(dict(sorted(expect.items())), fh, indent=1)
            fh.write("\n")
        print("recorded", patches.EXPECT)
    sys.stdout.flush()
    os._exit(1 if bad else 0)


if __name__ == "__main__":
    main()
