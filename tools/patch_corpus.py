#!/venv/bin/python
"""Runs every check against every stored patch, applied as an in-memory
overlay of the current tree:
  /verif/refactors/*/patch.diff  behaviour-preserving -> every check must exit 0
  /verif/seeded/*/patch.diff     property-breaking    -> some check must exit 1
                                  (the ids in EXPECTED_MISSES are known misses)
usage: tools/patch_corpus.py [refactors|seeded|all] [-j N]
"""
import json, os, shutil, subprocess, sys, tempfile, time
from concurrent.futures import ProcessPoolExecutor

V = os.path.dirname(os.path.dirname(os.path.abspath(__file__)))
sys.path.insert(0, V)
EXPECTED_MISSES = {"C05-s2", "C14-s2"}


def overlay_of(patch):
    """Applies the patch to copies of the touched files; {rel: text} or None."""
    files = []
    for ln in open(patch, encoding="utf-8"):
        if ln.startswith("+++ b/"):
            files.append(ln[6:].strip())
    tmp = tempfile.mkdtemp(prefix="pc-")
    try:
        for rel in files:
            dst = os.path.join(tmp, rel)
            os.makedirs(os.path.dirname(dst), exist_ok=True)
            src = os.path.join("/repo", rel)
            if os.path.exists(src):
                shutil.copy(src, dst)
        r = subprocess.run(["patch", "-p1", "-s", "-f", "--no-backup-if-mismatch", "-i", patch], cwd=tmp, capture_output=True, text=True)
        if r.returncode != 0:
            return None
        return {rel: open(os.path.join(tmp, rel), encoding="utf-8").read() for rel in files if rel.endswith(".py")}
    finally:
        shutil.rmtree(tmp, ignore_errors=True)


def run_one(item):
    kind, pid, patch = item
    from jslstatic.cli import Ctx, run_property

    ov = overlay_of(patch)
    if ov is None:
        return kind, pid, "stale", {}
    props = [c["property_id"] for c in json.load(open(os.path.join(V, "MANIFEST.json")))["checks"]]
    try:
        base = Ctx("C00", "quick", 0, overlay=ov)
        _ = base.types
    except Exception as e:
        return kind, pid, f"error {e!r}", {}
    res = {}
    for p in props:
        code, chk, err = run_property(p, write=False, quiet=True, base=base)
        if code != 0:
            res[p] = (code, err or "; ".join(f"{f.rule}: {f.message[:90]}" for f in chk.findings[:2]))
    return kind, pid, "ran", res


def main():
    which = sys.argv[1] if len(sys.argv) > 1 and not sys.argv[1].startswith("-") else "all"
    jobs = int(sys.argv[sys.argv.index("-j") + 1]) if "-j" in sys.argv else min(16, os.cpu_count() or 4)
    items = []
    if which in ("refactors", "all"):
        for d in sorted(os.listdir(os.path.join(V, "refactors"))):
            p = os.path.join(V, "refactors", d, "patch.diff")
            if os.path.exists(p):
                items.append(("refactor", d, p))
    if which in ("seeded", "all"):
        for d in sorted(os.listdir(os.path.join(V, "seeded"))):
            p = os.path.join(V, "seeded", d, "patch.diff")
            if os.path.exists(p):
                items.append(("seeded", d, p))
    t0 = time.time()
    with ProcessPoolExecutor(max_workers=jobs) as ex:
        results = list(ex.map(run_one, items))
    bad = 0
    n_ref = n_seed = n_det = n_stale = 0
    for kind, pid, st, res in results:
        if st != "ran":
            n_stale += 1
            print(f"  {kind} {pid}: {st}")
            continue
        if kind == "refactor":
            n_ref += 1
            if res:
                bad += 1
                for p, (code, msg) in res.items():
                    print(f"  FALSE ALARM refactor {pid}: {p} exit {code}: {msg[:200]}")
        else:
            n_seed += 1
            det = [p for p, (c, _) in res.items() if c == 1]
            errs = [p for p, (c, _) in res.items() if c == 2]
            if det:
                n_det += 1
            elif pid not in EXPECTED_MISSES:
                bad += 1
                print(f"  MISSED seeded {pid}: no check reports it (analysis errors: {errs})")
    print(f"patch corpus: {n_ref} refactors silent-checked, {n_seed} seeded ({n_det} detected), {n_stale} stale, {bad} problems, {time.time() - t0:.0f}s")
    sys.stdout.flush()
    os._exit(1 if bad else 0)


if __name__ == "__main__":
    main()
