#!/venv/bin/python
"""usage: tools/showflat.py <patch id|-> <Class.method | function> [depth]  - prints the flattened function under that stored patch"""
import ast, os, sys
V = os.path.dirname(os.path.dirname(os.path.abspath(__file__)))
sys.path.insert(0, V)
from jslstatic.cli import Ctx
from jslstatic.selftest import patches
pid, name = sys.argv[1], sys.argv[2]
depth = int(sys.argv[3]) if len(sys.argv) > 3 else 2
ov = None
if pid != "-":
    for k, n, p in patches.items():
        if n == pid:
            ov = patches.overlay_of(p)
ctx = Ctx("C00", "quick", 0, overlay=ov)
if "." in name:
    c, m = name.split(".")
    fi = ctx.repo.find_class(c).methods[m]
else:
    fi = ctx.repo.find_function(name)
print(ast.unparse(ctx.norm.flat(fi, depth=depth).node))
sys.stdout.flush(); os._exit(0)
