#!/bin/bash
# usage: tools/import_repaired.sh <round letter> <group> ...   - copies /tmp/seed-<group>/<prop>-<k>/repaired.diff
# (written by a repair agent, tools/agents/repair_prompt.py) to refactors/RP-<prop>-<letter><k><group>/patch.diff
L=$1; shift
V=$(dirname "$(dirname "$(readlink -f "$0")")")
for g in "$@"; do
  for d in /tmp/seed-$g/C*; do
    sub=$(basename $d); prop=${sub%-*}; k=${sub#*-}
    if [ -f $d/repaired.diff ]; then
      dst=$V/refactors/RP-$prop-$L$k$g
      mkdir -p $dst; cp $d/repaired.diff $dst/patch.diff; cp $d/notes.md $dst/notes.md
      echo imported $dst
    fi
  done
done
