#!/venv/bin/python
"""Runs every check on the alpha-renaming overlay (all locals of all functions
renamed, jslstatic/selftest/renames.py).  usage: tools/alpha_rename.py [seed] [path-substring]"""
import json, os, sys
V = os.path.dirname(os.path.dirname(os.path.abspath(__file__)))
sys.path.insert(0, V)
from jslstatic.cli import Ctx, run_property
from jslstatic.selftest import renames

seed = int(sys.argv[1]) if len(sys.argv) > 1 else 0
only = sys.argv[2] if len(sys.argv) > 2 else None
if only == "both":
    ov, n = renames.both_overlay(seed)
    print(f"{n} private identifiers and local variables renamed in {len(ov)} files (seed {seed})")
else:
    ov, n = renames.alpha_overlay(seed, only=only)
    print(f"{n} local variables renamed in {len(ov)} files (seed {seed})")
base = Ctx("C00", "quick", 0, overlay=ov)
_ = base.types
bad = 0
for p in [c["property_id"] for c in json.load(open(os.path.join(V, "MANIFEST.json")))["checks"]]:
    code, chk, err = run_property(p, write=False, quiet=True, base=base)
    if code:
        bad += 1
        msg = err or "; ".join(f"{f.rule}: {f.message[:150]}" for f in chk.findings[:3])
        print(f"  {p} exit {code}: {msg[:500]}")
print(f"{bad} checks raised an alarm on the alpha-renamed tree")
sys.stdout.flush()
os._exit(1 if bad else 0)
