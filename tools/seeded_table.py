#!/venv/bin/python
"""Writes /verif/SEEDED.md from /verif/seeded/*/meta.json."""
import json, os, glob
V = os.path.dirname(os.path.dirname(os.path.abspath(__file__)))
rows = []
for d in sorted(glob.glob(os.path.join(V, "seeded", "*"))):
    mp = os.path.join(d, "meta.json")
    if not os.path.exists(mp):
        continue
    m = json.load(open(mp))
    notes = os.path.join(d, "notes.md")
    first = ""
    if os.path.exists(notes):
        for ln in open(notes, encoding="utf-8"):
            ln = ln.strip()
            if ln and not ln.startswith("#"):
                first = ln[:160]
                break
    rows.append((m["id"], m["property"], m.get("confirmed"), ", ".join(m.get("detected_by", [])) or "-", ", ".join(m.get("analysis_errors", [])) or "-", first))
out = ["# Seeded changes and which checks catch them", "",
       "Each row is a change produced by an independent sub-agent (given only the property text and a scratch worktree), "
       "confirmed by `tools/seedcheck.py`: suite still passes with the change, the demo fails with it and passes without it. "
       "`detected by` lists the checks whose quick command exits 1 with the change applied to /repo.", "",
       "| id | property | confirmed | detected by | analysis-error | what it is |", "|---|---|---|---|---|---|"]
for r in rows:
    out.append("| " + " | ".join(str(x).replace("|", "/") for x in r) + " |")
det = sum(1 for r in rows if r[3] != "-")
out += ["", f"{len(rows)} seeded changes, {det} detected by at least one check, {len(rows) - det} not detected."]
open(os.path.join(V, "SEEDED.md"), "w").write("\n".join(out) + "\n")
print(f"{len(rows)} seeds, {det} detected")
