#!/venv/bin/python
"""Confirms a seeded change and runs the checks against it.

usage: seedcheck.py <seed dir with patch.diff + demo.py [+ notes.md]> <seed id> <property> [--keep]

1. scratch worktree of /repo HEAD (outside /repo and /verif): apply the patch,
   run the pinned test suite (must still pass), run the demo (must fail),
   revert, run the demo (must pass); the worktree is removed afterwards.
2. apply the patch to /repo, run every claimed check's quick command, undo.
3. with --keep: store patch, demo and meta.json under /verif/seeded/<id>/.
"""

import json
import os
import shutil
import subprocess
import sys
import tempfile

VERIF = os.path.dirname(os.path.dirname(os.path.abspath(__file__)))
PY = "/venv/bin/python"


def sh(cmd, cwd=None, timeout=1800):
    p = subprocess.run(cmd, shell=True, cwd=cwd, capture_output=True, text=True, timeout=timeout)
    return p.returncode, p.stdout + p.stderr


def main():
    src, sid, prop = sys.argv[1:4]
    keep = "--keep" in sys.argv
    patch = os.path.join(src, "patch.diff")
    demo = os.path.join(src, "demo.py")
    meta = {"id": sid, "property": prop, "source_dir": src}
    wt = tempfile.mkdtemp(prefix="sv-", dir="/tmp")
    os.rmdir(wt)
    rc, out = sh(f"git -C /repo worktree add -q {wt} HEAD")
    assert rc == 0, out
    try:
        rc, out = sh(f"git apply {patch} || git apply --3way {patch}", cwd=wt)
        meta["applies"] = rc == 0
        if rc != 0:
            print("PATCH DOES NOT APPLY:", out[-400:])
            return 1
        rc, out = sh(f"{PY} -m pytest -q -p no:cacheprovider -x 2>&1 | tail -3", cwd=wt)
        meta["suite_with_change"] = out.strip().splitlines()[-1] if out.strip() else ""
        suite_ok = " passed" in out and "failed" not in out and "error" not in out.lower().replace("0 errors", "")
        is_test = open(demo).read().count("def test_") > 0 and "__main__" not in open(demo).read()
        runner = f"{PY} -m pytest -q -p no:cacheprovider {demo}" if is_test else f"{PY} {demo}"
        env = f"PYTHONPATH={wt} "
        rc1, o1 = sh(env + runner, cwd=wt)
        sh("git reset -q --hard HEAD && git clean -fdq", cwd=wt)
        rc2, o2 = sh(env + runner, cwd=wt)
        meta["demo_with_change_exit"] = rc1
        meta["demo_without_change_exit"] = rc2
        meta["demo_with_change_tail"] = o1.strip().splitlines()[-3:]
        print(f"suite with change: {meta['suite_with_change']}  ok={suite_ok}")
        print(f"demo with change exit={rc1}; without exit={rc2}")
        confirmed = suite_ok and rc1 != 0 and rc2 == 0
        meta["confirmed"] = confirmed
    finally:
        sh(f"git -C /repo worktree remove --force {wt}")
        shutil.rmtree(wt, ignore_errors=True)
    # run the checks against /repo with the patch applied
    st, _ = sh("git -C /repo status --porcelain")
    assert sh("git -C /repo status --porcelain")[1].strip() == "", "repo not clean"
    rc, out = sh(f"git -C /repo apply {patch} || git -C /repo apply --3way {patch}")
    results = {}
    try:
        man = json.load(open(os.path.join(VERIF, "MANIFEST.json")))
        for c in man["checks"]:
            pid = c["property_id"]
            rc, out = sh(c["quick_cmd"] + " --no-evidence", cwd=VERIF)
            results[pid] = rc
            if rc != 0:
                lines = [l for l in out.splitlines() if l.startswith(("VIOLATION", "ANALYSIS-ERROR", "  job_shop_lib"))]
                print(f"  {pid}: exit {rc}")
                for l in lines[:6]:
                    print("     ", l[:260])
    finally:
        sh("git -C /repo checkout -- . && git -C /repo reset -q && git -C /repo checkout -- .")
        assert sh("git -C /repo status --porcelain")[1].strip() == "", "repo not restored"
    meta["checks"] = results
    meta["detected_by"] = sorted(p for p, r in results.items() if r == 1)
    meta["analysis_errors"] = sorted(p for p, r in results.items() if r == 2)
    print("detected by:", meta["detected_by"], " analysis errors:", meta["analysis_errors"])
    if keep:
        dst = os.path.join(VERIF, "seeded", sid)
        os.makedirs(dst, exist_ok=True)
        shutil.copy(patch, os.path.join(dst, "patch.diff"))
        shutil.copy(demo, os.path.join(dst, "demo.py"))
        notes = os.path.join(src, "notes.md")
        if os.path.exists(notes):
            shutil.copy(notes, os.path.join(dst, "notes.md"))
            meta["needs_to_manifest"] = "see notes.md"
        meta["what_was_run"] = [
            "scratch worktree of /repo HEAD: git apply patch.diff; /venv/bin/python -m pytest -q -p no:cacheprovider -x; demo.py (must fail); git checkout -- .; demo.py (must pass)",
            "git -C /repo apply patch.diff; every MANIFEST quick_cmd; git -C /repo checkout -- .",
        ]
        json.dump(meta, open(os.path.join(dst, "meta.json"), "w"), indent=1)
    return 0


if __name__ == "__main__":
    sys.exit(main())
