#!/venv/bin/python
"""Runs every check on the mechanical-equivalences overlay (flipped comparisons, swapped
if/else branches, x += k -> x = x + k).  usage: tools/equivalences.py [seed] [with-renames]"""
import json, os, sys
V = os.path.dirname(os.path.dirname(os.path.abspath(__file__)))
sys.path.insert(0, V)
from jslstatic.cli import Ctx, run_property
from jslstatic.selftest import renames

seed = int(sys.argv[1]) if len(sys.argv) > 1 else 0
base = None
if len(sys.argv) > 2:
    base, _ = renames.both_overlay(seed)
ov, n = renames.equivalences_overlay(seed, base=base)
if base:
    ov = {**base, **ov}
print(f"{n} mechanical re-spellings in {len(ov)} files (seed {seed})")
bctx = Ctx("C00", "quick", 0, overlay=ov)
_ = bctx.types
bad = 0
for p in [c["property_id"] for c in json.load(open(os.path.join(V, "MANIFEST.json")))["checks"]]:
    code, chk, err = run_property(p, write=False, quiet=True, base=bctx)
    if code:
        bad += 1
        msg = err or "; ".join(f"{f.rule}: {f.message[:150]}" for f in chk.findings[:3])
        print(f"  {p} exit {code}: {msg[:500]}")
print(f"{bad} checks raised an alarm")
sys.stdout.flush()
os._exit(1 if bad else 0)
