#!/venv/bin/python
"""Regenerates /verif/MANIFEST.json from the table below and validates it
against /root/.vp/MANIFEST.schema.json (when jsonschema is importable)."""

import json
import os
import sys

VERIF = os.path.dirname(os.path.dirname(os.path.abspath(__file__)))
sys.path.insert(0, VERIF)

# property -> (claim text, level_note, technique, design_ref)
CLAIMED = {}

NOT_APPLICABLE = {
    "C06": (
        "monotonicity of current_time() and growth of the completed set relate "
        "runtime values at consecutive states of every history; no clause of it "
        "is visible in the shape of the code, so static analysis cannot decide it"
    ),
    "C08": (
        "optimality preservation of a pruned search tree (existence of an optimal "
        "leaf among filtered histories) is decidable only by search over "
        "histories, not from the source's shape"
    ),
}


def claim(pid, text, note, technique, ref):
    CLAIMED[pid] = (text, note, technique, ref)


def load_claims():
    import importlib

    rules_dir = os.path.join(VERIF, "jslstatic", "rules")
    for fn in sorted(os.listdir(rules_dir)):
        if fn.startswith("c") and fn.endswith(".py"):
            mod = importlib.import_module(f"jslstatic.rules.{fn[:-3]}")
            m = getattr(mod, "MANIFEST", None)
            if m:
                claim(fn[:-3].upper(), m["text"], m["note"], m["technique"], m.get("ref", "DESIGN.md §3"))


def main():
    load_claims()
    props = [
        json.loads(l)["id"]
        for l in open(os.path.join(VERIF, "properties.jsonl"), encoding="utf-8")
        if l.strip()
    ]
    checks = []
    na = []
    for pid in props:
        if pid in CLAIMED:
            text, note, technique, ref = CLAIMED[pid]
            checks.append(
                {
                    "property_id": pid,
                    "quick_cmd": f"./check {pid} --tier quick",
                    "thorough_cmd": f"./check {pid} --tier thorough",
                    "evidence_file": f"/verif/evidence/{pid}.json",
                    "replay_cmd_template": f"./check {pid} --replay {{path}}",
                    "engine": "jslstatic",
                    "level_claimed": {
                        "category": "other",
                        "text": text,
                        "design_ref": ref,
                    },
                    "level_note": note,
                    "technique": technique,
                }
            )
        elif pid in NOT_APPLICABLE:
            na.append({"property_id": pid, "reason": NOT_APPLICABLE[pid]})
        else:
            na.append(
                {
                    "property_id": pid,
                    "reason": "static check designed (DESIGN.md §3) but not built yet; not claimed until it exists",
                }
            )
    manifest = {
        "version": 1,
        "setup_cmd": "/venv/bin/python -c \"import mypy, networkx, ast; print('static-analysis tooling present')\"",
        "hooks": {
            "guard": "JOB_SHOP_LIB_VERIF",
            "enable": "no hooks: the checks read /repo's source and never execute it",
            "baseline_off_cmd": "cd /repo && /venv/bin/python -m pytest -ra -q -p no:cacheprovider --timeout=900 --continue-on-collection-errors",
            "source_commits": [],
            "add_only": True,
        },
        "engines": [
            {
                "name": "jslstatic",
                "path": "/verif/jslstatic",
                "serves_properties": sorted(CLAIMED),
                "kind_free_text": (
                    "repository-specific static analysis: ast repo model with "
                    "re-export/MRO resolution, mypy-as-library type oracle, "
                    "statement-level path enumeration with call inlining, local "
                    "dataflow (provenance/alias), effect summaries; rule modules "
                    "per property"
                ),
            }
        ],
        "checks": checks,
        "not_applicable": na,
        "notes": (
            "Technique family: static analysis only. Exit 0 = decided clauses "
            "hold; exit 1 + VIOLATION line = a recognised construct breaks a "
            "rule; exit 2 + ANALYSIS-ERROR = the analysis cannot speak (never a "
            "VIOLATION). Each claimed property is claimed for the structural "
            "clauses named in its level text only; see DESIGN.md."
        ),
    }
    out = os.path.join(VERIF, "MANIFEST.json")
    with open(out, "w", encoding="utf-8") as fh:
        json.dump(manifest, fh, indent=1)
        fh.write("\n")
    try:
        import jsonschema

        schema = json.load(open("/root/.vp/MANIFEST.schema.json"))
        jsonschema.validate(manifest, schema)
        print("MANIFEST.json valid;", len(checks), "checks,", len(na), "not applicable")
    except ImportError:
        print("MANIFEST.json written (jsonschema not importable here)")


if __name__ == "__main__":
    main()
