import sys, os, re, json
snap = sys.argv[1]; LETTER = sys.argv[2] if len(sys.argv) > 2 else 'm'
sys.path.insert(0, snap)
os.chdir(snap)
from concurrent.futures import ProcessPoolExecutor
from jslstatic.selftest import patches
props = patches.all_props()
seeds = sorted(d for d in os.listdir('/verif/seeded') if re.search(r'-' + LETTER + r'\d', d))
work = []
for sid in seeds:
    work.append(('seeded', sid, f'/verif/seeded/{sid}/patch.diff', props))
    rp = f'/verif/refactors/RP-{sid}/patch.diff'
    if os.path.exists(rp):
        work.append(('refactor', 'RP-'+sid, rp, props))
with ProcessPoolExecutor(16) as ex:
    res = {pid: r for kind, pid, st, r in ex.map(patches.run_one, work)}
def rules(r):
    out = set()
    for p, (c, m) in r.items():
        if c == 1:
            for x in re.findall(r'R\d\d\.[a-z]', m) or ['?']:
                out.add((p, x))
    return out
nd = nr = 0
for sid in seeds:
    s, t = rules(res.get(sid, {})), rules(res.get('RP-'+sid, {}))
    refs = sorted(p for p,(c,m) in res.get(sid,{}).items() if c==2)
    trefs = sorted(p for p,(c,m) in res.get('RP-'+sid,{}).items() if c==2)
    right = s - t
    nd += bool(s); nr += bool(right)
    print(f"{sid}: seed={sorted(s)} twin={sorted(t)} twin_refusals={trefs} seed_refusals={refs} RIGHT={sorted(right)}")
print("detected (any)", nd, "detected (a rule silent on the repaired twin)", nr, "of", len(seeds))
twins_alarm = sum(1 for sid in seeds if rules(res.get('RP-'+sid, {})))
twins_ref = sum(1 for sid in seeds if any(c==2 for c,m in res.get('RP-'+sid,{}).values()) and not rules(res.get('RP-'+sid, {})))
print("repaired twins with a false VIOLATION:", twins_alarm, " with only refusals:", twins_ref)
sys.stdout.flush(); os._exit(0)
