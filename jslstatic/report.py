"""Findings, evidence files, known findings, exit codes."""

from __future__ import annotations

import ast
import json
import os
import re
import time
from dataclasses import dataclass, field

from .repo import AnalysisError, FuncInfo, norm

VERIF = os.path.dirname(os.path.dirname(os.path.abspath(__file__)))
EVIDENCE_DIR = os.path.join(VERIF, "evidence")
REPLAY_DIR = os.path.join(EVIDENCE_DIR, "replay")
KNOWN_FINDINGS = os.path.join(VERIF, "known_findings.json")


@dataclass
class Finding:
    prop: str
    rule: str
    construct: str  # qualified name of the function/class concerned
    statement: str  # normalised statement text (no positions)
    loc: str
    message: str
    path: list[str] = field(default_factory=list)

    def key(self) -> tuple:
        return (self.prop, self.rule, module_free(self.construct), abstract_private(self.statement))

    def to_json(self) -> dict:
        return {
            "property": self.prop,
            "rule": self.rule,
            "construct": self.construct,
            "statement": self.statement,
            "loc": self.loc,
            "message": self.message,
            "path": self.path,
        }


def module_free(construct: str) -> str:
    """``pkg._mod.Class.method`` -> ``Class.method``, ``pkg._mod.func`` ->
    ``func``: a recorded finding stays the same finding when its module is
    renamed, split or merged."""
    parts = (construct or "").split(".")
    i = 0
    while i < len(parts) - 1 and not parts[i][:1].isupper() and not parts[i].lstrip("_")[:1].isupper():
        i += 1
    return ".".join(parts[i:])


_PRIVATE = re.compile(r"(?<![A-Za-z0-9_])_[a-z][A-Za-z0-9_]*")


def abstract_private(statement: str) -> str:
    """Findings are matched against known_findings.json with private
    identifiers abstracted, so renaming a private helper does not turn a
    recorded finding into a new one."""
    t = _PRIVATE.sub("_P", statement or "")
    # the name a value is bound to is a local detail as well: `x = f()` is
    # matched on `= f()`
    return re.sub(r"^[A-Za-z_][A-Za-z0-9_]*(\s*:\s*[^=]+)?\s*=\s*(?!=)", "= ", t)


def load_known() -> dict:
    if not os.path.exists(KNOWN_FINDINGS):
        return {"findings": [], "fixed": []}
    with open(KNOWN_FINDINGS, encoding="utf-8") as fh:
        return json.load(fh)


class Check:
    """Collects rule instances and findings for one property run."""

    def __init__(self, prop: str, tier: str = "quick", seed: int = 0):
        self.prop = prop
        self.tier = tier
        self.seed = seed
        self.t0 = time.time()
        self.instances: list[dict] = []
        self.findings: list[Finding] = []
        self.rule_texts: dict[str, str] = {}
        self.undecided: list[str] = []
        self.assumptions: list[str] = []
        self.analysed: dict = {}
        self.notes: list[str] = []

    # ------------------------------------------------------------- recording
    def rule(self, rid: str, text: str):
        self.rule_texts[rid] = text

    def ok(self, rule: str, construct: str, loc: str = "", what: str = ""):
        self.instances.append(
            {"rule": rule, "construct": construct, "loc": loc, "verdict": "holds", "what": what}
        )

    def violation(
        self,
        rule: str,
        construct: str | FuncInfo,
        node: ast.AST | str | None,
        message: str,
        loc: str = "",
        path: list[str] | None = None,
    ):
        if isinstance(construct, FuncInfo):
            if not loc and isinstance(node, ast.AST):
                loc = construct.loc(node)
            elif not loc:
                loc = construct.loc()
            construct = construct.qualname
        stmt = norm(node) if node is not None else ""
        f = Finding(self.prop, rule, construct, stmt[:300], loc, message, path or [])
        if f.key() not in {x.key() for x in self.findings}:
            self.findings.append(f)
        self.instances.append(
            {"rule": rule, "construct": construct, "loc": loc, "verdict": "VIOLATED", "what": message}
        )

    def floor(self, rule: str, n: int, minimum: int, what: str = "instances"):
        """A rule that matches fewer sites than were confirmed by hand on the
        pinned tree cannot speak: the anchor moved or the matcher is blind."""
        if n < minimum:
            raise AnalysisError(
                f"{rule}: only {n} {what} matched, floor is {minimum} "
                "(anchor vanished or idiom not recognised)"
            )

    def count(self, rule: str) -> int:
        return sum(1 for i in self.instances if i["rule"] == rule)

    # ---------------------------------------------------------------- output
    def unlisted(self) -> list:
        """Findings that are not recorded in known_findings.json."""
        keys = {(k["property"], k["rule"], module_free(k["construct"]), abstract_private(k["statement"])) for k in load_known().get("findings", [])}
        return [f for f in self.findings if f.key() not in keys]

    def finish(self, write_evidence: bool = True, quiet: bool = False) -> int:
        known = load_known()
        known_keys = {
            (k["property"], k["rule"], module_free(k["construct"]), abstract_private(k["statement"])): k
            for k in known.get("findings", [])
        }
        new: list[Finding] = []
        listed: list[Finding] = []
        for f in self.findings:
            (listed if f.key() in known_keys else new).append(f)
        lines = []
        for f in listed:
            what = known_keys[f.key()].get("what", f.message)
            lines.append(
                f"KNOWN-FINDING: property={self.prop} {f.rule} {f.construct}: {what}"
            )
        replay_paths = []
        if write_evidence:
            os.makedirs(REPLAY_DIR, exist_ok=True)
            for fn in os.listdir(REPLAY_DIR):
                if fn.startswith(self.prop + "-"):
                    os.remove(os.path.join(REPLAY_DIR, fn))
        for i, f in enumerate(new, 1):
            rp = os.path.join(REPLAY_DIR, f"{self.prop}-{i}.json")
            if write_evidence:
                with open(rp, "w", encoding="utf-8") as fh:
                    json.dump(f.to_json(), fh, indent=1)
            replay_paths.append(rp)
            lines.append(f"VIOLATION property={self.prop} replay={rp}")
            lines.append(f"  {f.loc}: [{f.rule}] {f.construct}: {f.message}")
            if f.statement:
                lines.append(f"    construct: {f.statement[:200]}")
            for step in f.path[:30]:
                lines.append(f"      {step}")
        n_inst = len(self.instances)
        kinds = sorted({i["rule"] for i in self.instances})
        wall = time.time() - self.t0
        if not quiet:
            print(
                f"[{self.prop}] tier={self.tier} rule instances={n_inst} "
                f"rules with >=1 instance={len(kinds)} violations={len(new)} "
                f"known={len(listed)} wall={wall:.2f}s"
            )
            for rid in kinds:
                c = self.count(rid)
                v = sum(
                    1
                    for i in self.instances
                    if i["rule"] == rid and i["verdict"] != "holds"
                )
                print(f"  {rid}: {c} instances, {v} violated - {self.rule_texts.get(rid, '')[:110]}")
            for ln in lines:
                print(ln)
            if not new:
                print(f"PASS property={self.prop}")
        if write_evidence:
            self._write_evidence(new, listed, wall)
        return 1 if new else 0

    def _write_evidence(self, new, listed, wall):
        os.makedirs(EVIDENCE_DIR, exist_ok=True)
        kinds = sorted({i["rule"] for i in self.instances})
        distinct = len(
            {(i["rule"], i["construct"], i["loc"]) for i in self.instances}
        )
        samples = []
        seen_rules = set()
        for i in self.instances:
            if i["rule"] not in seen_rules or i["verdict"] != "holds":
                seen_rules.add(i["rule"])
                samples.append(i)
        ev = {
            "property_id": self.prop,
            "tier": self.tier,
            "seed": self.seed,
            "level": "other",
            "coverage": {
                "explanation": (
                    "Static analysis of /repo's current source (ast + statement "
                    "path enumeration + mypy-exported types); every rule "
                    "instance below is a construct in the source that was "
                    "matched and decided. Only the structural clauses named in "
                    "'rules' are decided; 'undecided_clauses' are outside this "
                    "technique."
                ),
                "evaluations": len(self.instances),
                "distinct_nontrivial": distinct,
                "rule": (
                    "one evaluation = one rule instance (rule id x construct "
                    "x source position) matched in the current tree; distinct "
                    "= distinct (rule, construct, position) triples; "
                    "non-trivial = the matcher found the construct and applied "
                    "the rule (vacuous rules fail the instance floor instead)"
                ),
                "rules": self.rule_texts,
                "rule_kinds_with_instances": len(kinds),
                "samples": samples[:60],
                "analysed": self.analysed,
                "undecided_clauses": self.undecided,
                "known_findings_reported": [f.to_json() for f in listed],
                "violations_reported": [f.to_json() for f in new],
                "exhaustive": True,
                "notes": self.notes,
            },
            "assumptions": self.assumptions,
            "wall_s": round(wall, 3),
            "violations": len(new),
        }
        with open(
            os.path.join(EVIDENCE_DIR, f"{self.prop}.json"), "w", encoding="utf-8"
        ) as fh:
            json.dump(ev, fh, indent=1, default=str)
