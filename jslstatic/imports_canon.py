"""Source pre-pass: one spelling per imported name.

``from itertools import combinations`` + ``combinations(xs, 2)`` and
``import itertools`` + ``itertools.combinations(xs, 2)`` are the same program;
so are ``_utils.add_padding(a)`` (module-qualified access to a module of the
package) and ``add_padding(a)`` after ``from ._utils import add_padding``.  The
rules read call sites by their text, so the spelling is normalised *before* the
model and the type oracle are built:

* names of other distributions (stdlib, numpy, ...): the spelling the pinned
  tree uses for that qualified name (``baseline_imports.EXTERNAL``, with the
  per-file minority spellings in ``PER_MODULE``; generated once by
  ``tools/gen_baseline_api.py``).  A qualified name the pinned tree never uses is
  left as written.
* names of the package itself: the pinned tree always imports the object and
  uses the bare name, so ``<package module>.<name>`` becomes ``<name>`` plus a
  ``from <module> import <name>``.

A use is rewritten only when the local names involved are bound exactly once in
the module, by that import (no shadowing parameter, assignment or definition
anywhere in the file).  A no-op on the pinned tree."""
from __future__ import annotations

import ast
import copy

PKG = "job_shop_lib"


def _rel_to_mod(rel: str) -> str:
    m = rel[:-3].replace("/", ".")
    return m[: -len(".__init__")] if m.endswith(".__init__") else m


def _abs_module(rel: str, module: str | None, level: int) -> str:
    if not level:
        return module or ""
    parts = rel.split("/")[:-1]
    if level > 1:
        parts = parts[: len(parts) - (level - 1)]
    base = ".".join(parts)
    return base + ("." + module if module else "")


def _import_nodes(tree: ast.Module):
    """Module-level imports, including those under ``if TYPE_CHECKING:`` / try."""
    stack = list(tree.body)
    while stack:
        n = stack.pop(0)
        if isinstance(n, (ast.Import, ast.ImportFrom)):
            yield n
        elif isinstance(n, ast.If):
            stack = n.body + n.orelse + stack
        elif isinstance(n, ast.Try):
            stack = n.body + [s for h in n.handlers for s in h.body] + n.orelse + n.finalbody + stack


def bindings(tree: ast.Module, rel: str) -> dict[str, str]:
    """local name -> qualified name, for names bound once, by an import."""
    out: dict[str, str] = {}
    for n in _import_nodes(tree):
        if isinstance(n, ast.Import):
            for a in n.names:
                if a.asname:
                    out[a.asname] = a.name
                else:
                    out[a.name.split(".")[0]] = a.name.split(".")[0]
        else:
            m = _abs_module(rel, n.module, n.level)
            for a in n.names:
                if a.name != "*":
                    out[a.asname or a.name] = f"{m}.{a.name}" if m else a.name
    # anything bound otherwise (or twice with different meanings) is unsafe
    counts: dict[str, set] = {}
    for n in _import_nodes(tree):
        for a in n.names:
            local = a.asname or a.name.split(".")[0]
            q = out.get(local)
            counts.setdefault(local, set()).add(q)
    unsafe = {k for k, v in counts.items() if len(v) > 1}
    for n in ast.walk(tree):
        if isinstance(n, ast.Name) and isinstance(n.ctx, (ast.Store, ast.Del)):
            unsafe.add(n.id)
        elif isinstance(n, (ast.FunctionDef, ast.AsyncFunctionDef, ast.ClassDef)):
            unsafe.add(n.name)
            if not isinstance(n, ast.ClassDef):
                a = n.args
                unsafe |= {x.arg for x in a.posonlyargs + a.args + a.kwonlyargs}
                unsafe |= {x.arg for x in (a.vararg, a.kwarg) if x}
        elif isinstance(n, ast.Lambda):
            a = n.args
            unsafe |= {x.arg for x in a.posonlyargs + a.args + a.kwonlyargs}
            unsafe |= {x.arg for x in (a.vararg, a.kwarg) if x}
        elif isinstance(n, ast.ExceptHandler) and n.name:
            unsafe.add(n.name)
        elif isinstance(n, (ast.Global, ast.Nonlocal)):
            unsafe |= set(n.names)
        elif isinstance(n, ast.MatchAs) and n.name:
            unsafe.add(n.name)
        elif isinstance(n, ast.MatchStar) and n.name:
            unsafe.add(n.name)
    return {k: v for k, v in out.items() if k not in unsafe}


def _all_bound(tree: ast.Module) -> set[str]:
    out = set()
    for n in ast.walk(tree):
        if isinstance(n, ast.Name) and isinstance(n.ctx, (ast.Store, ast.Del)):
            out.add(n.id)
        elif isinstance(n, (ast.FunctionDef, ast.AsyncFunctionDef, ast.ClassDef)):
            out.add(n.name)
            if not isinstance(n, ast.ClassDef):
                a = n.args
                out |= {x.arg for x in a.posonlyargs + a.args + a.kwonlyargs}
                out |= {x.arg for x in (a.vararg, a.kwarg) if x}
        elif isinstance(n, ast.Lambda):
            a = n.args
            out |= {x.arg for x in a.posonlyargs + a.args + a.kwonlyargs}
        elif isinstance(n, (ast.Import, ast.ImportFrom)):
            out |= {(a.asname or a.name.split(".")[0]) for a in n.names}
        elif isinstance(n, ast.ExceptHandler) and n.name:
            out.add(n.name)
    return out


def chains(tree: ast.Module):
    """(outermost node, root Name, [attrs]) of every maximal dotted chain read
    in the module."""
    inner = set()
    for n in ast.walk(tree):
        if isinstance(n, ast.Attribute) and isinstance(n.value, (ast.Attribute, ast.Name)):
            inner.add(id(n.value))
    for n in ast.walk(tree):
        if id(n) in inner:
            continue
        if isinstance(n, ast.Name) and isinstance(n.ctx, ast.Load):
            yield n, n, []
        elif isinstance(n, ast.Attribute):
            attrs, x = [], n
            while isinstance(x, ast.Attribute):
                attrs.append(x.attr)
                x = x.value
            if isinstance(x, ast.Name) and isinstance(x.ctx, ast.Load):
                yield n, x, attrs[::-1]


def spellings(tree: ast.Module, rel: str):
    """For the table generator: (qualified name, spelling, import statement)
    of every prefix of every chain rooted at an imported external name."""
    b = bindings(tree, rel)
    stmts = {}
    for n in _import_nodes(tree):
        if isinstance(n, ast.Import):
            for a in n.names:
                stmts[a.asname or a.name.split(".")[0]] = "import " + a.name + (f" as {a.asname}" if a.asname else "")
        elif n.level == 0:
            for a in n.names:
                stmts[a.asname or a.name] = f"from {n.module} import {a.name}" + (f" as {a.asname}" if a.asname else "")
    for _, root, attrs in chains(tree):
        q = b.get(root.id)
        if q is None or q == PKG or q.startswith(PKG + ".") or root.id not in stmts:
            continue
        is_module_binding = stmts[root.id].startswith("import ")
        for k in range(0 if not is_module_binding else 1, len(attrs) + 1):
            yield ".".join([q] + attrs[:k]), ".".join([root.id] + attrs[:k]), stmts[root.id]


def _chain_node(names: list[str], like: ast.AST) -> ast.AST:
    node: ast.AST = ast.Name(id=names[0], ctx=ast.Load())
    for a in names[1:]:
        node = ast.Attribute(value=node, attr=a, ctx=ast.Load())
    for x in ast.walk(node):
        ast.copy_location(x, like)
    return node


def canonicalise(tree: ast.Module, rel: str, package_modules: set[str]) -> list[str]:
    """Rewrites ``tree`` in place; returns notes (empty when nothing changed)."""
    from .baseline_imports import EXTERNAL, PER_MODULE

    b = bindings(tree, rel)
    if not b:
        return []
    bound = _all_bound(tree)
    parents = {}
    for p in ast.walk(tree):
        for c in ast.iter_child_nodes(p):
            parents[c] = p
    plans = []  # (outer node, n attrs consumed, new spelling names, import stmt or None)
    need: dict[str, str] = {}  # local name -> import statement text
    notes = []
    for outer, root, attrs in list(chains(tree)):
        q = b.get(root.id)
        if q is None or not isinstance(getattr(outer, "ctx", None), ast.Load):
            continue
        if q == PKG or q.startswith(PKG + "."):
            # descend through modules of the package; the first non-module attribute is the object
            k = 0
            while k < len(attrs) and f"{q}.{attrs[k]}" in package_modules:
                q = f"{q}.{attrs[k]}"
                k += 1
            if q not in package_modules or k >= len(attrs):
                continue
            name = attrs[k]
            want_q = f"{q}.{name}"
            if b.get(name) == want_q or (name in b and _same_object(b[name], want_q)):
                pass
            elif name in bound or name in need and need[name] != f"from {q} import {name}":
                continue  # the bare name means something else here
            else:
                need[name] = f"from {q} import {name}"
            plans.append((outer, k + 1, [name]))
            continue
        for k in range(len(attrs), -1, -1):
            qq = ".".join([q] + attrs[:k])
            ent = PER_MODULE.get((rel, qq)) or EXTERNAL.get(qq)
            if ent is None:
                continue
            spelling, stmt = ent
            cur = ".".join([root.id] + attrs[:k])
            if cur == spelling:
                break
            local = spelling.split(".")[0]
            local_q = _stmt_binding(stmt)
            if b.get(local) == local_q:
                pass
            elif local in bound or local in need and need[local] != stmt:
                break
            else:
                need[local] = stmt
            plans.append((outer, k, spelling.split(".")))
            break
    if not plans:
        return []
    for outer, k, names in plans:
        # the node covering root + first k attrs
        node, depth = outer, 0
        total = 0
        x = outer
        while isinstance(x, ast.Attribute):
            total += 1
            x = x.value
        target = outer
        for _ in range(total - k):
            target = target.value
        new = _chain_node(names, target)
        if target is outer:
            par = parents.get(outer)
            if par is None:
                continue
            for field, val in ast.iter_fields(par):
                if val is outer:
                    setattr(par, field, new)
                elif isinstance(val, list):
                    for i, v in enumerate(val):
                        if v is outer:
                            val[i] = new
        else:
            holder = outer
            while holder.value is not target:
                holder = holder.value
            holder.value = new
        notes.append(f"`{ast.unparse(target)}` spelt `{'.'.join(names)}`")
    # add the imports after the docstring and __future__ imports
    at = 0
    for i, st in enumerate(tree.body):
        if i == 0 and isinstance(st, ast.Expr) and isinstance(st.value, ast.Constant) and isinstance(st.value.value, str):
            at = 1
        elif isinstance(st, ast.ImportFrom) and st.module == "__future__":
            at = i + 1
    for stmt in sorted(set(need.values())):
        node = ast.parse(stmt).body[0]
        like = tree.body[at] if at < len(tree.body) else tree.body[-1]
        for x in ast.walk(node):
            ast.copy_location(x, like)
        tree.body.insert(at, node)
        at += 1
    uniq = sorted(set(notes))
    return [f"import spelling: {', '.join(uniq[:6])}" + (f" and {len(uniq) - 6} more" if len(uniq) > 6 else "")]


def _stmt_binding(stmt: str) -> str:
    n = ast.parse(stmt).body[0]
    a = n.names[0]
    if isinstance(n, ast.Import):
        return a.name if a.asname else a.name.split(".")[0]
    return f"{n.module}.{a.name}"


def _same_object(q1: str, q2: str) -> bool:
    """``job_shop_lib.Operation`` and ``job_shop_lib._operation.Operation``:
    same final name inside the package - the package re-exports, it never has
    two different public objects of one name."""
    return q1.rsplit(".", 1)[-1] == q2.rsplit(".", 1)[-1] and q1.startswith(PKG) and q2.startswith(PKG)
