"""AST normalisation used by the shape rules, so that ordinary refactorings
do not change what a rule sees:

* ``flat(fi)``  - a synthetic copy of a function in which calls to package
  helper functions/methods are inlined at statement level (extract-method /
  extract-function refactorings are undone), with the helper's locals renamed
  apart and ``return``s of guard-clause helpers turned into assignments;
* ``xexpr / xtext`` - an expression with single-definition local aliases
  substituted (``job = self.instance.jobs[job_id]`` ... ``len(job)`` reads as
  ``len(self.instance.jobs[job_id])``), and calls to one-expression helpers
  replaced by that expression.

Nothing is executed; the transformations are purely syntactic and are only
used to *recognise* constructs - findings are still reported on the original
source positions where available.
"""

from __future__ import annotations

import ast
import copy
from dataclasses import dataclass

from .repo import FuncInfo, ModuleInfo, body_of, own_nodes

_counter = [0]


class FlatFunc(FuncInfo):
    """FuncInfo over a synthetic AST; ``loc`` points into the file the node
    originally came from."""

    def loc(self, node=None):  # type: ignore[override]
        n = node if node is not None else self.node
        org = getattr(n, "_origin_path", None)
        return f"{org or self.module.relpath}:{getattr(n, 'lineno', 0)}"

    def __hash__(self):
        return hash(self.qualname)


def _names_assigned(stmts) -> set[str]:
    out = set()
    for st in stmts:
        for n in ast.walk(st):
            if isinstance(n, ast.Name) and isinstance(n.ctx, (ast.Store, ast.Del)):
                out.add(n.id)
            elif isinstance(n, (ast.FunctionDef, ast.Lambda)):
                pass
    return out


class _Rename(ast.NodeTransformer):
    def __init__(self, mapping: dict[str, ast.AST | str]):
        self.mapping = mapping

    def visit_Name(self, node: ast.Name):
        m = self.mapping.get(node.id)
        if m is None:
            return node
        if isinstance(m, str):
            new = ast.Name(id=m, ctx=node.ctx)
            return ast.copy_location(new, node)
        if isinstance(node.ctx, ast.Load):
            new = copy.deepcopy(m)
            return new
        return node

    def visit_Lambda(self, node: ast.Lambda):
        shadow = {a.arg for a in node.args.args}
        saved = self.mapping
        self.mapping = {k: v for k, v in saved.items() if k not in shadow}
        self.generic_visit(node)
        self.mapping = saved
        return node


def _all_paths_return(stmts) -> bool:
    if not stmts:
        return False
    last = stmts[-1]
    if isinstance(last, (ast.Return, ast.Raise)):
        return True
    if isinstance(last, ast.If):
        return _all_paths_return(last.body) and bool(last.orelse) and _all_paths_return(last.orelse)
    return False


def _has_return(stmts) -> bool:
    for st in stmts:
        for n in ast.walk(st):
            if isinstance(n, ast.Return):
                return True
    return False


def _tailify(stmts, make_result):
    """Rewrites a guard-clause body so that every ``return v`` becomes
    ``make_result(v)`` and the statements after a returning ``if`` move into
    its else branch.  Returns None when a return sits where this is not
    possible (inside a loop / try / with)."""
    out = []
    for i, st in enumerate(stmts):
        if isinstance(st, ast.Return):
            out += make_result(st.value, st)
            return out
        if isinstance(st, ast.If):
            body_ret = _has_return(st.body)
            else_ret = _has_return(st.orelse)
            if not body_ret and not else_ret:
                out.append(st)
                continue
            rest = stmts[i + 1:]
            new = copy.copy(st)
            if _all_paths_return(st.body) or (st.body and isinstance(st.body[-1], ast.Raise)):
                b = _tailify(st.body, make_result)
                if b is None:
                    return None
                new.body = b or [ast.Pass()]
                tail = list(st.orelse) + list(rest)
                o = _tailify(tail, make_result)
                if o is None:
                    return None
                new.orelse = o
                out.append(new)
                return out
            if st.orelse and _all_paths_return(st.orelse):
                o = _tailify(st.orelse, make_result)
                b = _tailify(list(st.body) + list(rest), make_result)
                if o is None or b is None:
                    return None
                new.orelse = o
                new.body = b or [ast.Pass()]
                out.append(new)
                return out
            return None
        if _has_return([st]):
            return None
        out.append(st)
    return out


def _is_path_expr(v: ast.AST, _depth: int = 0) -> bool:
    """A pure access path: name, constant, attribute chain, subscript by a
    constant / name / path (``job_nodes[-1]``, ``self.graph.nodes[i]``,
    ``EdgeType.CONJUNCTIVE``).  Substituting such an argument for the parameter
    of an inlined helper reads the same objects the call would have passed."""
    if _depth > 4:
        return False
    if isinstance(v, (ast.Name, ast.Constant)):
        return True
    if isinstance(v, ast.Attribute):
        return _is_path_expr(v.value, _depth + 1)
    if isinstance(v, ast.Subscript):
        i = v.slice
        idx_ok = isinstance(i, (ast.Constant, ast.Name)) or (
            isinstance(i, ast.UnaryOp) and isinstance(i.operand, ast.Constant)) or (isinstance(i, ast.Attribute) and _is_path_expr(i, _depth + 1))
        return idx_ok and _is_path_expr(v.value, _depth + 1)
    return False


class Normalizer:
    def __init__(self, ctx):
        self.ctx = ctx
        self._flat: dict[tuple, FlatFunc] = {}

    # ------------------------------------------------------------ inlining
    def _inline_target(self, fi: FuncInfo, call: ast.Call, banned: set[str]):
        ts, _ = self.ctx.res.callees(fi, call, fi.cls)
        if len(ts) != 1:
            return None
        t = ts[0]
        if isinstance(t.node, ast.Lambda) or t.qualname in banned or t.name == "__init__":
            return None
        if t.decorators and not (t.is_static or t.is_classmethod):
            return None
        if any(isinstance(n, (ast.Yield, ast.YieldFrom, ast.Await)) for n in ast.walk(t.node)):
            return None
        if len(list(ast.walk(t.node))) > 600:
            return None
        # public API functions of other modules are not "helpers": only
        # private names or methods of the same class are undone
        same_cls = t.cls is not None and fi.cls is not None and (t.cls.qualname in fi.cls.mro or fi.cls.qualname in t.cls.mro)
        same_mod = t.module is fi.module
        private = t.name.startswith("_") and not t.name.startswith("__")
        if not (private and (same_cls or same_mod)):
            return None
        return t

    def _bind(self, t: FuncInfo, call: ast.Call, suffix: str, subst_all: bool = False):
        """(prefix assignments, rename mapping) for inlining ``t`` at ``call``."""
        a = t.node.args
        params = [p.arg for p in a.posonlyargs + a.args]
        kwonly = [p.arg for p in a.kwonlyargs]
        defaults = dict(zip(params[len(params) - len(a.defaults):], a.defaults))
        for p, d in zip(kwonly, a.kw_defaults):
            if d is not None:
                defaults[p] = d
        if a.vararg or a.kwarg:
            return None
        args: dict[str, ast.AST] = {}
        is_method = t.cls is not None and not t.is_static
        pos = list(params)
        if is_method and pos:
            recv = call.func.value if isinstance(call.func, ast.Attribute) else None
            if t.is_classmethod:
                recv = recv if recv is not None else ast.Name(id=t.cls.name, ctx=ast.Load())
            if recv is None:
                return None
            args[pos[0]] = recv
            pos = pos[1:]
        if any(isinstance(x, ast.Starred) for x in call.args) or any(k.arg is None for k in call.keywords):
            return None
        for p, v in zip(pos, call.args):
            args[p] = v
        for k in call.keywords:
            args[k.arg] = k.value
        for p in params + kwonly:
            if p not in args:
                if p in defaults:
                    args[p] = defaults[p]
                else:
                    return None
        body = body_of(t.node)
        assigned = _names_assigned(body)
        mapping: dict[str, ast.AST | str] = {}
        prefix = []
        for p, v in args.items():
            simple = _is_path_expr(v)
            if p not in assigned and (simple or subst_all):
                mapping[p] = v
            else:
                new = f"{p}__{suffix}" if p in getattr(self, "_caller_names", ()) else p
                mapping[p] = new
                asg = ast.Assign(targets=[ast.Name(id=new, ctx=ast.Store())], value=copy.deepcopy(v))
                ast.copy_location(asg, call)
                ast.fix_missing_locations(asg)
                prefix.append(asg)
        for n in assigned:
            if n not in mapping and n in getattr(self, "_caller_names", ()):
                # only names that would capture a variable of the function
                # being flattened are renamed apart
                mapping[n] = f"{n}__{suffix}"
        return prefix, mapping

    def _inline_stmt(self, fi, st, depth, banned, is_tail):
        """Returns a list of statements replacing ``st`` or None."""
        call = None
        kind = None
        if isinstance(st, ast.Expr) and isinstance(st.value, ast.Call):
            call, kind = st.value, "expr"
        elif isinstance(st, ast.Assign) and isinstance(st.value, ast.Call) and len(st.targets) == 1:
            call, kind = st.value, "assign"
        elif isinstance(st, ast.AnnAssign) and isinstance(st.value, ast.Call):
            call, kind = st.value, "annassign"
        elif isinstance(st, ast.Return) and isinstance(st.value, ast.Call):
            call, kind = st.value, "return"
        if call is None:
            return None
        t = self._inline_target(fi, call, banned)
        if t is None:
            return None
        _counter[0] += 1
        suffix = f"i{_counter[0]}"
        b = self._bind(t, call, suffix)
        if b is None:
            return None
        prefix, mapping = b
        # names the inlined body introduces into the flattened function: a helper
        # inlined later must not capture them either
        if isinstance(getattr(self, "_caller_names", None), set):
            introduced = set()
            for nm in _names_assigned(body_of(t.node)):
                m_ = mapping.get(nm, nm)
                introduced.add(m_ if isinstance(m_, str) else nm)
            for st_ in prefix:
                introduced |= {x.id for tg in st_.targets for x in ast.walk(tg) if isinstance(x, ast.Name)}
            self._caller_names |= introduced
        body = [copy.deepcopy(x) for x in body_of(t.node)]
        ren = _Rename(mapping)
        body = [ren.visit(x) for x in body]
        for x in body:
            for n in ast.walk(x):
                n._origin_path = t.module.relpath  # type: ignore[attr-defined]

        def result_stmts(value, ret):
            if kind == "expr":
                if value is None or isinstance(value, ast.Constant):
                    return []
                e = ast.Expr(value=value)
                return [ast.copy_location(e, ret)]
            if kind == "return":
                r = ast.Return(value=value)
                return [ast.copy_location(r, ret)]
            if kind == "assign":
                a = ast.Assign(targets=copy.deepcopy(st.targets), value=value if value is not None else ast.Constant(None))
                return [ast.copy_location(a, ret)]
            a = ast.AnnAssign(target=copy.deepcopy(st.target), annotation=st.annotation, value=value if value is not None else ast.Constant(None), simple=st.simple)
            return [ast.copy_location(a, ret)]

        if not _has_return(body):
            new_body = body
            if kind in ("assign", "annassign", "return"):
                new_body = body + result_stmts(ast.Constant(None), st)
        else:
            new_body = _tailify(body, result_stmts)
            if new_body is None:
                return None
        out = prefix + new_body
        for x in out:
            ast.fix_missing_locations(x)
        # recurse into the inlined statements
        if depth > 1:
            out = self._inline_block(self._tmp_fi(t, fi), out, depth - 1, banned | {t.qualname}, is_tail)
        return out

    def _tmp_fi(self, t: FuncInfo, fi: FuncInfo) -> FuncInfo:
        # callee resolution inside inlined code happens in the helper's module
        # but on the caller's receiver class
        return FuncInfo(t.qualname, t.name, t.node, t.module, fi.cls if t.cls is not None else None, t.parent, t.decorators)

    def _desugar_comp(self, fi, st, banned):
        """``x = [helper(args) for v in it]`` (also as return / annotated
        assignment) with an inlinable private helper becomes the explicit
        loop  ``x = []; for v in it: e = helper(args); x.append(e)`` so that
        the helper can be inlined at statement level.  Returns the replacing
        statements or None."""
        value = getattr(st, "value", None)
        if not isinstance(st, (ast.Assign, ast.AnnAssign, ast.Return)) or not isinstance(value, ast.ListComp):
            return None
        if not isinstance(value.elt, ast.Call) or self._inline_target(fi, value.elt, banned) is None:
            return None
        if isinstance(st, ast.Assign) and not (len(st.targets) == 1 and isinstance(st.targets[0], ast.Name)):
            return None
        if isinstance(st, ast.AnnAssign) and not isinstance(st.target, ast.Name):
            return None
        if any(g.is_async for g in value.generators):
            return None
        # comprehension variables become function-level names: refuse on a clash
        caller = getattr(self, "_caller_names", set())
        tnames = {x.id for g in value.generators for x in ast.walk(g.target) if isinstance(x, ast.Name)}
        comp_inner = {x.id for x in ast.walk(value) if isinstance(x, ast.Name)}
        outside = {
            x.id for n in ast.walk(getattr(self, "_flat_root", st)) if n is not value and not any(n is y for y in ast.walk(value))
            for x in [n] if isinstance(x, ast.Name)
        }
        if any(t != "_" and t in outside for t in tnames):
            return None
        del caller, comp_inner
        _counter[0] += 1
        k = _counter[0]
        if isinstance(st, ast.Assign):
            acc = st.targets[0].id
        elif isinstance(st, ast.AnnAssign):
            acc = st.target.id
        else:
            acc = f"_items__c{k}"
        elem = f"_item__c{k}"
        init: ast.stmt
        if isinstance(st, ast.AnnAssign):
            init = ast.AnnAssign(target=ast.Name(id=acc, ctx=ast.Store()), annotation=st.annotation, value=ast.List(elts=[], ctx=ast.Load()), simple=1)
        else:
            init = ast.Assign(targets=[ast.Name(id=acc, ctx=ast.Store())], value=ast.List(elts=[], ctx=ast.Load()))
        inner: list[ast.stmt] = [
            ast.Assign(targets=[ast.Name(id=elem, ctx=ast.Store())], value=value.elt),
            ast.Expr(value=ast.Call(
                func=ast.Attribute(value=ast.Name(id=acc, ctx=ast.Load()), attr="append", ctx=ast.Load()),
                args=[ast.Name(id=elem, ctx=ast.Load())], keywords=[])),
        ]
        for g in reversed(value.generators):
            body = inner
            for cond in reversed(g.ifs):
                body = [ast.If(test=cond, body=body, orelse=[])]
            inner = [ast.For(target=g.target, iter=g.iter, body=body, orelse=[])]
        out = [init] + inner
        if isinstance(st, ast.Return):
            out.append(ast.Return(value=ast.Name(id=acc, ctx=ast.Load())))
        for x in out:
            ast.copy_location(x, st)
            ast.fix_missing_locations(x)
        return out

    def _hoist(self, fi, st, banned):
        """Moves an inlinable helper call (or a list comprehension over one)
        out of an argument position / a loop header into a temporary assigned
        just before the statement, where statement-level inlining reaches it:
            f(x, [h(v) for v in it])      ->  _t = [h(v) for v in it]; f(x, _t)
            for i, v in enumerate(h(a)):  ->  _t = h(a); for i, v in enumerate(_t):
        Only done when everything evaluated before the hoisted expression in
        that statement is a pure access path, so evaluation order is kept."""
        def inl_call(e):
            return isinstance(e, ast.Call) and self._inline_target(fi, e, banned) is not None

        def wanted(e):
            return inl_call(e) or (isinstance(e, ast.ListComp) and inl_call(e.elt))

        holder = None  # (container list / node, index / field)
        if isinstance(st, ast.For):
            it = st.iter
            if wanted(it):
                holder = (st, "iter")
            elif isinstance(it, ast.Call) and isinstance(it.func, ast.Name) and it.func.id in ("enumerate", "zip", "reversed", "list", "sorted", "tuple") and it.args and wanted(it.args[0]):
                holder = (it.args, 0)
        else:
            value = getattr(st, "value", None)
            if isinstance(st, (ast.Expr, ast.Assign, ast.AnnAssign, ast.Return)) and isinstance(value, ast.Call) and not inl_call(value):
                if not _is_path_expr(value.func):
                    return None
                for i, a in enumerate(value.args):
                    if wanted(a):
                        holder = (value.args, i)
                        break
                    if not _is_path_expr(a):
                        break
                else:
                    for kw in value.keywords:
                        if wanted(kw.value):
                            holder = (kw, "value")
                            break
                        if not _is_path_expr(kw.value):
                            break
        if holder is None:
            return None
        _counter[0] += 1
        tmp = f"_arg__h{_counter[0]}"
        cont, key = holder
        expr = cont[key] if isinstance(key, int) else getattr(cont, key)
        asg = ast.Assign(targets=[ast.Name(id=tmp, ctx=ast.Store())], value=expr)
        ref = ast.Name(id=tmp, ctx=ast.Load())
        if isinstance(key, int):
            cont[key] = ref
        else:
            setattr(cont, key, ref)
        for x in (asg, ref):
            ast.copy_location(x, st)
        ast.fix_missing_locations(asg)
        ast.fix_missing_locations(st)
        return [asg, st]

    def _inline_block(self, fi, stmts, depth, banned, tail=True):
        out = []
        if depth > 0:
            for _round in range(3):
                expanded = []
                changed = False
                for st in stmts:
                    rep = self._desugar_comp(fi, st, banned)
                    if rep is None:
                        rep = self._hoist(fi, st, banned)
                    if rep is not None:
                        changed = True
                    expanded += rep if rep is not None else [st]
                stmts = expanded
                if not changed:
                    break
        for i, st in enumerate(stmts):
            is_tail = tail and i == len(stmts) - 1
            rep = self._inline_stmt(fi, st, depth, banned, is_tail) if depth > 0 else None
            if rep is not None:
                out += rep
                continue
            for fld in ("body", "orelse", "finalbody"):
                sub = getattr(st, fld, None)
                if isinstance(sub, list) and sub and isinstance(sub[0], ast.stmt) and not isinstance(st, (ast.FunctionDef, ast.ClassDef)):
                    setattr(st, fld, self._inline_block(fi, sub, depth, banned, is_tail and not isinstance(st, (ast.For, ast.While))))
            if isinstance(st, ast.Try):
                for h in st.handlers:
                    h.body = self._inline_block(fi, h.body, depth, banned, False)
            out.append(st)
        return out

    def flat(self, fi: FuncInfo, depth: int = 2, keep: tuple = ()) -> FlatFunc:
        """``keep``: qualnames of helpers that must stay calls (a rule that
        judges the call site itself)."""
        key = (fi.qualname, depth, tuple(sorted(keep)))
        got = self._flat.get(key)
        if got is not None:
            return got
        node = copy.deepcopy(fi.node)
        if not isinstance(node, ast.Lambda):
            saved = getattr(self, "_caller_names", set())
            self._caller_names = {n.id for n in ast.walk(fi.node) if isinstance(n, ast.Name)} | set(fi.params)
            self._flat_root = node
            try:
                node.body = self._inline_block(fi, list(node.body), depth, {fi.qualname} | set(keep))
            finally:
                self._caller_names = saved
        parents = {}
        for p in ast.walk(node):
            for c in ast.iter_child_nodes(p):
                parents[c] = p
        mi = ModuleInfo(fi.module.name, fi.module.relpath, fi.module.source, fi.module.tree)
        mi.imports = fi.module.imports
        mi.functions = fi.module.functions
        mi.classes = fi.module.classes
        mi.assigns = fi.module.assigns
        mi.parents = parents
        ff = FlatFunc(fi.qualname + ("#flat" if depth == 2 else f"#flat{depth}") + ("k" if keep else ""), fi.name, node, mi, fi.cls, fi.parent, list(fi.decorators))
        self._flat[key] = ff
        return ff

    # ----------------------------------------------------------- expansion
    def xexpr(self, fi: FuncInfo, node: ast.AST, depth: int = 6, _seen=None) -> ast.AST:
        """Copy of ``node`` with single-definition local aliases substituted
        and one-expression helper calls replaced by their expression."""
        _seen = _seen or frozenset()
        defs = self.ctx.flow.defs(fi)
        norm = self

        class X(ast.NodeTransformer):
            def visit_Name(self, n: ast.Name):
                if not isinstance(n.ctx, ast.Load) or depth <= 0 or n.id in _seen:
                    return n
                ds = defs.of(n.id)
                if len(ds) == 1 and ds[0][0] == "value" and n.id not in defs.params:
                    v = ds[0][1]
                    # empty containers that are filled later are not aliases
                    if isinstance(v, (ast.List, ast.Set, ast.Tuple)) and not v.elts:
                        return n
                    if isinstance(v, ast.Dict) and not v.keys:
                        return n
                    if isinstance(v, ast.Lambda):
                        return n
                    return norm.xexpr(fi, v, depth - 1, _seen | {n.id})
                # tuple unpacking from a tuple literal handled by Defs already
                return n

            def visit_Subscript(self, n: ast.Subscript):
                self.generic_visit(n)
                # (a, b)[1] -> b  (unpacking of a tuple literal / of an inlined helper's tuple result)
                if isinstance(n.value, (ast.Tuple, ast.List)) and isinstance(n.slice, ast.Constant) and isinstance(n.slice.value, int):
                    k = n.slice.value
                    if -len(n.value.elts) <= k < len(n.value.elts) and not any(isinstance(e, ast.Starred) for e in n.value.elts):
                        return n.value.elts[k]
                return n

            def visit_Attribute(self, a: ast.Attribute):
                # record field of a local built by a keyword constructor call:
                #   size = _Size(num_jobs=J, num_machines=M) ... size.num_machines  ->  M
                if isinstance(a.ctx, ast.Load) and isinstance(a.value, ast.Name) and depth > 0 and a.value.id not in _seen:
                    ds = defs.of(a.value.id)
                    if len(ds) == 1 and ds[0][0] == "value" and isinstance(ds[0][1], ast.Call) and a.value.id not in defs.params:
                        call = ds[0][1]
                        cls = norm.ctx.repo.classes.get(norm.ctx.repo.resolve(fi.module.name, ast.unparse(call.func)) or "")
                        if cls is not None and not cls.methods.get("__init__"):
                            fields = [
                                st.target.id for st in cls.node.body
                                if isinstance(st, ast.AnnAssign) and isinstance(st.target, ast.Name)
                            ]
                            if a.attr in fields:
                                val = next((k.value for k in call.keywords if k.arg == a.attr), None)
                                if val is None and fields.index(a.attr) < len(call.args):
                                    val = call.args[fields.index(a.attr)]
                                if val is not None:
                                    return norm.xexpr(fi, val, depth - 1, _seen | {a.value.id})
                self.generic_visit(a)
                return a

            def visit_Call(self, c: ast.Call):
                self.generic_visit(c)
                if depth <= 0:
                    return c
                try:
                    ts, _ = norm.ctx.res.callees(fi, c, fi.cls)
                except Exception:
                    return c
                if len(ts) == 1 and not isinstance(ts[0].node, ast.Lambda):
                    t = ts[0]
                    body = [s for s in body_of(t.node) if not isinstance(s, ast.Assert)]
                    if len(body) == 1 and isinstance(body[0], ast.Return) and body[0].value is not None and not t.decorators or (
                        len(body) == 1 and isinstance(body[0], ast.Return) and body[0].value is not None and (t.is_static or t.is_classmethod)
                    ):
                        b = norm._bind(t, c, "x", subst_all=True)
                        if b is not None and not b[0]:
                            e = copy.deepcopy(body[0].value)
                            e = _Rename(b[1]).visit(e)
                            # helpers used by the helper: expand again in the
                            # helper's own scope (no local aliases there)
                            return norm.xexpr(norm._tmp_fi(t, fi), e, depth - 1, _seen) if depth > 1 else e
                return c

        return X().visit(copy.deepcopy(node))

    def xtext(self, fi: FuncInfo, node: ast.AST) -> str:
        try:
            return ast.unparse(self.xexpr(fi, node))
        except Exception:
            return ast.unparse(node)
