"""AST normalisation used by the shape rules, so that ordinary refactorings
do not change what a rule sees:

* ``flat(fi)``  - a synthetic copy of a function in which calls to package
  helper functions/methods are inlined at statement level (extract-method /
  extract-function refactorings are undone), with the helper's locals renamed
  apart and ``return``s of guard-clause helpers turned into assignments;
* ``xexpr / xtext`` - an expression with single-definition local aliases
  substituted (``job = self.instance.jobs[job_id]`` ... ``len(job)`` reads as
  ``len(self.instance.jobs[job_id])``), and calls to one-expression helpers
  replaced by that expression.

Nothing is executed; the transformations are purely syntactic and are only
used to *recognise* constructs - findings are still reported on the original
source positions where available.
"""

from __future__ import annotations

import ast
import copy
from dataclasses import dataclass

from .repo import FuncInfo, ModuleInfo, body_of, own_nodes

_counter = [0]


class FlatFunc(FuncInfo):
    """FuncInfo over a synthetic AST; ``loc`` points into the file the node
    originally came from."""

    def loc(self, node=None):  # type: ignore[override]
        n = node if node is not None else self.node
        org = getattr(n, "_origin_path", None)
        if org and org != self.module.relpath:
            return f"{org}:{getattr(n, 'lineno', 0)}"
        return f"{self.module.relpath}:{self.module.line(n)}"

    def __hash__(self):
        return hash(self.qualname)


def _names_assigned(stmts) -> set[str]:
    out = set()
    for st in stmts:
        for n in ast.walk(st):
            if isinstance(n, ast.Name) and isinstance(n.ctx, (ast.Store, ast.Del)):
                out.add(n.id)
            elif isinstance(n, (ast.FunctionDef, ast.Lambda)):
                pass
    return out


class _Rename(ast.NodeTransformer):
    def __init__(self, mapping: dict[str, ast.AST | str]):
        self.mapping = mapping

    def visit_Name(self, node: ast.Name):
        m = self.mapping.get(node.id)
        if m is None:
            return node
        if isinstance(m, str):
            new = ast.Name(id=m, ctx=node.ctx)
            for a in ("_origin_mod", "_origin_path"):
                if hasattr(node, a):
                    setattr(new, a, getattr(node, a))
            return ast.copy_location(new, node)
        if isinstance(node.ctx, ast.Load):
            new = copy.deepcopy(m)
            return new
        return node

    def visit_Lambda(self, node: ast.Lambda):
        shadow = {a.arg for a in node.args.args}
        saved = self.mapping
        self.mapping = {k: v for k, v in saved.items() if k not in shadow}
        self.generic_visit(node)
        self.mapping = saved
        return node


def _is_function_value(v: ast.AST) -> bool:
    """A lambda, or ``attrgetter("a")`` / ``itemgetter(k)``."""
    if isinstance(v, ast.Lambda):
        a = v.args
        return not (a.vararg or a.kwarg or a.kwonlyargs or a.defaults)
    def const(a):
        return isinstance(a, ast.Constant) or (isinstance(a, ast.UnaryOp) and isinstance(a.op, ast.USub) and isinstance(a.operand, ast.Constant))

    if isinstance(v, ast.Call) and not v.keywords and v.args and all(const(a) for a in v.args):
        fn = ast.unparse(v.func).split(".")[-1]
        return (fn == "attrgetter" and all(isinstance(a, ast.Constant) and isinstance(a.value, str) for a in v.args)) or fn == "itemgetter"
    return False


def _only_called(fnode, name: str) -> bool:
    """Every use of ``name`` in the function is as the callee of a call."""
    called = {id(n.func) for n in ast.walk(fnode) if isinstance(n, ast.Call) and isinstance(n.func, ast.Name) and n.func.id == name}
    # ... or as the operand of an `is None` / `is not None` test (an optional
    # callable: `1 if weight is None else weight(op)`), decided once the
    # argument is known
    tested = {
        id(n.left) for n in ast.walk(fnode)
        if isinstance(n, ast.Compare) and len(n.ops) == 1 and isinstance(n.ops[0], (ast.Is, ast.IsNot)) and isinstance(n.left, ast.Name)
        and n.left.id == name and isinstance(n.comparators[0], ast.Constant) and n.comparators[0].value is None
    }
    uses = [n for n in ast.walk(fnode) if isinstance(n, ast.Name) and n.id == name]
    return bool(uses) and bool(called) and all(id(u) in called or id(u) in tested for u in uses)


class _BetaReduce(ast.NodeTransformer):
    """``(lambda x: E)(a)`` -> ``E[x := a]`` for pure-path arguments,
    ``attrgetter("f")(a)`` -> ``a.f``, ``itemgetter(k)(a)`` -> ``a[k]``."""

    def visit_Subscript(self, n: ast.Subscript):
        self.generic_visit(n)
        if isinstance(n.ctx, ast.Load):
            v = _fold_const_table(n)
            if v is not None:
                return v
        return n

    def visit_Call(self, n: ast.Call):
        self.generic_visit(n)
        f = n.func
        # g(**{"k": v})  ->  g(k=v)   (after a parameter holding the key name
        # was substituted by its constant)
        if any(k.arg is None and isinstance(k.value, ast.Dict) for k in n.keywords):
            new = []
            for k in n.keywords:
                d = k.value
                if k.arg is None and isinstance(d, ast.Dict) and d.keys and all(
                    isinstance(x, ast.Constant) and isinstance(x.value, str) and x.value.isidentifier() for x in d.keys
                ):
                    new += [ast.keyword(arg=x.value, value=v) for x, v in zip(d.keys, d.values)]
                else:
                    new.append(k)
            n.keywords = new
        # getattr(x, "name")  ->  x.name   (after a parameter holding the name was substituted by its constant)
        if (
            isinstance(f, ast.Name) and f.id == "getattr" and len(n.args) == 2 and not n.keywords
            and isinstance(n.args[1], ast.Constant) and isinstance(n.args[1].value, str) and n.args[1].value.isidentifier()
            and not any(isinstance(a, ast.Starred) for a in n.args)
        ):
            return ast.copy_location(ast.Attribute(value=n.args[0], attr=n.args[1].value, ctx=ast.Load()), n)
        if n.keywords or any(isinstance(a, ast.Starred) for a in n.args):
            return n
        if isinstance(f, ast.Lambda) and _is_function_value(f) and len(f.args.args) == len(n.args) and all(_is_path_expr(a) for a in n.args):
            m = {p.arg: a for p, a in zip(f.args.args, n.args)}
            return ast.copy_location(_Rename(m).visit(copy.deepcopy(f.body)), n)
        if isinstance(f, ast.Call) and _is_function_value(f) and len(n.args) == 1:
            fn = ast.unparse(f.func).split(".")[-1]
            if not _is_path_expr(n.args[0]) and len(f.args) > 1:
                return n  # the operand would be evaluated several times
            parts = []
            for key in f.args:
                if fn == "attrgetter":
                    e: ast.AST = copy.deepcopy(n.args[0])
                    for piece in key.value.split("."):
                        e = ast.Attribute(value=e, attr=piece, ctx=ast.Load())
                else:
                    e = ast.Subscript(value=copy.deepcopy(n.args[0]), slice=key, ctx=ast.Load())
                parts.append(ast.copy_location(e, n))
            if len(parts) == 1:
                return parts[0]
            return ast.copy_location(ast.Tuple(elts=parts, ctx=ast.Load()), n)
        return n


def _fold_const_table(n: ast.Subscript):
    """``{K1: V1, K2: V2}[K1]`` -> ``V1``: a dict display subscripted by one
    of its own keys.  Keys: constants or attribute paths that all differ in
    their last component (members of one enumeration / distinct literals);
    values: pure (paths, constants, tuples of those), so dropping the
    entries not selected drops no effect."""
    d, k = n.value, n.slice
    if not (isinstance(d, ast.Dict) and d.keys and all(x is not None for x in d.keys)):
        return None

    def key_text(x):
        if isinstance(x, ast.Constant) and isinstance(x.value, (str, int, bool)):
            return repr(x.value)
        if isinstance(x, ast.Attribute) and _is_path_expr(x) and x.attr.isupper():
            return ast.unparse(x)
        return None

    def pure(v, depth=0):
        if isinstance(v, ast.Tuple) and depth < 2:
            return all(pure(e, depth + 1) for e in v.elts)
        return _is_path_expr(v)

    keys = [key_text(x) for x in d.keys]
    kt = key_text(k)
    if kt is None or any(x is None for x in keys) or len(set(keys)) != len(keys) or keys.count(kt) != 1:
        return None
    # enumeration members: same owner, different member names (aliases aside, which the pinned enums do not have)
    owners = {ast.unparse(x.value) for x in list(d.keys) + [k] if isinstance(x, ast.Attribute)}
    if len(owners) > 1 or (owners and any(isinstance(x, ast.Constant) for x in list(d.keys) + [k])):
        return None
    if not all(pure(v) for v in d.values):
        return None
    return d.values[keys.index(kt)]


def _const_truth(t):
    """True/False when the test is decided by literals, else None."""
    if isinstance(t, ast.Constant):
        return bool(t.value)
    if isinstance(t, ast.UnaryOp) and isinstance(t.op, ast.Not):
        v = _const_truth(t.operand)
        return None if v is None else not v
    if isinstance(t, ast.BoolOp):
        vs = [_const_truth(v) for v in t.values]
        if isinstance(t.op, ast.And):
            if any(v is False for v in vs):
                return False
            return True if all(v is True for v in vs) else None
        if any(v is True for v in vs):
            return True
        return False if all(v is False for v in vs) else None
    # a lambda, a display, or an operator.attrgetter/itemgetter/partial call is never None
    if (
        isinstance(t, ast.Compare) and len(t.ops) == 1 and isinstance(t.ops[0], (ast.Is, ast.IsNot))
        and isinstance(t.comparators[0], ast.Constant) and t.comparators[0].value is None
    ):
        l = t.left
        notnone = isinstance(l, (ast.Lambda, ast.Tuple, ast.List, ast.Dict, ast.Set, ast.ListComp, ast.DictComp, ast.SetComp, ast.JoinedStr)) or (
            isinstance(l, ast.Call) and (ast.unparse(l.func).rsplit(".", 1)[-1] in ("attrgetter", "itemgetter", "partial", "methodcaller"))
        )
        if notnone:
            return isinstance(t.ops[0], ast.IsNot)
    if isinstance(t, ast.Compare) and len(t.ops) == 1 and isinstance(t.left, ast.Constant) and isinstance(t.comparators[0], ast.Constant):
        a, b, op = t.left.value, t.comparators[0].value, t.ops[0]
        if isinstance(op, (ast.Is, ast.Eq)) and (a is None or b is None or type(a) is type(b)):
            return a == b if isinstance(op, ast.Eq) else (a is b)
        if isinstance(op, (ast.IsNot, ast.NotEq)) and (a is None or b is None or type(a) is type(b)):
            return a != b if isinstance(op, ast.NotEq) else (a is not b)
    return None


class _FoldIfExp(ast.NodeTransformer):
    """`a if <decided test> else b` -> the branch taken."""

    def visit_IfExp(self, n):
        self.generic_visit(n)
        v = _const_truth(n.test)
        if v is True:
            return n.body
        if v is False:
            return n.orelse
        return n


class _FoldBool(ast.NodeTransformer):
    """`False and x` -> False, `a or False` -> a, `True and a` -> a, `True or x` -> True
    (constants left behind by flags bound to literals); operands are dropped only
    where Python would not have evaluated them or where they are the constants themselves."""

    def visit_BoolOp(self, n):
        self.generic_visit(n)
        is_and = isinstance(n.op, ast.And)
        absorbing, neutral = (False, True) if is_and else (True, False)
        vals = []
        for v in n.values:
            if isinstance(v, ast.Constant) and isinstance(v.value, bool):
                if v.value is absorbing:
                    vals.append(v)
                    break  # nothing after it is evaluated
                continue  # the neutral constant contributes nothing
            vals.append(v)
        if not vals:
            return ast.copy_location(ast.Constant(value=neutral), n)
        if len(vals) == 1:
            return vals[0]
        if isinstance(vals[-1], ast.Constant) and vals[-1].value is absorbing and len(vals) != len(n.values):
            pass
        n.values = vals
        return n


def _prune_constant_ifs(stmts):
    stmts = [_FoldBool().visit(_FoldIfExp().visit(x)) for x in stmts]
    out = []
    for x in stmts:
        if isinstance(x, ast.If):
            v = _const_truth(x.test)
            if v is True:
                out += _prune_constant_ifs(x.body)
                continue
            if v is False:
                out += _prune_constant_ifs(x.orelse)
                continue
        for fld in ("body", "orelse", "finalbody"):
            sub = getattr(x, fld, None)
            if isinstance(sub, list) and sub and isinstance(sub[0], ast.stmt) and not isinstance(x, (ast.FunctionDef, ast.ClassDef)):
                new = _prune_constant_ifs(sub)
                setattr(x, fld, new if (new or fld != "body") else [ast.copy_location(ast.Pass(), x)])
        for h in getattr(x, "handlers", []) or []:
            h.body = _prune_constant_ifs(h.body) or [ast.copy_location(ast.Pass(), h)]
        out.append(x)
    return out


def _stores(st) -> set[str]:
    return {x.id for x in ast.walk(st) if isinstance(x, ast.Name) and not isinstance(x.ctx, ast.Load)}


def _propagate_bound_literals(prefix, body):
    """A parameter bound to a literal at this call and re-assigned in the
    helper (`remove=None` ... `if remove is None: remove = <default>`) cannot
    be substituted; its binding stays a prefix assignment `p = None`.  Down
    the straight-line top level of the body, tests decided by that literal
    are decided - until the first statement that stores the name."""
    env = {}
    for pa in prefix:
        if isinstance(pa, ast.Assign) and len(pa.targets) == 1 and isinstance(pa.targets[0], ast.Name) and isinstance(pa.value, ast.Constant):
            env[pa.targets[0].id] = pa.value
    # bound to a freshly built container (`pool = list(range(n))`): not None, whatever it holds
    notnone = set()
    for pa in prefix:
        if isinstance(pa, ast.Assign) and len(pa.targets) == 1 and isinstance(pa.targets[0], ast.Name) and (
            isinstance(pa.value, (ast.List, ast.Tuple, ast.Dict, ast.Set, ast.ListComp, ast.DictComp, ast.SetComp))
            or (isinstance(pa.value, ast.Call) and isinstance(pa.value.func, ast.Name) and pa.value.func.id in ("list", "tuple", "dict", "set", "sorted"))
        ):
            notnone.add(pa.targets[0].id)
    if notnone:
        out, work = [], list(body)
        while work:
            st = work.pop(0)
            if isinstance(st, ast.If) and notnone and isinstance(st.test, ast.Compare) and len(st.test.ops) == 1 \
                    and isinstance(st.test.left, ast.Name) and st.test.left.id in notnone \
                    and isinstance(st.test.ops[0], (ast.Is, ast.IsNot)) \
                    and isinstance(st.test.comparators[0], ast.Constant) and st.test.comparators[0].value is None:
                work = list(st.orelse if isinstance(st.test.ops[0], ast.Is) else st.body) + work
                continue
            for nm in _stores(st):
                notnone.discard(nm)
            out.append(st)
        body = out
    if not env:
        return body

    class _Sub(ast.NodeTransformer):
        def visit_Name(self, n):
            if isinstance(n.ctx, ast.Load) and n.id in env:
                return ast.copy_location(copy.deepcopy(env[n.id]), n)
            return n

    out = []
    work = list(body)
    while work:
        st = work.pop(0)
        if not env:
            out.append(st)
            continue
        if isinstance(st, ast.If):
            v = _const_truth(_Sub().visit(copy.deepcopy(st.test)))
            if v is not None:
                work = list(st.body if v else st.orelse) + work
                continue
        for nm in _stores(st):
            env.pop(nm, None)
        if isinstance(st, (ast.For, ast.While, ast.Try, ast.With, ast.If)) and env:
            # names stored anywhere inside were dropped above; nothing else is known to change
            pass
        out.append(st)
    return out


class _SubstName(ast.NodeTransformer):
    def __init__(self, name, value):
        self.name, self.value = name, value

    def visit_Name(self, n):
        if n.id == self.name and isinstance(n.ctx, ast.Load):
            return ast.copy_location(copy.deepcopy(self.value), n)
        return n


def _simplify_bound_displays(prefix, body):
    """After a call such as ``f(op, machines=(machine_id,))`` has been written
    out: the parameter is bound to a tuple / list display, so

    * ``if machines is None: ...`` (the default handling) is decided, and
    * ``min(g(m) for m in machines)`` over a one-element display is ``g(x)``
      (likewise ``max`` and, for numbers, ``sum``).

    Only when the name is not stored again in the body."""
    for pa in prefix:
        if not (isinstance(pa, ast.Assign) and len(pa.targets) == 1 and isinstance(pa.targets[0], ast.Name) and isinstance(pa.value, (ast.Tuple, ast.List))):
            continue
        name = pa.targets[0].id
        # (1) default handling at the top of the body
        new = []
        for st in body:
            if (
                isinstance(st, ast.If) and isinstance(st.test, ast.Compare) and len(st.test.ops) == 1
                and isinstance(st.test.left, ast.Name) and st.test.left.id == name
                and isinstance(st.test.comparators[0], ast.Constant) and st.test.comparators[0].value is None
                and isinstance(st.test.ops[0], (ast.Is, ast.IsNot))
                and not any(isinstance(x, ast.Name) and x.id == name and isinstance(x.ctx, ast.Store) for y in new for x in ast.walk(y))
            ):
                new += st.orelse if isinstance(st.test.ops[0], ast.Is) else st.body
                continue
            new.append(st)
        body[:] = new
        if any(isinstance(x, ast.Name) and x.id == name and isinstance(x.ctx, (ast.Store, ast.Del)) for y in body for x in ast.walk(y)):
            continue
        if len(pa.value.elts) != 1 or isinstance(pa.value.elts[0], ast.Starred):
            continue
        elem = pa.value.elts[0]
        for y in body:
            for par in ast.walk(y):
                for fld, val in ast.iter_fields(par):
                    vals = val if isinstance(val, list) else [val]
                    for i, c in enumerate(vals):
                        if not (
                            isinstance(c, ast.Call) and isinstance(c.func, ast.Name) and c.func.id in ("min", "max", "sum")
                            and len(c.args) == 1 and not c.keywords and isinstance(c.args[0], (ast.GeneratorExp, ast.ListComp))
                        ):
                            continue
                        g = c.args[0]
                        if len(g.generators) != 1 or g.generators[0].ifs or not isinstance(g.generators[0].target, ast.Name):
                            continue
                        it = g.generators[0].iter
                        if not (isinstance(it, ast.Name) and it.id == name):
                            continue
                        rep = _SubstName(g.generators[0].target.id, elem).visit(copy.deepcopy(g.elt))
                        rep = ast.copy_location(rep, c)
                        if isinstance(val, list):
                            val[i] = rep
                        else:
                            setattr(par, fld, rep)


def _kwarg_only_forwarded(fnode, name: str) -> bool:
    """The ``**name`` parameter is used only as ``g(..., **name)``."""
    fwd = set()
    for n in ast.walk(fnode):
        if isinstance(n, ast.Call):
            for k in n.keywords:
                if k.arg is None and isinstance(k.value, ast.Name) and k.value.id == name:
                    fwd.add(id(k.value))
    for n in ast.walk(fnode):
        if isinstance(n, ast.Name) and n.id == name and id(n) not in fwd:
            return False
    return True


def _unrollable_for(n, name: str) -> bool:
    """``for x in <name>: body`` with a plain target that the body never
    rebinds and no break/continue/else: one copy of the body per element."""
    if not (isinstance(n, ast.For) and isinstance(n.iter, ast.Name) and n.iter.id == name and isinstance(n.target, ast.Name) and not n.orelse):
        return False
    for st in n.body:
        for x in ast.walk(st):
            if isinstance(x, (ast.Break, ast.Continue, ast.FunctionDef, ast.Lambda, ast.AsyncFunctionDef)):
                return False
            if isinstance(x, ast.Name) and x.id == n.target.id and not isinstance(x.ctx, ast.Load):
                return False
    return True


def _first_iter_root(ge: ast.GeneratorExp):
    """The expression a generator expression evaluates at creation: its
    first iterable; ``range(<path>)`` counts as a path."""
    it = ge.generators[0].iter
    if isinstance(it, ast.Call) and isinstance(it.func, ast.Name) and it.func.id in ("range", "enumerate", "reversed") and len(it.args) == 1 and not it.keywords:
        return it.args[0]
    return it


def _vararg_only_forwarded(fnode, name: str) -> bool:
    """The ``*name`` parameter is used only as ``g(..., *name)`` or as the
    iterable of an unrollable ``for`` statement."""
    fwd = set()
    for n in ast.walk(fnode):
        if isinstance(n, ast.Call):
            for x in n.args:
                if isinstance(x, ast.Starred) and isinstance(x.value, ast.Name) and x.value.id == name:
                    fwd.add(id(x.value))
        elif _unrollable_for(n, name):
            fwd.add(id(n.iter))
    uses = [n for n in ast.walk(fnode) if isinstance(n, ast.Name) and n.id == name]
    return bool(uses) and all(id(n) in fwd for n in uses)


def _expand_vararg(body, name: str, extra: list[ast.expr]):
    """Replaces ``*name`` in the calls of ``body`` by the positional arguments
    the caller passed beyond the named parameters; ``for x in name`` loops
    are unrolled over them."""

    class _Sub(ast.NodeTransformer):
        def __init__(self, var, e):
            self.var, self.e = var, e

        def visit_Name(self, n):
            if n.id == self.var and isinstance(n.ctx, ast.Load):
                return copy.deepcopy(self.e)
            return n

    class _Unroll(ast.NodeTransformer):
        def visit_For(self, n):
            self.generic_visit(n)
            if not _unrollable_for(n, name):
                return n
            out = []
            for e in extra:
                if not _is_pure_path(e):
                    out.append(ast.copy_location(ast.Assign(targets=[ast.Name(n.target.id, ast.Store())], value=copy.deepcopy(e)), n))
                    out += [copy.deepcopy(b) for b in n.body]
                else:
                    out += [_Sub(n.target.id, e).visit(copy.deepcopy(b)) for b in n.body]
            return out or [ast.copy_location(ast.Pass(), n)]

    body[:] = [y for st in body for y in (lambda r: r if isinstance(r, list) else [r])(_Unroll().visit(st))]
    for st in body:
        for n in ast.walk(st):
            if isinstance(n, ast.Call):
                new = []
                for x in n.args:
                    if isinstance(x, ast.Starred) and isinstance(x.value, ast.Name) and x.value.id == name:
                        new += [copy.deepcopy(e) for e in extra]
                    else:
                        new.append(x)
                n.args = new


def _is_pure_path(e) -> bool:
    while isinstance(e, ast.Attribute):
        e = e.value
    return isinstance(e, (ast.Name, ast.Constant))


def _expand_kwarg(body, name: str, extra: list[ast.keyword]):
    """Replaces ``**name`` in the calls of ``body`` by the keywords the caller
    passed (``extra``)."""
    for st in body:
        for n in ast.walk(st):
            if isinstance(n, ast.Call):
                new = []
                for k in n.keywords:
                    if k.arg is None and isinstance(k.value, ast.Name) and k.value.id == name:
                        new += [copy.deepcopy(e) for e in extra]
                    else:
                        new.append(k)
                n.keywords = new


def _all_paths_return(stmts) -> bool:
    if not stmts:
        return False
    last = stmts[-1]
    if isinstance(last, (ast.Return, ast.Raise)):
        return True
    if isinstance(last, ast.If):
        return _all_paths_return(last.body) and bool(last.orelse) and _all_paths_return(last.orelse)
    return False


def _has_return(stmts) -> bool:
    for st in stmts:
        for n in ast.walk(st):
            if isinstance(n, ast.Return):
                return True
    return False


def _tailify(stmts, make_result):
    """Rewrites a guard-clause body so that every ``return v`` becomes
    ``make_result(v)`` and the statements after a returning ``if`` move into
    its else branch.  Returns None when a return sits where this is not
    possible (inside a loop / try / with)."""
    out = []
    for i, st in enumerate(stmts):
        if isinstance(st, ast.Return):
            out += make_result(st.value, st)
            return out
        if isinstance(st, ast.If):
            body_ret = _has_return(st.body)
            else_ret = _has_return(st.orelse)
            if not body_ret and not else_ret:
                out.append(st)
                continue
            rest = stmts[i + 1:]
            new = copy.copy(st)
            if _all_paths_return(st.body) or (st.body and isinstance(st.body[-1], ast.Raise)):
                b = _tailify(st.body, make_result)
                if b is None:
                    return None
                new.body = b or [ast.Pass()]
                tail = list(st.orelse) + list(rest)
                o = _tailify(tail, make_result)
                if o is None:
                    return None
                new.orelse = o
                out.append(new)
                return out
            if st.orelse and _all_paths_return(st.orelse):
                o = _tailify(st.orelse, make_result)
                b = _tailify(list(st.body) + list(rest), make_result)
                if o is None or b is None:
                    return None
                new.orelse = o
                new.body = b or [ast.Pass()]
                out.append(new)
                return out
            return None
        if (
            isinstance(st, (ast.For, ast.While)) and not st.orelse and i == len(stmts) - 1 and _has_return([st])
            and not make_result(None, st)
        ):
            # the loop is the last thing the (result-less) helper does: leaving
            # the helper from inside it is leaving the loop
            new = copy.deepcopy(st)
            ok = [True]

            def to_break(block, depth):
                out_b = []
                for x in block:
                    if isinstance(x, ast.Return):
                        if x.value is not None and not (isinstance(x.value, ast.Constant) and x.value.value is None):
                            ok[0] = False
                        if depth > 0:
                            ok[0] = False  # would have to leave several loops
                        out_b.append(ast.copy_location(ast.Break(), x))
                        continue
                    if isinstance(x, (ast.FunctionDef, ast.AsyncFunctionDef, ast.ClassDef)):
                        out_b.append(x)
                        continue
                    inner = depth + (1 if isinstance(x, (ast.For, ast.While)) else 0)
                    for fld in ("body", "orelse", "finalbody"):
                        sub = getattr(x, fld, None)
                        if isinstance(sub, list) and sub and isinstance(sub[0], ast.stmt):
                            setattr(x, fld, to_break(sub, inner))
                    for h in getattr(x, "handlers", []) or []:
                        h.body = to_break(h.body, inner)
                    out_b.append(x)
                return out_b

            new.body = to_break(new.body, 0)
            if not ok[0]:
                return None
            out.append(new)
            return out
        if isinstance(st, (ast.For, ast.While)) and not st.orelse and i < len(stmts) - 1 and _has_return([st]):
            # a search loop:  for x in xs: (if c: return v) ; REST
            # is  for x in xs: (if c: RESULT(v); break)  else: REST   - provided
            # the loop has no break of its own (REST must also run after one)
            new = copy.deepcopy(st)
            ok = [True]

            def conv(block, depth):
                out_b = []
                for x in block:
                    if isinstance(x, ast.Return):
                        if depth > 0:
                            ok[0] = False
                        out_b += make_result(x.value, x) + [ast.copy_location(ast.Break(), x)]
                        continue
                    if isinstance(x, ast.Break) and depth == 0:
                        ok[0] = False
                    if isinstance(x, (ast.FunctionDef, ast.AsyncFunctionDef, ast.ClassDef)):
                        out_b.append(x)
                        continue
                    inner = depth + (1 if isinstance(x, (ast.For, ast.While)) else 0)
                    for fld in ("body", "orelse", "finalbody"):
                        sub = getattr(x, fld, None)
                        if isinstance(sub, list) and sub and isinstance(sub[0], ast.stmt):
                            setattr(x, fld, conv(sub, inner))
                    for h in getattr(x, "handlers", []) or []:
                        h.body = conv(h.body, inner)
                    out_b.append(x)
                return out_b

            new.body = conv(new.body, 0)
            rest = _tailify(list(stmts[i + 1:]), make_result)
            if not ok[0] or rest is None:
                return None
            new.orelse = rest
            out.append(new)
            return out
        if isinstance(st, ast.Try) and not st.finalbody and not _has_return(st.body) and st.handlers:
            # try: A / except E: ...; return   followed by REST   is the same as
            # try: A / except E: ... / else: REST   (the else clause, like REST,
            # is not covered by the handlers) - provided every handler leaves
            hs = []
            for h in st.handlers:
                if not (_all_paths_return(h.body) or (h.body and isinstance(h.body[-1], ast.Raise))):
                    hs = None
                    break
                hb = _tailify(h.body, make_result)
                if hb is None:
                    hs = None
                    break
                nh = copy.copy(h)
                nh.body = hb or [ast.Pass()]
                hs.append(nh)
            if hs is None:
                return None
            tail = list(st.orelse) + list(stmts[i + 1:])
            o = _tailify(tail, make_result)
            if o is None:
                return None
            new = copy.copy(st)
            new.handlers = hs
            new.orelse = o
            out.append(new)
            return out
        if _has_return([st]):
            return None
        out.append(st)
    return out


def _is_path_expr(v: ast.AST, _depth: int = 0) -> bool:
    """A pure access path: name, constant, attribute chain, subscript by a
    constant / name / path (``job_nodes[-1]``, ``self.graph.nodes[i]``,
    ``EdgeType.CONJUNCTIVE``).  Substituting such an argument for the parameter
    of an inlined helper reads the same objects the call would have passed."""
    if _depth > 4:
        return False
    if isinstance(v, (ast.Name, ast.Constant)):
        return True
    if isinstance(v, ast.Attribute):
        return _is_path_expr(v.value, _depth + 1)
    if isinstance(v, ast.Subscript):
        i = v.slice
        idx_ok = isinstance(i, (ast.Constant, ast.Name)) or (
            isinstance(i, ast.UnaryOp) and isinstance(i.operand, ast.Constant)) or (isinstance(i, ast.Attribute) and _is_path_expr(i, _depth + 1))
        return idx_ok and _is_path_expr(v.value, _depth + 1)
    return False


class Normalizer:
    def __init__(self, ctx):
        self.ctx = ctx
        self._flat: dict[tuple, FlatFunc] = {}

    # ------------------------------------------------------------ inlining
    def _inline_target(self, fi: FuncInfo, call: ast.Call, banned: set[str], gen: bool = False):
        """``gen``: look for a *generator* helper instead (inlined into the
        for-loop that consumes it, see _inline_for_gen)."""
        ts, _ = self.ctx.res.callees(fi, call, fi.cls)
        if len(ts) != 1:
            return None
        t = ts[0]
        if isinstance(t.node, ast.Lambda) or t.qualname in banned or t.name == "__init__":
            return None
        if t.decorators and not (t.is_static or t.is_classmethod):
            return None
        is_gen = any(isinstance(n, (ast.Yield, ast.YieldFrom)) for n in own_nodes(t.node))
        if any(isinstance(n, ast.Await) for n in ast.walk(t.node)) or is_gen != gen:
            return None
        if len(list(ast.walk(t.node))) > 600:
            return None
        # public API functions of other modules are not "helpers": only
        # private names or methods of the same class are undone
        same_cls = t.cls is not None and fi.cls is not None and (t.cls.qualname in fi.cls.mro or fi.cls.qualname in t.cls.mro)
        same_mod = t.module is fi.module
        private = t.name.startswith("_") and not t.name.startswith("__")
        if private and (same_cls or same_mod):
            return t
        # methods of a private class of the package are internal whatever
        # they are called (a private collaborator / local helper object)
        if (
            t.cls is not None and t.cls.name.startswith("_") and not t.cls.name.startswith("__")
            and not t.name.startswith("__") and not t.cls.bases
        ):
            return t
        # public API that the pinned tree does not have (a later change added
        # it): no rule knows the name, so it is as transparent as a private
        # helper - existing code is often re-expressed through such additions
        from .baseline_api import BASELINE_PARAMS, PUBLIC_CALLABLES

        key = (t.cls.name + "." if t.cls is not None else "") + t.name
        # a call that uses a parameter the pinned signature does not have
        # (a sibling re-expressed through a generalised function): the call
        # means something no rule knows by name, so the callee is written out
        bp = BASELINE_PARAMS.get(key)
        if bp is not None and not private and "**" not in bp:
            extra_kw = [k.arg for k in call.keywords if k.arg and k.arg not in bp]
            n_pos = len([p_ for p_ in bp if p_ not in ("*", "**")]) - (1 if t.cls is not None and not t.is_static else 0)
            extra_pos = "*" not in bp and len(call.args) > n_pos
            if (extra_kw or extra_pos) and (same_cls or same_mod or True):
                return t
        if (
            not private and not t.name.startswith("__") and t.parent is None and key not in PUBLIC_CALLABLES
            and not (t.decorators and not (t.is_static or t.is_classmethod))
        ):
            # a new method of a baseline class must not shadow an inherited baseline name
            inherited = t.cls is not None and any(
                (b.rsplit(".", 1)[-1] + "." + t.name) in PUBLIC_CALLABLES for b in t.cls.mro[1:]
            )
            if not inherited:
                return t
        # a module-level function of the package that no __init__ re-exports
        # is an internal helper wherever it lives (helpers moved to a new
        # private module)
        if (
            t.cls is None and t.parent is None and not t.decorators
            and t.name not in self.ctx.repo.exported_names()
            and (private or (
                key not in PUBLIC_CALLABLES  # a name of the pinned public surface stays a rule-visible call
                and t.module.name != (getattr(self, "_root_module", None) or fi.module.name)
                and t.module.name.rsplit(".", 1)[-1].startswith("_")))
        ):
            return t
        return None

    def _bind(self, t: FuncInfo, call: ast.Call, suffix: str, subst_all: bool = False):
        """(prefix assignments, rename mapping) for inlining ``t`` at ``call``."""
        a = t.node.args
        params = [p.arg for p in a.posonlyargs + a.args]
        kwonly = [p.arg for p in a.kwonlyargs]
        defaults = dict(zip(params[len(params) - len(a.defaults):], a.defaults))
        for p, d in zip(kwonly, a.kw_defaults):
            if d is not None:
                defaults[p] = d
        if a.vararg and not _vararg_only_forwarded(t.node, a.vararg.arg):
            return None
        if a.kwarg and not _kwarg_only_forwarded(t.node, a.kwarg.arg):
            return None
        args: dict[str, ast.AST] = {}
        is_method = t.cls is not None and not t.is_static
        pos = list(params)
        if is_method and pos:
            recv = call.func.value if isinstance(call.func, ast.Attribute) else None
            if t.is_classmethod:
                recv = recv if recv is not None else ast.Name(id=t.cls.name, ctx=ast.Load())
            if recv is None:
                return None
            args[pos[0]] = recv
            pos = pos[1:]
        if any(isinstance(x, ast.Starred) for x in call.args):
            return None
        # `**name` at the call is handed on to the helper's own `**kwargs` (which it only forwards)
        if any(k.arg is None and not (a.kwarg and isinstance(k.value, ast.Name)) for k in call.keywords):
            return None
        for p, v in zip(pos, call.args):
            args[p] = v
        for k in call.keywords:
            if k.arg is None:
                continue
            if a.kwarg and k.arg not in params and k.arg not in kwonly:
                continue  # collected by **kwargs, forwarded verbatim (see _expand_kwarg)
            args[k.arg] = k.value
        for p in params + kwonly:
            if p not in args:
                if p in defaults:
                    args[p] = defaults[p]
                else:
                    return None
        body = body_of(t.node)
        assigned = _names_assigned(body)
        mapping: dict[str, ast.AST | str] = {}
        prefix = []
        for p, v in args.items():
            simple = _is_path_expr(v)
            if not simple and p not in assigned and _is_function_value(v) and _only_called(t.node, p):
                # a callable handed to a higher-order helper that only calls
                # it: substitute, the calls are beta-reduced afterwards
                mapping[p] = v
                continue
            if not simple and p not in assigned and self._lazy_gen_arg(t, p, v):
                # gen(args) handed to a helper whose first action is to loop
                # over it: creating the generator at the loop is the same
                mapping[p] = v
                continue
            if p not in assigned and (simple or subst_all):
                mapping[p] = v
            else:
                new = f"{p}__{suffix}" if p in getattr(self, "_caller_names", ()) else p
                mapping[p] = new
                asg = ast.Assign(targets=[ast.Name(id=new, ctx=ast.Store())], value=copy.deepcopy(v))
                ast.copy_location(asg, call)
                ast.fix_missing_locations(asg)
                prefix.append(asg)
        for n in assigned:
            if n not in mapping and n in getattr(self, "_caller_names", ()):
                # only names that would capture a variable of the function
                # being flattened are renamed apart
                mapping[n] = f"{n}__{suffix}"
        return prefix, mapping

    def _lazy_gen_arg(self, t: FuncInfo, p: str, v: ast.AST) -> bool:
        """``v`` is a call with pure-path arguments, and parameter ``p`` is
        used exactly once in ``t``: as the iterable of the for-loop that is the
        first statement of ``t`` (nothing runs between the call and the loop)."""
        if not (isinstance(v, ast.Call) and _is_path_expr(v.func) and all(_is_path_expr(a) for a in v.args)
                and all(k.arg is not None and _is_path_expr(k.value) for k in v.keywords)):
            return False
        body = [x for x in body_of(t.node) if not (isinstance(x, ast.Expr) and isinstance(x.value, ast.Constant))]
        if not body or not isinstance(body[0], ast.For):
            return False
        uses = [n for n in ast.walk(t.node) if isinstance(n, ast.Name) and n.id == p]
        return len(uses) == 1 and uses[0] is body[0].iter

    def _inline_stmt(self, fi, st, depth, banned, is_tail):
        """Returns a list of statements replacing ``st`` or None."""
        call = None
        kind = None
        if isinstance(st, ast.Expr) and isinstance(st.value, ast.Call):
            call, kind = st.value, "expr"
        elif isinstance(st, ast.Assign) and isinstance(st.value, ast.Call) and len(st.targets) == 1:
            call, kind = st.value, "assign"
        elif isinstance(st, ast.AnnAssign) and isinstance(st.value, ast.Call):
            call, kind = st.value, "annassign"
        elif isinstance(st, ast.Return) and isinstance(st.value, ast.Call):
            call, kind = st.value, "return"
        if call is None:
            return None
        t = self._inline_target(fi, call, banned)
        if t is None:
            return None
        _counter[0] += 1
        suffix = f"i{_counter[0]}"
        b = self._bind(t, call, suffix)
        if b is None:
            return None
        prefix, mapping = b
        # names the inlined body introduces into the flattened function: a helper
        # inlined later must not capture them either
        if isinstance(getattr(self, "_caller_names", None), set):
            introduced = set()
            for nm in _names_assigned(body_of(t.node)):
                m_ = mapping.get(nm, nm)
                introduced.add(m_ if isinstance(m_, str) else nm)
            for st_ in prefix:
                introduced |= {x.id for tg in st_.targets for x in ast.walk(tg) if isinstance(x, ast.Name)}
            self._caller_names |= introduced
        body = [copy.deepcopy(x) for x in body_of(t.node)]
        # origin marks go on the helper's own nodes (before arguments of the
        # caller are substituted into them): report positions and type-table
        # look-ups of inlined code refer to the helper's module
        for x in body:
            for n in ast.walk(x):
                if not hasattr(n, "_origin_mod"):
                    n._origin_path = t.module.relpath  # type: ignore[attr-defined]
                    n._origin_mod = t.module.name  # type: ignore[attr-defined]
        if t.node.args.kwarg is not None:
            known = {p.arg for p in t.node.args.posonlyargs + t.node.args.args + t.node.args.kwonlyargs}
            extra = [k for k in call.keywords if k.arg not in known]
            _expand_kwarg(body, t.node.args.kwarg.arg, extra)
        # argument expressions keep the module they were written in (their
        # types and global names are looked up there, not in the helper's module)
        site_mod = getattr(call, "_origin_mod", None) or fi.module.name
        for v_ in mapping.values():
            if isinstance(v_, ast.AST):
                for n_ in ast.walk(v_):
                    if not hasattr(n_, "_origin_mod"):
                        n_._origin_mod = site_mod  # type: ignore[attr-defined]
                        n_._origin_path = getattr(call, "_origin_path", None) or fi.module.relpath  # type: ignore[attr-defined]
        if t.node.args.vararg is not None:
            n_named = len(t.node.args.posonlyargs + t.node.args.args) - (1 if t.cls is not None and not t.is_static else 0)
            extra_pos = list(call.args[n_named:])
            for v_ in extra_pos:
                for n_ in ast.walk(v_):
                    if not hasattr(n_, "_origin_mod"):
                        n_._origin_mod = site_mod  # type: ignore[attr-defined]
                        n_._origin_path = getattr(call, "_origin_path", None) or fi.module.relpath  # type: ignore[attr-defined]
        ren = _Rename(mapping)
        body = [_BetaReduce().visit(ren.visit(x)) for x in body]
        if t.node.args.vararg is not None:
            # after the renaming: the caller's expressions must not be captured by the helper's locals
            va = mapping.get(t.node.args.vararg.arg, t.node.args.vararg.arg)
            _expand_vararg(body, va if isinstance(va, str) else t.node.args.vararg.arg, extra_pos)
        # an argument whose static type is not Optional decides `x is None`
        # tests on the parameter it is substituted for (default handling of an
        # optional parameter that this call does pass)
        nonnull = set()
        for p_, v_ in mapping.items():
            if isinstance(v_, (ast.Name, ast.Attribute)) and p_ in t.params:
                try:
                    ty = self.ctx.types.type_of(fi.module, v_)
                except Exception:  # pragma: no cover
                    ty = None
                if ty and "None" not in ty and "Any" not in ty and "Optional" not in ty and ty.startswith(("job_shop_lib.", "builtins.")):
                    nonnull.add(ast.unparse(v_))
                # a module-level name bound to a function value / a def / a class is never None
                local_ = True
                if isinstance(v_, ast.Name) and v_.id not in fi.params:
                    try:
                        local_ = bool(self.ctx.flow.defs(fi).of(v_.id))
                    except Exception:  # pragma: no cover
                        local_ = True
                if isinstance(v_, ast.Name) and not local_:
                    site_mi = self.ctx.repo.modules.get(getattr(v_, "_origin_mod", None) or fi.module.name)
                    if site_mi is not None:
                        mv = site_mi.assigns.get(v_.id)
                        if (mv is not None and _is_function_value(mv)) or v_.id in site_mi.functions or v_.id in site_mi.classes:
                            nonnull.add(v_.id)
        if nonnull:
            class _Decide(ast.NodeTransformer):
                def visit_Compare(self, c_):
                    self.generic_visit(c_)
                    if len(c_.ops) == 1 and isinstance(c_.ops[0], (ast.Is, ast.IsNot)) and isinstance(c_.comparators[0], ast.Constant) \
                            and c_.comparators[0].value is None and ast.unparse(c_.left) in nonnull:
                        return ast.copy_location(ast.Constant(value=isinstance(c_.ops[0], ast.IsNot)), c_)
                    return c_

            body = [_Decide().visit(x) for x in body]
        # flags passed as literals decide their branches (`if with_job_nodes:`
        # with with_job_nodes=False at this call)
        body = _prune_constant_ifs(body)
        body = _propagate_bound_literals(prefix, body)
        body = [_BetaReduce().visit(x) for x in body]  # attrgetter("a")(x) left behind by a folded conditional
        _simplify_bound_displays(prefix, body)
        self._unroll_reflection(fi, prefix, body)

        def result_stmts(value, ret):
            if kind == "expr":
                if value is None or isinstance(value, ast.Constant):
                    return []
                e = ast.Expr(value=value)
                return [ast.copy_location(e, ret)]
            if kind == "return":
                r = ast.Return(value=value)
                return [ast.copy_location(r, ret)]
            if kind == "assign":
                a = ast.Assign(targets=copy.deepcopy(st.targets), value=value if value is not None else ast.Constant(None))
                return [ast.copy_location(a, ret)]
            a = ast.AnnAssign(target=copy.deepcopy(st.target), annotation=st.annotation, value=value if value is not None else ast.Constant(None), simple=st.simple)
            return [ast.copy_location(a, ret)]

        if not _has_return(body):
            new_body = body
            if kind in ("assign", "annassign", "return"):
                new_body = body + result_stmts(ast.Constant(None), st)
        else:
            new_body = _tailify(body, result_stmts)
            if new_body is None:
                return None
        out = prefix + new_body
        for x in out:
            ast.fix_missing_locations(x)
        # recurse into the inlined statements
        if depth > 1:
            out = self._inline_block(self._tmp_fi(t, fi), out, depth - 1, banned | {t.qualname}, is_tail)
        return out

    def _inline_for_gen(self, fi, st, depth, banned):
        """``for T in gen(args): BODY`` with an inlinable generator helper
        becomes the generator's body with every ``yield e`` replaced by
        ``T = e; BODY`` - exactly the interleaving the generator protocol
        performs.  Refused when the loop can leave early (break / return /
        else clause) or the generator returns / uses yield as an expression."""
        if not isinstance(st, ast.For) or st.orelse or not isinstance(st.iter, ast.Call):
            return None
        pre: list[ast.stmt] = []
        it0 = st.iter
        if (
            isinstance(it0.func, ast.Name) and it0.func.id == "enumerate" and it0.args and isinstance(it0.args[0], ast.Call)
            and isinstance(st.target, ast.Tuple) and len(st.target.elts) == 2 and isinstance(st.target.elts[0], ast.Name)
            and self._inline_target(fi, it0.args[0], banned, gen=True) is not None
        ):
            # for i, x in enumerate(gen(..), start=s): BODY   ->   _n = s; for x in gen(..): i = _n; BODY; _n += 1
            start = next((k.value for k in it0.keywords if k.arg == "start"), it0.args[1] if len(it0.args) > 1 else ast.Constant(0))
            _counter[0] += 1
            cnt = f"_n__e{_counter[0]}"
            pre = [ast.Assign(targets=[ast.Name(id=cnt, ctx=ast.Store())], value=start)]
            new_st = ast.For(
                target=st.target.elts[1], iter=it0.args[0], orelse=[],
                body=[ast.Assign(targets=[ast.Name(id=st.target.elts[0].id, ctx=ast.Store())], value=ast.Name(id=cnt, ctx=ast.Load()))]
                + list(st.body)
                + [ast.AugAssign(target=ast.Name(id=cnt, ctx=ast.Store()), op=ast.Add(), value=ast.Constant(1))],
            )
            for x in pre + [new_st]:
                ast.copy_location(x, st)
                ast.fix_missing_locations(x)
            st = new_st
            if isinstance(getattr(self, "_caller_names", None), set):
                self._caller_names.add(cnt)
        t = self._inline_target(fi, st.iter, banned, gen=True)
        if t is None:
            return None

        def own(stmts):
            for x in stmts:
                yield x
                for fld in ("body", "orelse", "finalbody", "handlers"):
                    sub = getattr(x, fld, None)
                    if isinstance(sub, list) and not isinstance(x, (ast.FunctionDef, ast.ClassDef, ast.AsyncFunctionDef)):
                        yield from own([y for y in sub if isinstance(y, (ast.stmt, ast.excepthandler))])

        def loop_exits(stmts, in_inner_loop=False):
            for x in stmts:
                if isinstance(x, ast.Return):
                    return True
                if isinstance(x, (ast.Break, ast.Continue)) and not in_inner_loop:
                    return True
                if isinstance(x, (ast.FunctionDef, ast.ClassDef, ast.AsyncFunctionDef)):
                    continue
                inner = in_inner_loop or isinstance(x, (ast.For, ast.While))
                for fld in ("body", "orelse", "finalbody"):
                    sub = getattr(x, fld, None)
                    if isinstance(sub, list) and sub and isinstance(sub[0], ast.stmt) and loop_exits(sub, inner):
                        return True
                for h in getattr(x, "handlers", []) or []:
                    if loop_exits(h.body, inner):
                        return True
            return False

        if loop_exits(st.body):
            return None
        gbody = [copy.deepcopy(x) for x in body_of(t.node)]

        def no_yield_from(stmts):
            # `yield from X` as a statement  ->  `for _y in X: yield _y`
            out = []
            for x in stmts:
                if isinstance(x, ast.Expr) and isinstance(x.value, ast.YieldFrom):
                    _counter[0] += 1
                    y = f"_y__f{_counter[0]}"
                    tgt: ast.expr = ast.Name(id=y, ctx=ast.Store())
                    val: ast.expr = ast.Name(id=y, ctx=ast.Load())
                    ct = st.target
                    if isinstance(ct, ast.Tuple) and ct.elts and all(isinstance(e, ast.Name) for e in ct.elts):
                        # the consumer unpacks every element into k names: do
                        # the unpacking in the loop header (same ValueError
                        # otherwise), so each name keeps a visible origin
                        names = [f"{y}_{i}" for i in range(len(ct.elts))]
                        tgt = ast.Tuple(elts=[ast.Name(id=nm, ctx=ast.Store()) for nm in names], ctx=ast.Store())
                        val = ast.Tuple(elts=[ast.Name(id=nm, ctx=ast.Load()) for nm in names], ctx=ast.Load())
                    lp = ast.For(target=tgt, iter=x.value.value,
                                 body=[ast.Expr(value=ast.Yield(value=val))], orelse=[])
                    ast.copy_location(lp, x)
                    ast.fix_missing_locations(lp)
                    out.append(lp)
                    continue
                for fld in ("body", "orelse", "finalbody"):
                    sub = getattr(x, fld, None)
                    if isinstance(sub, list) and sub and isinstance(sub[0], ast.stmt) and not isinstance(x, (ast.FunctionDef, ast.ClassDef)):
                        setattr(x, fld, no_yield_from(sub))
                out.append(x)
            return out

        gbody = no_yield_from(gbody)
        yields = [n for x in gbody for n in ast.walk(x) if isinstance(n, (ast.Yield, ast.YieldFrom))]
        stmt_yields = [x for x in own(gbody) if isinstance(x, ast.Expr) and isinstance(x.value, ast.Yield)]
        if any(isinstance(y, ast.YieldFrom) for y in yields) or len(stmt_yields) != len(yields) or not 1 <= len(yields) <= 3:
            return None
        if any(isinstance(x, (ast.FunctionDef, ast.Lambda, ast.ClassDef)) for y in gbody for x in ast.walk(y)):
            return None
        if any(isinstance(x, ast.Return) for x in own(gbody)):
            return None
        if any(y.value is None for y in yields):
            return None
        _counter[0] += 1
        suffix = f"g{_counter[0]}"
        b = self._bind(t, st.iter, suffix)
        if b is None:
            return None
        prefix, mapping = b
        if isinstance(getattr(self, "_caller_names", None), set):
            introduced = set()
            for nm in _names_assigned(gbody):
                m_ = mapping.get(nm, nm)
                introduced.add(m_ if isinstance(m_, str) else nm)
            for st_ in prefix:
                introduced |= {x.id for tg in st_.targets for x in ast.walk(tg) if isinstance(x, ast.Name)}
            self._caller_names |= introduced
        body = gbody
        for x in body:
            for n in ast.walk(x):
                if not hasattr(n, "_origin_mod"):
                    n._origin_path = t.module.relpath  # type: ignore[attr-defined]
                    n._origin_mod = t.module.name  # type: ignore[attr-defined]
        ren = _Rename(mapping)
        body = [ren.visit(x) for x in body]

        # with several yields the loop body is copied once per yield: give the
        # loop variables of each copy their own names (single definitions),
        # unless the function also uses them outside its loops
        tnames = {x.id for x in ast.walk(st.target) if isinstance(x, ast.Name)}
        per_yield = len(yields) > 1 and bool(tnames)
        if per_yield:
            in_loops = set()
            for lp in ast.walk(fi.node):
                if isinstance(lp, (ast.For, ast.comprehension)):
                    if tnames & {x.id for x in ast.walk(lp.target) if isinstance(x, ast.Name)}:
                        in_loops |= {id(x) for x in ast.walk(lp)}
            for x in ast.walk(fi.node):
                if isinstance(x, ast.Name) and x.id in tnames and id(x) not in in_loops:
                    per_yield = False
        n_y = [0]

        def subst(stmts):
            out = []
            for x in stmts:
                if isinstance(x, ast.Expr) and isinstance(x.value, ast.Yield):
                    asg = ast.Assign(targets=[copy.deepcopy(st.target)], value=x.value.value)
                    ast.copy_location(asg, st)
                    lbody = [copy.deepcopy(y) for y in st.body]
                    if per_yield:
                        n_y[0] += 1
                        rn = _Rename({nm: f"{nm}__y{n_y[0]}" for nm in tnames})
                        asg.targets = [rn.visit(tg) for tg in asg.targets]
                        lbody = [rn.visit(y) for y in lbody]
                        if isinstance(getattr(self, "_caller_names", None), set):
                            self._caller_names |= {f"{nm}__y{n_y[0]}" for nm in tnames}
                    out.append(asg)
                    out += lbody
                    continue
                for fld in ("body", "orelse", "finalbody"):
                    sub = getattr(x, fld, None)
                    if isinstance(sub, list) and sub and isinstance(sub[0], ast.stmt) and not isinstance(x, (ast.FunctionDef, ast.ClassDef)):
                        setattr(x, fld, subst(sub))
                for h in getattr(x, "handlers", []) or []:
                    h.body = subst(h.body)
                out.append(x)
            return out

        out = pre + prefix + subst(body)
        for x in out:
            ast.fix_missing_locations(x)
        if depth > 1:
            out = self._inline_block(self._tmp_fi(t, fi), out, depth - 1, banned | {t.qualname}, False)
        return out

    def _desugar_chain(self, fi, st):
        """``for x in itertools.chain.from_iterable(E): BODY`` (also through a
        hoisted temporary) becomes ``for _row in E: for x in _row: BODY`` -
        the same element sequence; refused when BODY can ``break``."""
        if not isinstance(st, ast.For) or st.orelse:
            return None
        it = st.iter
        if not (isinstance(it, ast.Call) and not it.keywords and len(it.args) == 1
                and (ast.unparse(it.func) in ("itertools.chain.from_iterable", "chain.from_iterable"))):
            return None

        def breaks(stmts):
            for x in stmts:
                if isinstance(x, ast.Break):
                    return True
                if isinstance(x, (ast.For, ast.While, ast.FunctionDef, ast.ClassDef)):
                    continue
                for fld in ("body", "orelse", "finalbody"):
                    sub = getattr(x, fld, None)
                    if isinstance(sub, list) and sub and isinstance(sub[0], ast.stmt) and breaks(sub):
                        return True
                for h in getattr(x, "handlers", []) or []:
                    if breaks(h.body):
                        return True
            return False

        if breaks(st.body):
            return None
        _counter[0] += 1
        row = f"_row__c{_counter[0]}"
        inner = ast.For(target=st.target, iter=ast.Name(id=row, ctx=ast.Load()), body=st.body, orelse=[])
        outer = ast.For(target=ast.Name(id=row, ctx=ast.Store()), iter=it.args[0], body=[inner], orelse=[])
        for x in (inner, outer):
            ast.copy_location(x, st)
        ast.fix_missing_locations(outer)
        return [outer]

    def _desugar_update(self, fi, st, banned):
        """``d.update(gen(args))`` with an inlinable generator helper of
        key/value pairs becomes ``for k, v in gen(args): d[k] = v``."""
        if not (isinstance(st, ast.Expr) and isinstance(st.value, ast.Call)):
            return None
        c = st.value
        if not (isinstance(c.func, ast.Attribute) and c.func.attr == "update" and len(c.args) == 1 and not c.keywords
                and isinstance(c.func.value, ast.Name) and isinstance(c.args[0], ast.Call)):
            return None
        if self._inline_target(fi, c.args[0], banned, gen=True) is None:
            return None
        t = self.ctx.types.type_of(fi.module, c.func.value) or ""
        if not (t.startswith("builtins.dict") or t.startswith("dict") or "Dict" in t.split("[")[0] or t.startswith("TypedDict") or "ObservationDict" in t):
            return None
        _counter[0] += 1
        k, v = f"_key__u{_counter[0]}", f"_value__u{_counter[0]}"
        loop = ast.For(
            target=ast.Tuple(elts=[ast.Name(id=k, ctx=ast.Store()), ast.Name(id=v, ctx=ast.Store())], ctx=ast.Store()),
            iter=c.args[0],
            body=[ast.Assign(
                targets=[ast.Subscript(value=copy.deepcopy(c.func.value), slice=ast.Name(id=k, ctx=ast.Load()), ctx=ast.Store())],
                value=ast.Name(id=v, ctx=ast.Load()))],
            orelse=[])
        ast.copy_location(loop, st)
        ast.fix_missing_locations(loop)
        return [loop]

    def _tmp_fi(self, t: FuncInfo, fi: FuncInfo) -> FuncInfo:
        # callee resolution inside inlined code happens in the helper's module
        # but on the caller's receiver class
        return FuncInfo(t.qualname, t.name, t.node, t.module, fi.cls if t.cls is not None else None, t.parent, t.decorators)

    def _desugar_for_genexp(self, fi, st):
        """``for x in (E for v in IT if C): BODY`` is ``for v in IT: if C:
        x = E; BODY`` - the interleaving the generator protocol performs.
        One ``for`` clause only (so break/continue keep their meaning); the
        clause's variables become function-level names, refused on a clash."""
        if not (isinstance(st, ast.For) and isinstance(st.iter, ast.GeneratorExp) and not st.orelse and len(st.iter.generators) == 1):
            return None
        g = st.iter.generators[0]
        if g.is_async:
            return None
        ge = st.iter
        tnames = {x.id for x in ast.walk(g.target) if isinstance(x, ast.Name)}
        inside = {id(y) for y in ast.walk(ge)}
        # the root still holds the call this expression was an argument of (an inlined helper's parameter)
        dump = ast.dump(ge)
        for n in ast.walk(getattr(self, "_flat_root", st)):
            if isinstance(n, ast.GeneratorExp) and n is not ge and ast.dump(n) == dump:
                inside |= {id(y) for y in ast.walk(n)}
        outside = {n.id for n in ast.walk(getattr(self, "_flat_root", st)) if isinstance(n, ast.Name) and id(n) not in inside}
        if any(t != "_" and t in outside for t in tnames):
            return None
        if any(isinstance(x, (ast.NamedExpr, ast.Yield, ast.YieldFrom, ast.Await)) for x in ast.walk(ge)):
            return None
        bind = ast.Assign(targets=[copy.deepcopy(st.target)], value=ge.elt)
        inner: list[ast.stmt] = [bind] + list(st.body)
        if g.ifs:
            # `continue` in BODY still means "next element"; the filter must not swallow it - it does not:
            # an If is no loop
            test = g.ifs[0] if len(g.ifs) == 1 else ast.BoolOp(op=ast.And(), values=list(g.ifs))
            inner = [ast.If(test=test, body=inner, orelse=[])]
        new = ast.For(target=g.target, iter=g.iter, body=inner, orelse=[])
        ast.copy_location(new, st)
        ast.fix_missing_locations(new)
        if isinstance(getattr(self, "_caller_names", None), set):
            self._caller_names |= tnames
        return [new]

    def _desugar_comp(self, fi, st, banned):
        """``x = [helper(args) for v in it]`` (also as return / annotated
        assignment) with an inlinable private helper becomes the explicit
        loop  ``x = []; for v in it: e = helper(args); x.append(e)`` so that
        the helper can be inlined at statement level.  Returns the replacing
        statements or None."""
        value = getattr(st, "value", None)
        if not isinstance(st, (ast.Assign, ast.AnnAssign, ast.Return)) or not isinstance(value, ast.ListComp):
            return None
        # also: a clause that iterates over a generator expression (`for pool in
        # (list(ids) for _ in range(n))` - a binding per element written as an
        # iterable), which only the statement form can write out
        over_genexp = any(isinstance(g.iter, ast.GeneratorExp) and len(g.iter.generators) == 1 for g in value.generators)
        if not over_genexp and (not isinstance(value.elt, ast.Call) or self._inline_target(fi, value.elt, banned) is None):
            return None
        if isinstance(st, ast.Assign) and not (len(st.targets) == 1 and isinstance(st.targets[0], ast.Name)):
            return None
        if isinstance(st, ast.AnnAssign) and not isinstance(st.target, ast.Name):
            return None
        if any(g.is_async for g in value.generators):
            return None
        # comprehension variables become function-level names: refuse on a clash
        caller = getattr(self, "_caller_names", set())
        tnames = {x.id for g in value.generators for x in ast.walk(g.target) if isinstance(x, ast.Name)}
        comp_inner = {x.id for x in ast.walk(value) if isinstance(x, ast.Name)}
        outside = {
            x.id for n in ast.walk(getattr(self, "_flat_root", st)) if n is not value and not any(n is y for y in ast.walk(value))
            for x in [n] if isinstance(x, ast.Name)
        }
        if any(t != "_" and t in outside for t in tnames):
            return None
        del caller, comp_inner
        _counter[0] += 1
        k = _counter[0]
        if isinstance(st, ast.Assign):
            acc = st.targets[0].id
        elif isinstance(st, ast.AnnAssign):
            acc = st.target.id
        else:
            acc = f"_items__c{k}"
        elem = f"_item__c{k}"
        init: ast.stmt
        if isinstance(st, ast.AnnAssign):
            init = ast.AnnAssign(target=ast.Name(id=acc, ctx=ast.Store()), annotation=st.annotation, value=ast.List(elts=[], ctx=ast.Load()), simple=1)
        else:
            init = ast.Assign(targets=[ast.Name(id=acc, ctx=ast.Store())], value=ast.List(elts=[], ctx=ast.Load()))
        inner: list[ast.stmt] = [
            ast.Assign(targets=[ast.Name(id=elem, ctx=ast.Store())], value=value.elt),
            ast.Expr(value=ast.Call(
                func=ast.Attribute(value=ast.Name(id=acc, ctx=ast.Load()), attr="append", ctx=ast.Load()),
                args=[ast.Name(id=elem, ctx=ast.Load())], keywords=[])),
        ]
        for g in reversed(value.generators):
            body = inner
            for cond in reversed(g.ifs):
                body = [ast.If(test=cond, body=body, orelse=[])]
            inner = [ast.For(target=g.target, iter=g.iter, body=body, orelse=[])]
        out = [init] + inner
        if isinstance(st, ast.Return):
            out.append(ast.Return(value=ast.Name(id=acc, ctx=ast.Load())))
        for x in out:
            ast.copy_location(x, st)
            ast.fix_missing_locations(x)
        return out

    def _hoist(self, fi, st, banned):
        """Moves an inlinable helper call (or a list comprehension over one)
        out of an argument position / a loop header into a temporary assigned
        just before the statement, where statement-level inlining reaches it:
            f(x, [h(v) for v in it])      ->  _t = [h(v) for v in it]; f(x, _t)
            for i, v in enumerate(h(a)):  ->  _t = h(a); for i, v in enumerate(_t):
        Only done when everything evaluated before the hoisted expression in
        that statement is a pure access path, so evaluation order is kept."""
        def inl_call(e):
            return isinstance(e, ast.Call) and self._inline_target(fi, e, banned) is not None

        def wanted(e):
            return inl_call(e) or (isinstance(e, ast.ListComp) and inl_call(e.elt))

        def inner_slot(e):
            """the helper call sits under a unary / binary operator whose other
            operand (if evaluated first) is a pure path:  -h(x),  a - h(x),  h(x) - a"""
            if isinstance(e, ast.UnaryOp) and wanted(e.operand):
                return (e, "operand")
            if isinstance(e, ast.BinOp):
                if wanted(e.left):
                    return (e, "left")
                if _is_path_expr(e.left) and wanted(e.right):
                    return (e, "right")
            return None

        holder = None  # (container list / node, index / field)
        if isinstance(st, ast.For):
            it = st.iter
            if wanted(it):
                holder = (st, "iter")
            elif isinstance(it, ast.Call) and isinstance(it.func, ast.Name) and it.func.id in ("enumerate", "zip", "reversed", "list", "sorted", "tuple") and it.args and wanted(it.args[0]):
                holder = (it.args, 0)
        else:
            value = getattr(st, "value", None)
            if isinstance(st, (ast.Expr, ast.Assign, ast.AnnAssign, ast.Return)) and isinstance(value, ast.Call) and not inl_call(value):
                if not _is_path_expr(value.func):
                    return None
                for i, a in enumerate(value.args):
                    if wanted(a):
                        holder = (value.args, i)
                        break
                    if isinstance(a, ast.Starred) and wanted(a.value):
                        # f(*helper(x)): the helper's result is bound first, the star is spelt out afterwards
                        # if the result turns out to be a tuple display (see _spread_star_tuples)
                        holder = (a, "value")
                        break
                    if inner_slot(a) is not None:
                        holder = inner_slot(a)
                        break
                    if not _is_path_expr(a):
                        break
                else:
                    for kw in value.keywords:
                        if wanted(kw.value):
                            holder = (kw, "value")
                            break
                        if not _is_path_expr(kw.value):
                            break
            elif isinstance(st, (ast.Assign, ast.AnnAssign, ast.Return)) and isinstance(value, (ast.UnaryOp, ast.BinOp)) and inner_slot(value) is not None:
                holder = inner_slot(value)
            elif isinstance(st, (ast.Assign, ast.AnnAssign, ast.Return)) and isinstance(value, ast.Dict):
                # {K1: helper(a), K2: ...}: keys and values are evaluated left to
                # right; everything before the hoisted value must be a pure path
                for i, (k, v) in enumerate(zip(value.keys, value.values)):
                    if k is None or not _is_path_expr(k):
                        break
                    if wanted(v):
                        holder = (value.values, i)
                        break
                    # (a space declaration built from plain values - `gym.spaces.MultiBinary(n)` - reads nothing
                    # the helper could change and changes nothing the helper reads)
                    if not _is_path_expr(v) and not (
                        isinstance(v, ast.Call) and ".spaces." in "." + (ast.unparse(v.func) if isinstance(v.func, (ast.Attribute, ast.Name)) else "") + "."
                        and all(_is_path_expr(a_) for a_ in v.args) and all(kw_.arg and _is_path_expr(kw_.value) for kw_ in v.keywords)
                    ):
                        break
        if holder is None:
            return None
        _counter[0] += 1
        tmp = f"_arg__h{_counter[0]}"
        cont, key = holder
        expr = cont[key] if isinstance(key, int) else getattr(cont, key)
        asg = ast.Assign(targets=[ast.Name(id=tmp, ctx=ast.Store())], value=expr)
        ref = ast.Name(id=tmp, ctx=ast.Load())
        if isinstance(key, int):
            cont[key] = ref
        else:
            setattr(cont, key, ref)
        for x in (asg, ref):
            ast.copy_location(x, st)
        ast.fix_missing_locations(asg)
        ast.fix_missing_locations(st)
        return [asg, st]

    def _fuse_generator_locals(self, fi, stmts, banned):
        """``g = gen(args)`` directly followed by ``for .. in g`` /
        ``for .. in enumerate(g, ..)`` (g used nowhere else in the block):
        the generator call moves into the loop header, where it is inlined.
        Creating a generator runs none of its body, so with pure-path
        arguments nothing is reordered."""
        out = list(stmts)
        i = 0
        while i + 1 < len(out):
            a, b = out[i], out[i + 1]
            if (
                isinstance(a, ast.Assign) and len(a.targets) == 1 and isinstance(a.targets[0], ast.Name) and isinstance(b, ast.For)
                and (
                    # a generator expression evaluates only its first iterable when it is created
                    (isinstance(a.value, ast.GeneratorExp) and _is_path_expr(_first_iter_root(a.value)))
                    or (
                        isinstance(a.value, ast.Call) and self._inline_target(fi, a.value, banned, gen=True) is not None
                        and all(_is_path_expr(x) for x in a.value.args) and all(k.arg is not None and _is_path_expr(k.value) for k in a.value.keywords)
                    )
                )
            ):
                name = a.targets[0].id
                it = b.iter
                slot = None
                if isinstance(it, ast.Name) and it.id == name:
                    slot = "iter"
                elif isinstance(it, ast.Call) and isinstance(it.func, ast.Name) and it.func.id == "enumerate" and it.args and isinstance(it.args[0], ast.Name) and it.args[0].id == name:
                    slot = "enum"
                uses = sum(1 for st in out[i + 1:] for x in ast.walk(st) if isinstance(x, ast.Name) and x.id == name)
                if slot and uses == 1:
                    if slot == "iter":
                        b.iter = a.value
                    else:
                        it.args[0] = a.value
                    del out[i]
                    continue
            i += 1
        return out

    def _inline_block(self, fi, stmts, depth, banned, tail=True):
        out = []
        if depth > 0:
            stmts = self._fuse_generator_locals(fi, stmts, banned)
            for _round in range(3):
                expanded = []
                changed = False
                for st in stmts:
                    rep = self._desugar_comp(fi, st, banned)
                    if rep is None:
                        rep = self._desugar_for_genexp(fi, st)
                    if rep is None:
                        rep = self._desugar_chain(fi, st)
                    if rep is None:
                        rep = self._desugar_update(fi, st, banned)
                    if rep is None:
                        rep = self._hoist(fi, st, banned)
                    if rep is not None:
                        changed = True
                    expanded += rep if rep is not None else [st]
                stmts = expanded
                if not changed:
                    break
        for i, st in enumerate(stmts):
            is_tail = tail and i == len(stmts) - 1
            rep = self._inline_stmt(fi, st, depth, banned, is_tail) if depth > 0 else None
            if rep is None and depth > 0:
                rep = self._inline_for_gen(fi, st, depth, banned)
            if rep is not None:
                out += rep
                continue
            for fld in ("body", "orelse", "finalbody"):
                sub = getattr(st, fld, None)
                if isinstance(sub, list) and sub and isinstance(sub[0], ast.stmt) and not isinstance(st, (ast.FunctionDef, ast.ClassDef)):
                    setattr(st, fld, self._inline_block(fi, sub, depth, banned, is_tail and not isinstance(st, (ast.For, ast.While))))
            if isinstance(st, ast.Try):
                for h in st.handlers:
                    h.body = self._inline_block(fi, h.body, depth, banned, False)
            out.append(st)
        # a generator that only became visible through inlining (`g = gen(..)`
        # as the result of an inlined accessor) is fused and inlined now
        if depth > 0:
            fused = self._fuse_generator_locals(fi, out, banned)
            if len(fused) != len(out):
                out2 = []
                for st in fused:
                    rep = self._inline_for_gen(fi, st, depth, banned) if isinstance(st, ast.For) else None
                    out2 += rep if rep is not None else [st]
                out = out2
        out = self._spread_star_tuples(out)
        # a hoisted loop header whose helper turned out to be a plain
        # expression goes back into the header (`_t = chain(...); for x in _t:`)
        res = []
        for st in out:
            prev = res[-1] if res else None
            if (
                isinstance(st, ast.For) and isinstance(st.iter, ast.Name) and st.iter.id.startswith("_arg__h")
                and isinstance(prev, ast.Assign) and len(prev.targets) == 1 and isinstance(prev.targets[0], ast.Name)
                and prev.targets[0].id == st.iter.id
            ):
                res.pop()
                st.iter = prev.value
                rep = self._desugar_chain(fi, st)
                res += rep if rep is not None else [st]
                continue
            res.append(st)
        return res

    @staticmethod
    def _spread_star_tuples(stmts):
        """``t = (a, b)`` directly followed by a statement whose only use of ``t``
        is ``f(*t)``: the call is written ``f(a, b)`` (the tuple's elements are
        evaluated at the same point, in the same order)."""
        out = list(stmts)
        i = 0
        while i + 1 < len(out):
            a, b = out[i], out[i + 1]
            if (
                isinstance(a, ast.Assign) and len(a.targets) == 1 and isinstance(a.targets[0], ast.Name) and isinstance(a.value, ast.Tuple)
                and all(_is_path_expr(e) for e in a.value.elts) and a.targets[0].id.startswith("_arg__h")
            ):
                name = a.targets[0].id
                uses = [x for st in out[i + 1:] for x in ast.walk(st) if isinstance(x, ast.Name) and x.id == name]
                stars = [
                    (c, k) for c in ast.walk(b) if isinstance(c, ast.Call)
                    for k, arg in enumerate(c.args) if isinstance(arg, ast.Starred) and isinstance(arg.value, ast.Name) and arg.value.id == name
                ]
                if len(uses) == 1 and len(stars) == 1:
                    c, k = stars[0]
                    c.args[k:k + 1] = [copy.deepcopy(e) for e in a.value.elts]
                    del out[i]
                    continue
            # the same with the tuple bound at the end of every branch of an `if` (a helper with two returns
            # written out): the consuming statement moves into the branches
            if isinstance(a, ast.If) and not isinstance(b, (ast.If, ast.For, ast.While, ast.Try, ast.With, ast.FunctionDef)):
                def tails(st):
                    """the last statements of all branches, or None if some branch does not end in `_arg__h = tuple`"""
                    res = []
                    for blk in (st.body, st.orelse):
                        if not blk:
                            return None
                        last = blk[-1]
                        if isinstance(last, ast.If):
                            sub = tails(last)
                            if sub is None:
                                return None
                            res += sub
                        elif (
                            isinstance(last, ast.Assign) and len(last.targets) == 1 and isinstance(last.targets[0], ast.Name)
                            and last.targets[0].id.startswith("_arg__h") and isinstance(last.value, ast.Tuple)
                            and all(_is_path_expr(e) for e in last.value.elts)
                        ):
                            res.append((blk, last))
                        else:
                            return None
                    return res

                ts = tails(a)
                if ts and len({t.targets[0].id for _b, t in ts}) == 1:
                    name = ts[0][1].targets[0].id
                    uses = [x for st in out[i + 1:] for x in ast.walk(st) if isinstance(x, ast.Name) and x.id == name]
                    inner_uses = [x for x in ast.walk(a) if isinstance(x, ast.Name) and x.id == name and isinstance(x.ctx, ast.Load)]
                    stars = [
                        (c, k) for c in ast.walk(b) if isinstance(c, ast.Call)
                        for k, arg in enumerate(c.args) if isinstance(arg, ast.Starred) and isinstance(arg.value, ast.Name) and arg.value.id == name
                    ]
                    if len(uses) == 1 and len(stars) == 1 and not inner_uses:
                        for blk, last in ts:
                            cp = copy.deepcopy(b)
                            for c in ast.walk(cp):
                                if isinstance(c, ast.Call):
                                    for k, arg in enumerate(list(c.args)):
                                        if isinstance(arg, ast.Starred) and isinstance(arg.value, ast.Name) and arg.value.id == name:
                                            c.args[k:k + 1] = [copy.deepcopy(e) for e in last.value.elts]
                            blk[-1] = cp
                        del out[i + 1]
                        continue
            i += 1
        return out

    def flat(self, fi: FuncInfo, depth: int = 2, keep: tuple = ()) -> FlatFunc:
        """``keep``: qualnames of helpers that must stay calls (a rule that
        judges the call site itself)."""
        key = (fi.qualname, depth, tuple(sorted(keep)))
        got = self._flat.get(key)
        if got is not None:
            return got
        node = copy.deepcopy(fi.node)
        if not isinstance(node, ast.Lambda):
            self._specialise_new_params(fi, node)
            self._expand_constant_kwargs(fi, node)
            saved = getattr(self, "_caller_names", set())
            self._caller_names = {n.id for n in ast.walk(fi.node) if isinstance(n, ast.Name)} | set(fi.params)
            self._flat_root = node
            saved_root = getattr(self, "_root_module", None)
            self._root_module = fi.module.name
            try:
                node.body = self._inline_block(fi, list(node.body), depth, {fi.qualname} | set(keep))
            finally:
                self._caller_names = saved
                self._root_module = saved_root
        parents = {}
        for p in ast.walk(node):
            for c in ast.iter_child_nodes(p):
                parents[c] = p
        mi = ModuleInfo(fi.module.name, fi.module.relpath, fi.module.source, fi.module.tree)
        mi.imports = fi.module.imports
        mi.functions = fi.module.functions
        mi.classes = fi.module.classes
        mi.assigns = fi.module.assigns
        mi.parents = parents
        ff = FlatFunc(fi.qualname + ("#flat" if depth == 2 else f"#flat{depth}") + ("k" if keep else ""), fi.name, node, mi, fi.cls, fi.parent, list(fi.decorators))
        self._flat[key] = ff
        return ff

    def _unroll_reflection(self, fi: FuncInfo, prefix, body) -> None:
        """``all(getattr(a, n) == getattr(b, n) for n in NAMES)`` with NAMES a
        tuple of string literals known at this call (a display, a class-level
        or module-level constant) is the conjunction spelt out with plain
        attribute accesses - the table-driven form of a hand-written chain of
        ``and`` clauses.  Likewise ``any`` / ``or``.  Only when every use of
        the loop variable is the name argument of a two-argument getattr()."""
        bound = {
            pa.targets[0].id: pa.value for pa in prefix
            if isinstance(pa, ast.Assign) and len(pa.targets) == 1 and isinstance(pa.targets[0], ast.Name)
        }

        def names_of(it, depth=0):
            if depth > 3:
                return None
            if isinstance(it, (ast.Tuple, ast.List)) and it.elts and all(isinstance(e, ast.Constant) and isinstance(e.value, str) for e in it.elts):
                return [e.value for e in it.elts]
            if isinstance(it, ast.Name):
                if it.id in bound:
                    return names_of(bound[it.id], depth + 1)
                v = fi.module.assigns.get(it.id)
                return names_of(v, depth + 1) if v is not None else None
            if isinstance(it, ast.Attribute) and isinstance(it.value, ast.Name) and fi.cls is not None:
                if it.value.id in (fi.params[:1] or ["self"]) or it.value.id in ("cls", fi.cls.name):
                    v = self.ctx.repo.class_attr(fi.cls, it.attr)
                    return names_of(v, depth + 1) if v is not None else None
            return None

        class Unroll(ast.NodeTransformer):
            def visit_Call(self, c):
                self.generic_visit(c)
                if not (isinstance(c.func, ast.Name) and c.func.id in ("all", "any") and len(c.args) == 1 and not c.keywords
                        and isinstance(c.args[0], (ast.GeneratorExp, ast.ListComp))):
                    return c
                g = c.args[0]
                if len(g.generators) != 1 or g.generators[0].ifs or not isinstance(g.generators[0].target, ast.Name):
                    return c
                var = g.generators[0].target.id
                names = names_of(g.generators[0].iter)
                if not names:
                    return c
                uses = [x for x in ast.walk(g.elt) if isinstance(x, ast.Name) and x.id == var]
                gets = [
                    x for x in ast.walk(g.elt)
                    if isinstance(x, ast.Call) and isinstance(x.func, ast.Name) and x.func.id == "getattr" and len(x.args) == 2
                    and isinstance(x.args[1], ast.Name) and x.args[1].id == var
                ]
                if not uses or len(uses) != len(gets):
                    return c
                terms = []
                for nm in names:
                    class G(ast.NodeTransformer):
                        def visit_Call(self, x):
                            self.generic_visit(x)
                            if isinstance(x.func, ast.Name) and x.func.id == "getattr" and len(x.args) == 2 and isinstance(x.args[1], ast.Name) and x.args[1].id == var:
                                return ast.copy_location(ast.Attribute(value=x.args[0], attr=nm, ctx=ast.Load()), x)
                            return x
                    terms.append(G().visit(copy.deepcopy(g.elt)))
                if len(terms) == 1:
                    return ast.copy_location(terms[0], c)
                return ast.copy_location(ast.BoolOp(op=ast.And() if c.func.id == "all" else ast.Or(), values=terms), c)

        for i, st in enumerate(body):
            body[i] = ast.fix_missing_locations(Unroll().visit(st))

    @staticmethod
    def _expand_constant_kwargs(fi: FuncInfo, node) -> None:
        """``f(x, **_STYLE)`` with ``_STYLE = {"type": EdgeType.X}`` a
        module-level dict display with string keys that the function does not
        rebind: the keywords are written out (`f(x, type=EdgeType.X)`)."""
        stored = {x.id for x in ast.walk(node) if isinstance(x, ast.Name) and isinstance(x.ctx, (ast.Store, ast.Del))} | {
            a.arg for a in ast.walk(node) if isinstance(a, ast.arg)
        }
        for c in ast.walk(node):
            if not isinstance(c, ast.Call) or not any(k.arg is None for k in c.keywords):
                continue
            new = []
            for k in c.keywords:
                d = fi.module.assigns.get(k.value.id) if (k.arg is None and isinstance(k.value, ast.Name) and k.value.id not in stored) else None
                if isinstance(d, ast.Dict) and d.keys and all(
                    isinstance(x, ast.Constant) and isinstance(x.value, str) and x.value.isidentifier() for x in d.keys
                ):
                    for x, v in zip(d.keys, d.values):
                        kw = ast.keyword(arg=x.value, value=copy.deepcopy(v))
                        ast.copy_location(kw, k.value)
                        for y in ast.walk(kw.value):
                            ast.copy_location(y, k.value)
                        new.append(kw)
                else:
                    new.append(k)
            c.keywords = new

    @staticmethod
    def _specialise_new_params(fi: FuncInfo, node) -> None:
        """A callable of the pinned public surface that has since gained a
        parameter with a literal default (`add_disjunctive_edges(graph,
        schedule=None)`): every call the pinned tree knows leaves it at the
        default, so the flattened form - what the rules judge - is the function
        with that parameter fixed at its default and the decided branches
        pruned.  What the new argument does is new API surface."""
        from .baseline_api import BASELINE_PARAMS

        if fi.parent is not None:
            return
        key = (fi.cls.name + "." if fi.cls is not None else "") + fi.name
        bp = BASELINE_PARAMS.get(key)
        if bp is None:
            return
        a = node.args
        pos = a.posonlyargs + a.args
        pairs = list(zip(pos[len(pos) - len(a.defaults):], a.defaults)) + [(k, d) for k, d in zip(a.kwonlyargs, a.kw_defaults) if d is not None]
        stored = {x.id for x in ast.walk(node) if isinstance(x, ast.Name) and isinstance(x.ctx, (ast.Store, ast.Del))}
        changed = False
        for p_, d in pairs:
            if p_.arg in bp or not isinstance(d, ast.Constant) or p_.arg in stored:
                continue
            sub = _SubstName(p_.arg, d)
            node.body = [sub.visit(st) for st in node.body]
            changed = True
        if changed:
            node.body = _prune_constant_ifs(node.body) or [ast.copy_location(ast.Pass(), node)]

    def _reaching_def(self, fi: FuncInfo, use: ast.Name):
        """The value of the plain assignment ``name = value`` that certainly
        reaches ``use``: it precedes the use in the same statement block (or in
        an enclosing block), nothing in between stores to the name, and no loop
        that is crossed on the way out assigns the name anywhere."""
        parents = fi.module.parents
        if use not in parents:
            return None
        name = use.id

        def stores_in(node):
            for x in ast.walk(node):
                if isinstance(x, ast.Name) and x.id == name and isinstance(x.ctx, (ast.Store, ast.Del)):
                    return True
                if isinstance(x, (ast.Global, ast.Nonlocal)) and name in x.names:
                    return True
            return False

        cur: ast.AST = use
        for _ in range(40):
            p = parents.get(cur)
            if p is None or isinstance(cur, (ast.FunctionDef, ast.AsyncFunctionDef, ast.Lambda, ast.ClassDef)):
                return None
            if isinstance(cur, ast.stmt):
                blk = None
                for fld in ("body", "orelse", "finalbody"):
                    b = getattr(p, fld, None)
                    if isinstance(b, list) and any(x is cur for x in b):
                        blk = b
                if blk is None and isinstance(p, ast.ExceptHandler):
                    blk = p.body if any(x is cur for x in p.body) else None
                if blk is None:
                    return None
                i = next(k for k, x in enumerate(blk) if x is cur)
                for st in reversed(blk[:i]):
                    if (
                        isinstance(st, (ast.Assign, ast.AnnAssign)) and st.value is not None
                        and (st.targets if isinstance(st, ast.Assign) else [st.target]) == [t for t in (st.targets if isinstance(st, ast.Assign) else [st.target]) if isinstance(t, ast.Name) and t.id == name]
                        and len(st.targets if isinstance(st, ast.Assign) else [st.target]) == 1
                    ):
                        return st.value
                    if stores_in(st):
                        return None
                # leaving through p: a loop that assigns the name anywhere may
                # deliver a later definition on its next iteration
                if isinstance(p, (ast.For, ast.While, ast.AsyncFor)) and stores_in(p):
                    # the definitions inside the loop other than the ones we walked past
                    return None
                if isinstance(p, (ast.comprehension,)):
                    return None
            if isinstance(p, (ast.ListComp, ast.SetComp, ast.DictComp, ast.GeneratorExp)):
                # comprehension variables shadow
                if any(isinstance(x, ast.Name) and x.id == name for g in p.generators for x in ast.walk(g.target)):
                    return None
            cur = p
        return None

    def dealiased(self, fi: FuncInfo) -> FlatFunc:
        """Copy of ``fi`` in which once-assigned locals that merely name an
        attribute path of ``self`` / a parameter (``graph = self.graph``) are
        replaced by that path and the alias assignment is dropped - for rules
        that recognise receivers by their spelling.  Only when the function
        never assigns that path itself (the alias and the path then denote the
        same object throughout, callee side effects aside)."""
        key = (fi.qualname, "dealiased")
        got = self._flat.get(key)
        if got is not None:
            return got
        node = copy.deepcopy(fi.node)
        stores: dict[str, int] = {}
        for n in own_nodes(node):
            if isinstance(n, ast.Name) and isinstance(n.ctx, (ast.Store, ast.Del)):
                stores[n.id] = stores.get(n.id, 0) + 1
        params = set(fi.params)
        attr_stores = {ast.unparse(n) for n in own_nodes(node) if isinstance(n, ast.Attribute) and isinstance(n.ctx, (ast.Store, ast.Del))}
        mapping: dict[str, ast.AST] = {}
        drop = set()
        for st in own_nodes(node):
            if not (isinstance(st, ast.Assign) and len(st.targets) == 1 and isinstance(st.targets[0], ast.Name)):
                continue
            name, v = st.targets[0].id, st.value
            if stores.get(name) != 1 or name in params or not isinstance(v, ast.Attribute):
                continue
            root, ok = v, True
            while isinstance(root, ast.Attribute):
                root = root.value
            if not (isinstance(root, ast.Name) and root.id in params and stores.get(root.id, 0) == 0):
                continue
            txt = ast.unparse(v)
            if any(a == txt or txt.startswith(a + ".") for a in attr_stores):
                continue
            mapping[name] = v
            drop.add(id(st))
        if mapping:
            ren = _Rename(mapping)

            def strip(stmts):
                out = []
                for x in stmts:
                    if id(x) in drop:
                        continue
                    for fld in ("body", "orelse", "finalbody"):
                        sub = getattr(x, fld, None)
                        if isinstance(sub, list) and sub and isinstance(sub[0], ast.stmt) and not isinstance(x, (ast.FunctionDef, ast.ClassDef)):
                            setattr(x, fld, strip(sub) or [ast.copy_location(ast.Pass(), x)])
                    for h in getattr(x, "handlers", []) or []:
                        h.body = strip(h.body) or [ast.copy_location(ast.Pass(), h)]
                    out.append(x)
                return out

            node.body = [ren.visit(x) for x in strip(node.body)] or [ast.Pass()]
            ast.fix_missing_locations(node)
        parents = {}
        for p_ in ast.walk(node):
            for c in ast.iter_child_nodes(p_):
                parents[c] = p_
        mi = ModuleInfo(fi.module.name, fi.module.relpath, fi.module.source, fi.module.tree)
        mi.imports = fi.module.imports
        mi.functions = fi.module.functions
        mi.classes = fi.module.classes
        mi.assigns = fi.module.assigns
        mi.parents = parents
        mi.line_map = getattr(fi.module, "line_map", None)
        ff = FlatFunc(fi.qualname + ("" if fi.qualname.endswith("#dealiased") else "#dealiased"), fi.name, node, mi, fi.cls, fi.parent, list(fi.decorators))
        self._flat[key] = ff
        return ff

    # ----------------------------------------------------------- expansion
    def _pinned_public(self, t: FuncInfo, fi: FuncInfo) -> bool:
        """A name of the pinned public surface called from another class /
        module: rules know it by name, so it stays a call however short its
        body has become."""
        from .baseline_api import PUBLIC_CALLABLES

        if t.name.startswith("_"):
            return False
        key = (t.cls.name + "." if t.cls is not None else "") + t.name
        if key not in PUBLIC_CALLABLES:
            return False
        same_cls = t.cls is not None and fi.cls is not None and (t.cls.qualname in fi.cls.mro or fi.cls.qualname in t.cls.mro)
        return not same_cls and t.module is not fi.module

    def xexpr(self, fi: FuncInfo, node: ast.AST, depth: int = 6, _seen=None) -> ast.AST:
        """Copy of ``node`` with single-definition local aliases substituted
        and one-expression helper calls replaced by their expression."""
        _seen = _seen or frozenset()
        defs = self.ctx.flow.defs(fi)
        norm = self

        class X(ast.NodeTransformer):
            def visit_Name(self, n: ast.Name):
                if not isinstance(n.ctx, ast.Load) or depth <= 0 or n.id in _seen:
                    return n
                ds = defs.of(n.id)
                if len(ds) == 1 and ds[0][0] == "value" and n.id not in defs.params:
                    v = ds[0][1]
                    # empty containers that are filled later are not aliases
                    if isinstance(v, (ast.List, ast.Set, ast.Tuple)) and not v.elts:
                        return n
                    if isinstance(v, ast.Dict) and not v.keys:
                        return n
                    if isinstance(v, ast.Lambda):
                        return n
                    return norm.xexpr(fi, v, depth - 1, _seen | {n.id})
                if len(ds) > 1 and n.id not in defs.params:
                    # several definitions in the function: the one that reaches
                    # this use for certain (straight-line code before it)
                    v = norm._reaching_def(fi, getattr(n, "_orig", n))
                    if v is not None and not isinstance(v, ast.Lambda) and not (isinstance(v, (ast.List, ast.Set, ast.Tuple)) and not v.elts) and not (isinstance(v, ast.Dict) and not v.keys):
                        return norm.xexpr(fi, v, depth - 1, _seen | {n.id})
                # tuple unpacking from a tuple literal handled by Defs already
                return n

            def visit_Subscript(self, n: ast.Subscript):
                self.generic_visit(n)
                # (a, b)[1] -> b  (unpacking of a tuple literal / of an inlined helper's tuple result)
                if isinstance(n.value, (ast.Tuple, ast.List)) and isinstance(n.slice, ast.Constant) and isinstance(n.slice.value, int):
                    k = n.slice.value
                    if -len(n.value.elts) <= k < len(n.value.elts) and not any(isinstance(e, ast.Starred) for e in n.value.elts):
                        return n.value.elts[k]
                return n

            def visit_Attribute(self, a: ast.Attribute):
                # record field of a local built by a keyword constructor call:
                #   size = _Size(num_jobs=J, num_machines=M) ... size.num_machines  ->  M
                if isinstance(a.ctx, ast.Load) and isinstance(a.value, ast.Name) and depth > 0 and a.value.id not in _seen:
                    ds = defs.of(a.value.id)
                    if len(ds) == 1 and ds[0][0] == "value" and isinstance(ds[0][1], ast.Call) and a.value.id not in defs.params:
                        call = ds[0][1]
                        cls = norm.ctx.repo.classes.get(norm.ctx.repo.resolve(getattr(call, "_origin_mod", None) or fi.module.name, ast.unparse(call.func)) or "")
                        init = cls.methods.get("__init__") if cls is not None else None
                        if cls is not None and init is not None and cls.name.startswith("_") and not cls.bases:
                            # a private record class with a plain constructor: self.<f> = <parameter>
                            stores = {}
                            plain = True
                            me = init.params[0] if init.params else "self"
                            for st in body_of(init.node):
                                if isinstance(st, ast.Expr) and isinstance(st.value, ast.Constant):
                                    continue
                                tg = st.targets[0] if isinstance(st, ast.Assign) and len(st.targets) == 1 else st.target if isinstance(st, ast.AnnAssign) else None
                                if (
                                    tg is not None and isinstance(tg, ast.Attribute) and isinstance(tg.value, ast.Name) and tg.value.id == me
                                    and isinstance(st.value, ast.Name) and st.value.id in init.params
                                ):
                                    stores[tg.attr] = st.value.id
                                else:
                                    plain = False
                            written_elsewhere = any(
                                isinstance(x, ast.Attribute) and isinstance(x.ctx, ast.Store) and x.attr == a.attr
                                for m_ in cls.methods.values() if m_ is not init for x in ast.walk(m_.node)
                            )
                            if plain and a.attr in stores and not written_elsewhere:
                                ps = init.params[1:]
                                pname = stores[a.attr]
                                val = next((k.value for k in call.keywords if k.arg == pname), None)
                                if val is None and pname in ps and ps.index(pname) < len(call.args):
                                    val = call.args[ps.index(pname)]
                                if val is not None:
                                    return norm.xexpr(fi, val, depth - 1, _seen | {a.value.id})
                        if cls is not None and not cls.methods.get("__init__"):
                            fields = [
                                st.target.id for st in cls.node.body
                                if isinstance(st, ast.AnnAssign) and isinstance(st.target, ast.Name)
                            ]
                            if a.attr in fields:
                                val = next((k.value for k in call.keywords if k.arg == a.attr), None)
                                if val is None and fields.index(a.attr) < len(call.args):
                                    val = call.args[fields.index(a.attr)]
                                if val is not None:
                                    return norm.xexpr(fi, val, depth - 1, _seen | {a.value.id})
                # a property the pinned tree does not have (or a private one)
                # with a one-expression getter is a named expression
                if isinstance(a.ctx, ast.Load) and depth > 0 and isinstance(a.value, ast.Name):
                    try:
                        pt = norm.ctx.res.property_target(fi, getattr(a, "_orig", a), fi.cls)
                    except Exception:
                        pt = None
                    if pt is not None and pt.is_property and not any("cached" in d for d in pt.decorators):
                        from .baseline_api import PUBLIC_CALLABLES

                        key = (pt.cls.name + "." if pt.cls is not None else "") + pt.name
                        body = [s_ for s_ in body_of(pt.node) if not isinstance(s_, ast.Assert)]
                        if (key not in PUBLIC_CALLABLES or pt.name.startswith("_")) and len(body) == 1 and isinstance(body[0], ast.Return) and body[0].value is not None and pt.params:
                            e = _Rename({pt.params[0]: a.value}).visit(copy.deepcopy(body[0].value))
                            return norm.xexpr(fi, e, depth - 1, _seen)
                self.generic_visit(a)
                return a

            def visit_Call(self, c: ast.Call):
                self.generic_visit(c)
                if depth <= 0:
                    return c
                # a local alias of attrgetter(..)/itemgetter(..) applied: `get = attrgetter("f"); get(x)` -> `x.f`
                if isinstance(c.func, ast.Call) and _is_function_value(c.func):
                    r = _BetaReduce().visit(c)
                    if r is not c:
                        return r
                # list(map(F, X)) / tuple(map(F, X)) with a known one-argument F
                if (
                    isinstance(c.func, ast.Name) and c.func.id in ("list", "tuple") and len(c.args) == 1 and not c.keywords
                    and isinstance(c.args[0], ast.Call) and isinstance(c.args[0].func, ast.Name) and c.args[0].func.id == "map"
                    and len(c.args[0].args) == 2 and not c.args[0].keywords
                ):
                    fn, seq = c.args[0].args
                    if isinstance(fn, ast.Name) and not defs.of(fn.id):
                        fn = getattr(fi.module, "assigns", {}).get(fn.id, fn)
                    if _is_function_value(fn):
                        _counter[0] += 1
                        v = f"_m__x{_counter[0]}"
                        elt = _BetaReduce().visit(ast.Call(func=copy.deepcopy(fn), args=[ast.Name(id=v, ctx=ast.Load())], keywords=[]))
                        comp = ast.ListComp(elt=elt, generators=[ast.comprehension(target=ast.Name(id=v, ctx=ast.Store()), iter=seq, ifs=[], is_async=0)])
                        return ast.fix_missing_locations(ast.copy_location(comp, c))
                # a module-level name bound to attrgetter(..)/itemgetter(..)/a lambda
                if isinstance(c.func, ast.Name) and not defs.of(c.func.id) and c.func.id not in defs.params:
                    mv = getattr(fi.module, "assigns", {}).get(c.func.id)
                    if mv is not None and _is_function_value(mv):
                        r = _BetaReduce().visit(ast.copy_location(ast.Call(func=copy.deepcopy(mv), args=c.args, keywords=c.keywords), c))
                        if not (isinstance(r, ast.Call) and r.func is not c.func and isinstance(r.func, (ast.Lambda, ast.Call))):
                            return self.visit(r) if isinstance(r, ast.Subscript) else r
                try:
                    ts, _ = norm.ctx.res.callees(fi, c, fi.cls)
                except Exception:
                    return c
                if len(ts) == 1 and not isinstance(ts[0].node, ast.Lambda) and not norm._pinned_public(ts[0], fi):
                    t = ts[0]
                    body = [s for s in body_of(t.node) if not isinstance(s, ast.Assert)]
                    if len(body) == 1 and isinstance(body[0], ast.Return) and body[0].value is not None and not t.decorators or (
                        len(body) == 1 and isinstance(body[0], ast.Return) and body[0].value is not None and (t.is_static or t.is_classmethod)
                    ):
                        b = norm._bind(t, c, "x", subst_all=True)
                        if b is not None and not b[0]:
                            e = copy.deepcopy(body[0].value)
                            e = _Rename(b[1]).visit(e)
                            # helpers used by the helper: expand again in the
                            # helper's own scope (no local aliases there)
                            return norm.xexpr(norm._tmp_fi(t, fi), e, depth - 1, _seen) if depth > 1 else e
                    elif (
                        len(body) > 1 and isinstance(body[-1], ast.Return) and body[-1].value is not None and depth > 1
                        and (not t.decorators or t.is_static or t.is_classmethod)
                        and all(
                            isinstance(s_, ast.Assign) and len(s_.targets) == 1 and isinstance(s_.targets[0], ast.Name) and _is_path_expr(s_.value)
                            for s_ in body[:-1]
                        )
                        and len({s_.targets[0].id for s_ in body[:-1]}) == len(body) - 1
                        and not ({s_.targets[0].id for s_ in body[:-1]} & set(t.params))
                    ):
                        # named sub-expressions (`table = inst.table`) followed by the returned expression:
                        # the names are spelt out in the helper's own scope first, then the arguments go in
                        b = norm._bind(t, c, "x", subst_all=True)
                        if b is not None and not b[0]:
                            e = norm.xexpr(t, body[-1].value, depth - 1, _seen)
                            left = {n_.id for n_ in ast.walk(e) if isinstance(n_, ast.Name)} & {s_.targets[0].id for s_ in body[:-1]}
                            if not left:
                                return _Rename(b[1]).visit(copy.deepcopy(e))
                return c

        dup = copy.deepcopy(node)
        # copies of Name nodes remember the node they were copied from (the
        # reaching-definition look-up needs its place in the function)
        for a, b in zip(ast.walk(dup), ast.walk(node)):
            if isinstance(a, (ast.Name, ast.Attribute)):
                a._orig = getattr(b, "_orig", b)  # type: ignore[attr-defined]
        return X().visit(dup)

    def xtext(self, fi: FuncInfo, node: ast.AST) -> str:
        try:
            return ast.unparse(self.xexpr(fi, node))
        except Exception:
            return ast.unparse(node)
