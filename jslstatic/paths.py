"""E3 - statement-level path enumeration with call inlining.

``PathEngine.paths(entry)`` enumerates the acyclic paths of a function (loops
unrolled 0..``unroll`` times) as sequences of classified *events*, inlining
calls to package functions that transitively contain an event the client rule
declared relevant.  Rules are small automata over those sequences.

Expressions are atomic w.r.t. control flow: the events of every
sub-expression are emitted in source order (short-circuit operands and
comprehension bodies included), which over-approximates what a path may do.
"""

from __future__ import annotations

import ast
from dataclasses import dataclass, field
from typing import Callable, Iterable

from .repo import AnalysisError, ClassInfo, FuncInfo, Repo, body_of, dotted, own_nodes
from .resolve import Resolver

MUTATORS = {
    "append",
    "extend",
    "insert",
    "remove",
    "pop",
    "clear",
    "sort",
    "reverse",
    "update",
    "add",
    "discard",
    "popleft",
    "appendleft",
    "extendleft",
    "setdefault",
    "popitem",
    "fill",
    "put",
    "resize",
    "__setitem__",
    "__delitem__",
    "intersection_update",
    "difference_update",
    "symmetric_difference_update",
}


class Frame:
    _n = 0

    def __init__(self, fi, recv_cls, parent=None, call_node=None, bindings=None):
        Frame._n += 1
        self.id = Frame._n
        self.fi: FuncInfo = fi
        self.recv_cls: ClassInfo | None = recv_cls
        self.parent: Frame | None = parent
        self.call_node = call_node
        self.bindings: dict[str, ast.AST] = bindings or {}
        self.depth = 0 if parent is None else parent.depth + 1

    def chain(self) -> str:
        out = []
        f: Frame | None = self
        while f is not None:
            out.append(f.fi.qualname.split(".")[-1])
            f = f.parent
        return " <- ".join(out)


@dataclass
class Event:
    kind: str  # call enter exit write raise return branch
    node: ast.AST
    frame: Frame
    data: dict = field(default_factory=dict)

    @property
    def fi(self) -> FuncInfo:
        return self.frame.fi

    @property
    def loc(self) -> str:
        return self.frame.fi.loc(self.node)

    def short(self) -> str:
        d = self.data
        if self.kind == "call":
            return f"call {d.get('name')}@{self.loc}"
        if self.kind == "write":
            return f"write {d.get('text')}@{self.loc}"
        if self.kind == "raise":
            return f"raise {d.get('exc')}@{self.loc}"
        if self.kind == "branch":
            return f"{'if' if d.get('taken') else 'if-not'}({d.get('text')})"
        if self.kind == "enter":
            return f"enter {self.frame.fi.name}"
        if self.kind == "exit":
            return f"exit {self.frame.fi.name}"
        if self.kind == "return":
            return f"return@{self.loc}"
        return self.kind


@dataclass
class Path:
    events: tuple
    outcome: str  # return | raise | end

    def kinds(self, *ks) -> list[Event]:
        return [e for e in self.events if e.kind in ks]

    def describe(self, limit: int = 40) -> list[str]:
        out = [e.short() for e in self.events if e.kind != "branch"]
        return out[:limit]


NEXT, RETURN, RAISE, BREAK, CONTINUE = "next", "return", "raise", "break", "continue"


def chain_of(node: ast.AST) -> tuple[str | None, list[str]]:
    """``self.schedule[m].x`` -> ("self", ["schedule", "[]", "x"])."""
    parts: list[str] = []
    while True:
        if isinstance(node, ast.Attribute):
            parts.append(node.attr)
            node = node.value
        elif isinstance(node, ast.Subscript):
            parts.append("[]")
            node = node.value
        elif isinstance(node, ast.Call):
            f = node.func
            if isinstance(f, ast.Attribute):
                parts.append(f.attr + "()")
                node = f.value
            elif isinstance(f, ast.Name):
                parts.append("()")
                return f.id, list(reversed(parts))
            else:
                return None, list(reversed(parts))
        elif isinstance(node, ast.Name):
            return node.id, list(reversed(parts))
        else:
            return None, list(reversed(parts))


class PathEngine:
    def __init__(
        self,
        repo: Repo,
        res: Resolver,
        relevant: Callable[[Event], bool] | None = None,
        max_depth: int = 4,
        unroll: int = 1,
        budget: int = 20000,
        inline_filter: Callable[[FuncInfo], bool] | None = None,
        always_inline: Iterable[str] = (),
    ):
        self.repo = repo
        self.res = res
        self.relevant = relevant or (lambda e: e.kind in ("write", "raise"))
        self.max_depth = max_depth
        self.unroll = unroll
        self.budget = budget
        self.inline_filter = inline_filter
        self.always_inline = set(always_inline)
        self._rel_cache: dict[tuple, bool] = {}
        self.n_paths = 0
        self.inlined: set[str] = set()
        self.opaque_calls: set[str] = set()

    # ---------------------------------------------------------- relevance
    def flat_events(self, fi: FuncInfo, recv_cls=None) -> list[Event]:
        """All events of ``fi``'s own body, flow-insensitively, in source
        order (no inlining).  Also serves the effect summaries (E5)."""
        fr = Frame(fi, recv_cls or fi.cls)
        out: list[Event] = []
        for st in body_of(fi.node):
            for n in self._stmt_nodes(st):
                if isinstance(n, ast.Raise):
                    exc = None
                    if n.exc is not None:
                        f = n.exc.func if isinstance(n.exc, ast.Call) else n.exc
                        exc = dotted(f)
                    out.append(Event("raise", n, fr, {"exc": exc, "explicit": True}))
                elif isinstance(n, ast.Assert):
                    out.append(
                        Event("raise", n, fr, {"exc": "AssertionError", "explicit": True, "assert": True})
                    )
                elif isinstance(n, ast.Assign):
                    for t in n.targets:
                        out += self._store_events(t, fr, "assign", n)
                elif isinstance(n, ast.AnnAssign) and n.value is not None:
                    out += self._store_events(n.target, fr, "assign", n)
                elif isinstance(n, ast.AugAssign):
                    out += self._store_events(n.target, fr, "augassign", n)
                elif isinstance(n, ast.Delete):
                    for t in n.targets:
                        out += self._store_events(t, fr, "del", n)
                elif isinstance(n, ast.Return):
                    out.append(Event("return", n, fr, {"value": n.value}))
                out += self._node_events(n, fr)
        return out

    def func_relevant(self, fi: FuncInfo, recv_cls, _stack=()) -> bool:
        key = (fi.qualname, recv_cls.qualname if recv_cls else None)
        if key in self._rel_cache:
            return self._rel_cache[key]
        if key in _stack or len(_stack) > 8:
            return False
        result = False
        evs = self.flat_events(fi, recv_cls)
        fr = evs[0].frame if evs else Frame(fi, recv_cls)
        for ev in evs:
            if self.relevant(ev):
                result = True
                break
        if not result and not isinstance(fi.node, ast.Lambda):
            # branch / loop events exist only on enumerated paths: probe the
            # filter with the tests and loops of the body, so that a helper
            # which only decides something (returns inside a loop / an if) is
            # entered when the rule asks for branches or loops
            for n in own_nodes(fi.node):
                probe = None
                if isinstance(n, (ast.If, ast.While, ast.IfExp)):
                    probe = Event("branch", n.test, fr, {"taken": True, "text": ast.unparse(n.test)[:100]})
                elif isinstance(n, ast.For):
                    probe = Event("loop", n, fr, {"phase": "enter"})
                if probe is None:
                    continue
                try:
                    if self.relevant(probe):
                        result = True
                        break
                except Exception:
                    continue
        if not result:
            for ev in evs:
                if ev.kind != "call":
                    continue
                for t in ev.data.get("targets", []):
                    if isinstance(t.node, ast.Lambda):
                        continue
                    rc = self._callee_recv(ev, t, fr)
                    if self.func_relevant(t, rc, _stack + (key,)):
                        result = True
                        break
                if result:
                    break
        self._rel_cache[key] = result
        return result

    @staticmethod
    def _stmt_nodes(st):
        stack = [st]
        while stack:
            n = stack.pop()
            if isinstance(n, (ast.FunctionDef, ast.ClassDef, ast.Lambda)) and n is not st:
                continue
            yield n
            stack.extend(reversed(list(ast.iter_child_nodes(n))))

    # -------------------------------------------------------- expressions
    def _callee_recv(self, ev: Event, target: FuncInfo, fr: Frame):
        """Receiver class for an inlined method call."""
        node = ev.node
        if target.cls is None:
            return None
        if isinstance(node, ast.Call):
            f = node.func
            if isinstance(f, ast.Attribute):
                if (
                    isinstance(f.value, ast.Call)
                    and isinstance(f.value.func, ast.Name)
                    and f.value.func.id == "super"
                ):
                    return fr.recv_cls or fr.fi.cls
                if self.res._is_self(fr.fi, f.value):
                    return fr.recv_cls or fr.fi.cls
                for c in self.res.classes_of(fr.fi, f.value, fr.recv_cls):
                    c = c[5:] if c.startswith("type:") else c
                    ci = self.repo.classes.get(c)
                    if ci and target.cls.qualname in ci.mro:
                        return ci
            elif isinstance(f, ast.Name):
                q = self.repo.resolve(fr.fi.module.name, f.id)
                if q in self.repo.classes:
                    return self.repo.classes[q]
        elif isinstance(node, ast.Attribute):
            if self.res._is_self(fr.fi, node.value):
                return fr.recv_cls or fr.fi.cls
            for c in self.res.classes_of(fr.fi, node.value, fr.recv_cls):
                ci = self.repo.classes.get(c)
                if ci and target.cls.qualname in ci.mro:
                    return ci
        return target.cls

    def _node_events(self, n: ast.AST, fr: Frame) -> list[Event]:
        """Events contributed by the single node ``n`` (not its children)."""
        out: list[Event] = []
        fi = fr.fi
        if isinstance(n, ast.Call):
            targets, name = self.res.callees(fi, n, fr.recv_cls)
            f = n.func
            data = {
                "targets": targets,
                "name": name,
                "attr": f.attr if isinstance(f, ast.Attribute) else None,
                "recv": f.value if isinstance(f, ast.Attribute) else None,
                "text": ast.unparse(n)[:120],
            }
            out.append(Event("call", n, fr, data))
            if (
                isinstance(f, ast.Attribute)
                and f.attr in MUTATORS
                and not targets
            ):
                root, ch = chain_of(f.value)
                out.append(
                    Event(
                        "write",
                        n,
                        fr,
                        {
                            "op": "mutcall",
                            "method": f.attr,
                            "root": root,
                            "chain": ch,
                            "target": f.value,
                            "text": ast.unparse(n)[:120],
                        },
                    )
                )
        elif isinstance(n, ast.Attribute):
            if isinstance(n.ctx, ast.Load):
                pt = self.res.property_target(fi, n, fr.recv_cls)
                if pt is not None:
                    out.append(
                        Event(
                            "call",
                            n,
                            fr,
                            {
                                "targets": [pt],
                                "name": pt.qualname,
                                "attr": n.attr,
                                "recv": n.value,
                                "property": True,
                                "text": ast.unparse(n)[:120],
                            },
                        )
                    )
        return out

    def _store_events(self, target: ast.AST, fr: Frame, op: str, stmt) -> list[Event]:
        out: list[Event] = []
        if isinstance(target, (ast.Tuple, ast.List)):
            for e in target.elts:
                out += self._store_events(e, fr, op, stmt)
            return out
        if isinstance(target, ast.Starred):
            return self._store_events(target.value, fr, op, stmt)
        if isinstance(target, ast.Name):
            out.append(
                Event(
                    "write",
                    stmt,
                    fr,
                    {
                        "op": op,
                        "root": target.id,
                        "chain": [],
                        "target": target,
                        "local": True,
                        "text": ast.unparse(stmt)[:120],
                    },
                )
            )
            return out
        if isinstance(target, (ast.Attribute, ast.Subscript)):
            root, ch = chain_of(target)
            if isinstance(target, ast.Attribute):
                st = self.res.property_target(fr.fi, target, fr.recv_cls)
                if st is not None:
                    out.append(
                        Event(
                            "call",
                            target,
                            fr,
                            {
                                "targets": [st],
                                "name": st.qualname,
                                "attr": target.attr,
                                "recv": target.value,
                                "property": True,
                                "setter": True,
                                "value": getattr(stmt, "value", None),
                                "text": ast.unparse(stmt)[:120],
                            },
                        )
                    )
                    return out
            out.append(
                Event(
                    "write",
                    stmt,
                    fr,
                    {
                        "op": op,
                        "root": root,
                        "chain": ch,
                        "target": target,
                        "text": ast.unparse(stmt)[:120],
                    },
                )
            )
        return out

    def _expr_paths(self, expr: ast.AST | None, fr: Frame) -> list[tuple[tuple, str]]:
        """Paths through the evaluation of ``expr``: list of
        (events, outcome) with outcome NEXT or RAISE."""
        if expr is None:
            return [((), NEXT)]
        # collect nodes in evaluation (post-)order
        ordered: list[ast.AST] = []

        def visit(n):
            if isinstance(n, (ast.Lambda, ast.FunctionDef, ast.ClassDef)):
                return
            for c in ast.iter_child_nodes(n):
                visit(c)
            ordered.append(n)

        visit(expr)
        partial: list[tuple[tuple, str]] = [((), NEXT)]
        for n in ordered:
            evs = self._node_events(n, fr)
            if not evs:
                continue
            for ev in evs:
                if ev.kind == "call":
                    sub = self._call_paths(ev, fr)
                else:
                    sub = [((ev,), NEXT)]
                partial = self._seq(partial, sub)
        return partial

    def _seq(self, partial, sub):
        out = []
        for evs, oc in partial:
            if oc != NEXT:
                out.append((evs, oc))
                continue
            for evs2, oc2 in sub:
                out.append((evs + evs2, oc2))
        if len(out) > self.budget:
            raise AnalysisError(
                f"path budget exceeded ({len(out)} > {self.budget})"
            )
        return out

    def _should_inline(self, target: FuncInfo, rc, fr: Frame) -> bool:
        if isinstance(target.node, ast.Lambda):
            return False
        if target.qualname in self.always_inline:
            return fr.depth < self.max_depth + 2
        if fr.depth >= self.max_depth:
            return False
        # recursion guard
        f: Frame | None = fr
        while f is not None:
            if f.fi.qualname == target.qualname:
                return False
            f = f.parent
        if self.inline_filter is not None and not self.inline_filter(target):
            return False
        return self.func_relevant(target, rc)

    def _bind(self, ev: Event, target: FuncInfo) -> dict[str, ast.AST]:
        node = ev.node
        b: dict[str, ast.AST] = {}
        params = target.params
        is_method = target.cls is not None and not target.is_static
        if isinstance(node, ast.Call):
            ps = params[1:] if is_method and params else params
            # constructor call: Class(...) -> __init__(self, ...)
            for p, a in zip(ps, node.args):
                b[p] = a
            for kw in node.keywords:
                if kw.arg:
                    b[kw.arg] = kw.value
            if is_method and params and isinstance(node.func, ast.Attribute):
                b[params[0]] = node.func.value
            # an omitted parameter has its default: literal flags decide their
            # branches in the callee (`if zero_first:` with zero_first=True)
            a = target.node.args
            pos = a.posonlyargs + a.args
            for p_, d in list(zip(pos[len(pos) - len(a.defaults):], a.defaults)) + [(k, d) for k, d in zip(a.kwonlyargs, a.kw_defaults) if d is not None]:
                if p_.arg not in b and isinstance(d, ast.Constant) and not any(k.arg is None for k in node.keywords) and not any(isinstance(x, ast.Starred) for x in node.args):
                    b[p_.arg] = d
        elif isinstance(node, ast.Attribute):
            if params:
                b[params[0]] = node.value
            if ev.data.get("setter") and len(params) > 1:
                v = ev.data.get("value")
                if v is not None:
                    b[params[1]] = v
        return b

    def _call_paths(self, ev: Event, fr: Frame):
        targets = ev.data.get("targets") or []
        out = []
        inl = []
        for t in targets:
            rc = self._callee_recv(ev, t, fr)
            if self._should_inline(t, rc, fr):
                inl.append((t, rc))
        if not inl:
            ev.data["inlined"] = False
            if targets:
                self.opaque_calls.add(targets[0].qualname)
            return [((ev,), NEXT)]
        ev.data["inlined"] = True
        for t, rc in inl:
            self.inlined.add(t.qualname)
            sub = Frame(t, rc, fr, ev.node, self._bind(ev, t))
            enter = Event("enter", ev.node, sub, {"call": ev})
            exit_ = Event("exit", ev.node, sub, {"call": ev})
            for evs, oc in self._block_paths(body_of(t.node), sub):
                if oc == RAISE:
                    out.append(((ev, enter) + evs, RAISE))
                else:
                    out.append(((ev, enter) + evs + (exit_,), NEXT))
        return out

    # ---------------------------------------------------------- statements
    def _block_paths(self, stmts: list[ast.stmt], fr: Frame):
        partial = [((), NEXT)]
        for st in stmts:
            if all(oc != NEXT for _, oc in partial):
                break
            sub = self._stmt_paths(st, fr)
            partial = self._seq(partial, sub)
        return partial

    @staticmethod
    def _const_test(test, fr):
        """Truth of a test on a parameter of an inlined callee that the call
        binds to a literal (explicitly or by default) and the callee never
        rebinds; None when not decided."""
        if fr.parent is None:
            return None
        neg = False
        t = test
        while isinstance(t, ast.UnaryOp) and isinstance(t.op, ast.Not):
            t, neg = t.operand, not neg
        val = None
        if isinstance(t, ast.Name):
            name, kind = t.id, "truth"
        elif (
            isinstance(t, ast.Compare) and len(t.ops) == 1 and isinstance(t.left, ast.Name)
            and isinstance(t.ops[0], (ast.Is, ast.IsNot)) and isinstance(t.comparators[0], ast.Constant) and t.comparators[0].value is None
        ):
            name, kind = t.left.id, ("isnone" if isinstance(t.ops[0], ast.Is) else "isnotnone")
        else:
            return None
        def stored_in(frame):
            st_ = getattr(frame.fi, "_stored_names", None)
            if st_ is None:
                st_ = {x.id for x in ast.walk(frame.fi.node) if isinstance(x, ast.Name) and isinstance(x.ctx, (ast.Store, ast.Del))}
                try:
                    frame.fi._stored_names = st_
                except Exception:  # pragma: no cover
                    pass
            return st_

        # the literal may be handed down through several inlined frames
        # (`subscribe=False` -> `super().__init__(d, subscribe=subscribe)`)
        cur, b = fr, None
        for _hop in range(6):
            if cur.parent is None or name in stored_in(cur):
                return None
            b = cur.bindings.get(name)
            if isinstance(b, ast.Name) and b.id in (cur.parent.fi.params or []):
                cur, name = cur.parent, b.id
                continue
            break
        if not isinstance(b, ast.Constant):
            return None
        if kind == "truth":
            val = bool(b.value)
        elif kind == "isnone":
            val = b.value is None
        else:
            val = b.value is not None
        return (not val) if neg else val

    def _branch(self, test, taken, fr):
        return Event(
            "branch",
            test,
            fr,
            {"taken": taken, "text": ast.unparse(test)[:100]},
        )

    def _stmt_paths(self, st: ast.stmt, fr: Frame):
        if isinstance(st, ast.Expr):
            return self._expr_paths(st.value, fr)
        if isinstance(st, ast.Assign):
            p = self._expr_paths(st.value, fr)
            for t in st.targets:
                # evaluation of subscript/attribute bases in targets
                if not isinstance(t, ast.Name):
                    p = self._seq(p, self._target_expr_paths(t, fr))
            evs: list = []
            for t in st.targets:
                evs += self._store_events(t, fr, "assign", st)
            return self._seq_events(p, evs, fr)
        if isinstance(st, ast.AnnAssign):
            if st.value is None:
                return [((), NEXT)]
            p = self._expr_paths(st.value, fr)
            if not isinstance(st.target, ast.Name):
                p = self._seq(p, self._target_expr_paths(st.target, fr))
            return self._seq_events(
                p, self._store_events(st.target, fr, "assign", st), fr
            )
        if isinstance(st, ast.AugAssign):
            p = self._expr_paths(st.value, fr)
            if not isinstance(st.target, ast.Name):
                p = self._seq(p, self._target_expr_paths(st.target, fr))
            return self._seq_events(
                p, self._store_events(st.target, fr, "augassign", st), fr
            )
        if isinstance(st, ast.Delete):
            evs = []
            p = [((), NEXT)]
            for t in st.targets:
                if not isinstance(t, ast.Name):
                    p = self._seq(p, self._target_expr_paths(t, fr))
                evs += self._store_events(t, fr, "del", st)
            return self._seq_events(p, evs, fr)
        if isinstance(st, ast.Return):
            p = self._expr_paths(st.value, fr)
            ev = Event("return", st, fr, {"value": st.value})
            return [
                (e + (ev,), RETURN) if oc == NEXT else (e, oc) for e, oc in p
            ]
        if isinstance(st, ast.Raise):
            p = self._expr_paths(st.exc, fr)
            exc = None
            if st.exc is not None:
                f = st.exc.func if isinstance(st.exc, ast.Call) else st.exc
                exc = dotted(f)
            ev = Event("raise", st, fr, {"exc": exc, "explicit": True})
            return [
                (e + (ev,), RAISE) if oc == NEXT else (e, oc) for e, oc in p
            ]
        if isinstance(st, ast.Assert):
            p = self._expr_paths(st.test, fr)
            ok = self._branch(st.test, True, fr)
            bad = self._branch(st.test, False, fr)
            rz = Event("raise", st, fr, {"exc": "AssertionError", "explicit": True, "assert": True})
            out = []
            for e, oc in p:
                if oc != NEXT:
                    out.append((e, oc))
                else:
                    out.append((e + (ok,), NEXT))
                    out.append((e + (bad, rz), RAISE))
            return out
        if isinstance(st, ast.If):
            p = self._expr_paths(st.test, fr)
            t_paths = self._block_paths(st.body, fr)
            f_paths = self._block_paths(st.orelse, fr) if st.orelse else [((), NEXT)]
            tb = self._branch(st.test, True, fr)
            fb = self._branch(st.test, False, fr)
            decided = self._const_test(st.test, fr)
            out = []
            for e, oc in p:
                if oc != NEXT:
                    out.append((e, oc))
                    continue
                if decided is not False:
                    for e2, oc2 in t_paths:
                        out.append((e + ((tb,) if decided is None else ()) + e2, oc2))
                if decided is not True:
                    for e2, oc2 in f_paths:
                        out.append((e + ((fb,) if decided is None else ()) + e2, oc2))
            self._check_budget(out)
            return out
        if isinstance(st, (ast.For, ast.AsyncFor)):
            p = self._expr_paths(st.iter, fr)
            tgt_evs = self._store_events(st.target, fr, "loopvar", st)
            return self._loop(p, st, fr, tgt_evs, None)
        if isinstance(st, ast.While):
            return self._loop([((), NEXT)], st, fr, [], st.test)
        if isinstance(st, (ast.With, ast.AsyncWith)):
            p = [((), NEXT)]
            for item in st.items:
                p = self._seq(p, self._expr_paths(item.context_expr, fr))
            return self._seq(p, self._block_paths(st.body, fr))
        if isinstance(st, ast.Try):
            body = self._block_paths(st.body, fr)
            out = []
            for e, oc in body:
                if oc == RAISE and st.handlers:
                    for h in st.handlers:
                        for e2, oc2 in self._block_paths(h.body, fr):
                            out.append((e + e2, oc2))
                else:
                    out.append((e, oc))
            if st.orelse:
                out = self._seq(out, self._block_paths(st.orelse, fr))
            if st.finalbody:
                fin = self._block_paths(st.finalbody, fr)
                res = []
                for e, oc in out:
                    for e2, oc2 in fin:
                        res.append((e + e2, oc if oc2 == NEXT else oc2))
                out = res
            return out
        if isinstance(st, ast.Break):
            return [((), BREAK)]
        if isinstance(st, ast.Continue):
            return [((), CONTINUE)]
        if isinstance(
            st,
            (
                ast.Pass,
                ast.Import,
                ast.ImportFrom,
                ast.Global,
                ast.Nonlocal,
                ast.FunctionDef,
                ast.AsyncFunctionDef,
                ast.ClassDef,
            ),
        ):
            return [((), NEXT)]
        if isinstance(st, ast.Match):
            # each case is a branch on a synthetic test; cases are tried in
            # order; without an irrefutable case the statement may fall through
            p = self._expr_paths(st.subject, fr)
            out = []
            prefix_fail: tuple = ()
            irrefutable = False
            for case in st.cases:
                test = ast.Compare(left=st.subject, ops=[ast.Eq()], comparators=[ast.Constant(value=ast.unparse(case.pattern))])
                ast.copy_location(test, case.pattern)
                ast.fix_missing_locations(test)
                tb = Event("branch", test, fr, {"taken": True, "text": f"match {ast.unparse(st.subject)}: case {ast.unparse(case.pattern)}"[:100]})
                fb = Event("branch", test, fr, {"taken": False, "text": tb.data["text"]})
                gp = self._expr_paths(case.guard, fr) if case.guard is not None else [((), NEXT)]
                body = self._block_paths(case.body, fr)
                for e, oc in p:
                    if oc != NEXT:
                        continue
                    for ge, goc in gp:
                        if goc != NEXT:
                            out.append((e + prefix_fail + (tb,) + ge, goc))
                            continue
                        for be, boc in body:
                            out.append((e + prefix_fail + (tb,) + ge + be, boc))
                prefix_fail = prefix_fail + (fb,)
                if case.guard is None and isinstance(case.pattern, ast.MatchAs) and case.pattern.pattern is None:
                    irrefutable = True
                    break
            for e, oc in p:
                if oc != NEXT:
                    out.append((e, oc))
                elif not irrefutable:
                    out.append((e + prefix_fail, NEXT))
            self._check_budget(out)
            return out
        raise AnalysisError(
            f"statement kind {type(st).__name__} not modelled at {fr.fi.loc(st)}"
        )

    def _target_expr_paths(self, t, fr):
        """Sub-expressions evaluated inside a store target (the base object
        and subscripts), not the store itself."""
        p = [((), NEXT)]
        if isinstance(t, (ast.Tuple, ast.List)):
            for e in t.elts:
                p = self._seq(p, self._target_expr_paths(e, fr))
            return p
        if isinstance(t, ast.Attribute):
            return self._expr_paths(t.value, fr)
        if isinstance(t, ast.Subscript):
            p = self._expr_paths(t.value, fr)
            return self._seq(p, self._expr_paths(t.slice, fr))
        if isinstance(t, ast.Starred):
            return self._target_expr_paths(t.value, fr)
        return p

    def _seq_events(self, p, evs: list, fr: Frame):
        for ev in evs:
            if ev.kind == "call":
                p = self._seq(p, self._call_paths(ev, fr))
            else:
                p = self._seq(p, [((ev,), NEXT)])
        return p

    def _check_budget(self, out):
        if len(out) > self.budget:
            raise AnalysisError(
                f"path budget exceeded ({len(out)} > {self.budget})"
            )

    def _loop(self, head, st, fr, tgt_evs, test):
        """0..unroll iterations; ``test`` is the while condition or None."""
        body = self._block_paths(st.body, fr)
        orelse = self._block_paths(st.orelse, fr) if st.orelse else [((), NEXT)]
        enter = Event("loop", st, fr, {"phase": "enter"})
        leave = Event("loop", st, fr, {"phase": "exit"})
        results = []
        # state: list of (events, outcome) where NEXT means "about to test"
        frontier = [(e + (enter,), oc) if oc == NEXT else (e, oc) for e, oc in head]
        for k in range(self.unroll + 1):
            new_frontier = []
            for e, oc in frontier:
                if oc != NEXT:
                    results.append((e, oc))
                    continue
                if test is not None:
                    tp = self._expr_paths(test, fr)
                else:
                    tp = [((), NEXT)]
                for te, toc in tp:
                    if toc != NEXT:
                        results.append((e + te, toc))
                        continue
                    # exit the loop normally
                    ex = e + te
                    if test is not None:
                        ex = ex + (self._branch(test, False, fr),)
                    for oe, ooc in orelse:
                        results.append((ex + (leave,) + oe, ooc))
                    if k == self.unroll:
                        continue
                    # one more iteration
                    it = e + te
                    if test is not None:
                        it = it + (self._branch(test, True, fr),)
                    it = it + (Event("loop", st, fr, {"phase": "iter", "k": k}),) + tuple(tgt_evs)
                    for be, boc in body:
                        if boc in (NEXT, CONTINUE):
                            new_frontier.append((it + be, NEXT))
                        elif boc == BREAK:
                            results.append((it + be + (leave,), NEXT))
                        else:
                            results.append((it + be, boc))
            frontier = new_frontier
            self._check_budget(results)
            self._check_budget(frontier)
        return results

    # --------------------------------------------------------------- entry
    def paths(self, entry: FuncInfo, recv_cls: ClassInfo | None = None) -> list[Path]:
        fr = Frame(entry, recv_cls or entry.cls)
        raw = self._block_paths(body_of(entry.node), fr)
        out = []
        for evs, oc in raw:
            if oc in (BREAK, CONTINUE):
                raise AnalysisError(f"break/continue escaped in {entry.qualname}")
            out.append(Path(evs, "end" if oc == NEXT else oc))
        self.n_paths += len(out)
        return out
