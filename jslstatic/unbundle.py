"""Scalar replacement of private aggregates.

A rewrite that several independent refactors made (DESIGN.md section 8, round
5): a handful of private attributes of a class are bundled in a private
dataclass kept in ONE attribute,

    self._progress = _Progress(machine_free=[0] * m, job_free=[0] * n)
    ...
    self._progress.machine_free[k] = t        # or: p = self._progress; p.x

All attribute-level analyses of this package (write sets, reset covers, role
finders, counters) work on first-level attributes of ``self``.  Instead of
teaching every rule about nested state, this pre-pass undoes the bundling on
the source before the program model and the type table are built - the
classical *scalar replacement of aggregates* of optimising compilers, on
source level:

    self._progress.machine_free      ->  self._progress__machine_free
    self._progress.advance(op)       ->  self._progress__advance(op)   (method
                                         of the bundle copied into the owner)
    self._progress = _Progress(a=x)  ->  self._progress__a = x; ...defaults...
    self._progress = _Progress.initial(i) -> self._progress__initial(i)
    p = self._progress               ->  (removed; p.x treated as above)

It is applied only when it is certainly behaviour-preserving: the bundle class
is private, defined in the same module, has no bases and only plain fields,
methods, read-only properties and ``cls(...)``-returning classmethods; the
bundle object never escapes (every use of ``self._x`` is a field access, a
method call, a whole-object rebinding from a constructor/factory call, or a
never-rebound local alias used in the same ways); no other code in the package
mentions an attribute of that name.  Anything else leaves the module untouched
(and the rules then refuse or decide as before).  The pass never fires on the
pinned tree; it exists for the shapes a later change may introduce.
"""
from __future__ import annotations

import ast
import os
import copy

SEP = "__"


class _Abort(Exception):
    pass


def _dotted(node):
    parts = []
    while isinstance(node, ast.Attribute):
        parts.append(node.attr)
        node = node.value
    if isinstance(node, ast.Name):
        parts.append(node.id)
        return ".".join(reversed(parts))
    return None


def _deco_name(d):
    if isinstance(d, ast.Call):
        d = d.func
    return _dotted(d) or ""


class _Bundle:
    def __init__(self, node: ast.ClassDef):
        self.node = node
        self.name = node.name
        self.is_dataclass = any(
            _deco_name(d) in ("dataclass", "dataclasses.dataclass")
            for d in node.decorator_list
        )
        # (name, default expr or None, in_init)
        self.fields: list[tuple[str, ast.expr | None, bool]] = []
        self.methods: dict[str, ast.FunctionDef] = {}
        self.props: dict[str, ast.FunctionDef] = {}
        self.factories: dict[str, ast.FunctionDef] = {}
        self.statics: dict[str, ast.FunctionDef] = {}
        self.init: ast.FunctionDef | None = None
        self._parse()

    @property
    def field_names(self):
        return {f[0] for f in self.fields}

    def _parse(self):
        n = self.node
        self.is_namedtuple = False
        if len(n.bases) == 1 and not n.keywords and _dotted(n.bases[0]) in ("NamedTuple", "typing.NamedTuple") and not n.decorator_list:
            # an immutable record: fields like a dataclass, rebuilt with _replace
            self.is_namedtuple = True
            self.is_dataclass = True
        elif n.bases or n.keywords:
            raise _Abort("bundle class has bases")
        for d in n.decorator_list:
            if _deco_name(d) not in ("dataclass", "dataclasses.dataclass"):
                raise _Abort("bundle class has a foreign decorator")
        for item in n.body:
            if isinstance(item, ast.Expr) and isinstance(item.value, ast.Constant):
                continue  # docstrings (also attribute docstrings)
            if isinstance(item, ast.Pass):
                continue
            if isinstance(item, ast.AnnAssign) and isinstance(item.target, ast.Name):
                if not self.is_dataclass:
                    if item.value is None:
                        continue  # bare declaration
                    raise _Abort("class-level value in a plain bundle class")
                ann = ast.unparse(item.annotation)
                if "ClassVar" in ann or "InitVar" in ann:
                    raise _Abort("ClassVar/InitVar field")
                self.fields.append((item.target.id, *self._default(item.value)))
                continue
            if isinstance(item, ast.Assign) and len(item.targets) == 1 and isinstance(item.targets[0], ast.Name) and item.targets[0].id == "__slots__":
                continue
            if isinstance(item, ast.FunctionDef):
                self._method(item)
                continue
            raise _Abort(f"unsupported member in bundle class: {type(item).__name__}")
        if not self.is_dataclass:
            if self.init is None:
                raise _Abort("plain bundle class without __init__")
            names = []
            for m in [self.init, *self.methods.values(), *self.props.values()]:
                me = m.args.args[0].arg if m.args.args else None
                for x in ast.walk(m):
                    if isinstance(x, ast.Attribute) and isinstance(x.ctx, ast.Store) and isinstance(x.value, ast.Name) and x.value.id == me:
                        if x.attr not in names:
                            names.append(x.attr)
            self.fields = [(f, None, True) for f in names]
        if not self.fields:
            raise _Abort("bundle without fields")
        clash = self.field_names & (set(self.methods) | set(self.props) | set(self.factories))
        if clash:
            raise _Abort("field/method name clash")

    @staticmethod
    def _default(value):
        if value is None:
            return None, True
        if isinstance(value, ast.Call) and _dotted(value.func) in ("field", "dataclasses.field"):
            if value.args:
                raise _Abort("positional field() argument")
            default = None
            in_init = True
            for kw in value.keywords:
                if kw.arg == "default":
                    default = kw.value
                elif kw.arg == "default_factory":
                    f = kw.value
                    if isinstance(f, ast.Lambda):
                        a = f.args
                        if a.args or a.posonlyargs or a.kwonlyargs or a.vararg or a.kwarg:
                            raise _Abort("default_factory lambda with parameters")
                        default = f.body
                    else:
                        default = ast.Call(func=f, args=[], keywords=[])
                elif kw.arg == "init":
                    if not (isinstance(kw.value, ast.Constant) and isinstance(kw.value.value, bool)):
                        raise _Abort("non-literal init=")
                    in_init = kw.value.value
                elif kw.arg in ("repr", "compare", "hash", "metadata", "kw_only"):
                    if kw.arg == "kw_only":
                        raise _Abort("kw_only field")
                else:
                    raise _Abort("unknown field() keyword")
            return default, in_init
        return value, True

    def _method(self, f: ast.FunctionDef):
        decos = [_deco_name(d) for d in f.decorator_list]
        a = f.args
        if a.vararg or a.kwarg or a.posonlyargs:
            raise _Abort("bundle method with */** parameters")
        if f.name.startswith("__") and f.name.endswith("__"):
            if f.name == "__init__" and not self.is_dataclass and not decos:
                self.init = f
                return
            raise _Abort(f"special method {f.name} in bundle class")
        if not decos:
            if not a.args:
                raise _Abort("method without self")
            self.methods[f.name] = f
        elif decos == ["property"]:
            self.props[f.name] = f
        elif decos == ["classmethod"]:
            self.factories[f.name] = f
        elif decos == ["staticmethod"]:
            if any(isinstance(x, ast.Name) and x.id == self.name for x in ast.walk(f)):
                raise _Abort("static bundle method names its class")
            self.statics[f.name] = f
        else:
            raise _Abort(f"decorated bundle method {f.name}")
        for x in ast.walk(f):
            if isinstance(x, (ast.Yield, ast.YieldFrom, ast.Await)):
                raise _Abort("generator/async bundle method")


def _parents(tree):
    par = {}
    for p in ast.walk(tree):
        for c in ast.iter_child_nodes(p):
            par[c] = p
    return par


def _self_name(f):
    if isinstance(f, ast.Lambda):
        return None
    decos = [_deco_name(d) for d in f.decorator_list]
    if "staticmethod" in decos or "classmethod" in decos:
        return None
    return f.args.args[0].arg if f.args.args else None


def _is_self_attr(n, me, attr):
    return isinstance(n, ast.Attribute) and n.attr == attr and isinstance(n.value, ast.Name) and n.value.id == me


class _Owner:
    """One (class, attribute, bundle) triple and its rewrite."""

    def __init__(self, cls: ast.ClassDef, attr: str, bundle: _Bundle, mod_factories=None):
        self.cls = cls
        self.attr = attr
        self.b = bundle
        # private module-level functions whose every return is B(...)
        self.mod_factories: dict[str, ast.FunctionDef] = dict(mod_factories or {})
        self.added: list[ast.FunctionDef] = []
        self.need: set[str] = set()

    def fname(self, f):
        return f"{self.attr}{SEP}{f}"

    # -- construction ------------------------------------------------------
    def _ctor_assigns(self, me, call: ast.Call, at):
        b = self.b
        if any(isinstance(a, ast.Starred) for a in call.args) or any(k.arg is None for k in call.keywords):
            raise _Abort("*args/**kwargs in bundle construction")
        if not b.is_dataclass:
            self.need.add("__init__")
            new = ast.Expr(ast.Call(
                func=ast.Attribute(ast.Name(me, ast.Load()), self.fname("init"), ast.Load()),
                args=call.args, keywords=call.keywords))
            return [ast.copy_location(new, at)]
        init_fields = [f for f in b.fields if f[2]]
        if len(call.args) > len(init_fields):
            raise _Abort("too many constructor arguments")
        given = {}
        for f, a in zip(init_fields, call.args):
            given[f[0]] = a
        for k in call.keywords:
            if k.arg in given or k.arg not in {f[0] for f in init_fields}:
                raise _Abort("unknown/duplicate constructor keyword")
            given[k.arg] = k.value
        out = []
        for name, default, _ in b.fields:
            v = given.get(name)
            if v is None:
                if default is None:
                    raise _Abort(f"required field {name} not given")
                v = copy.deepcopy(default)
            for x in ast.walk(v):
                if _is_self_attr(x, me, self.attr):
                    raise _Abort("constructor argument reads the bundle being replaced")
            st = ast.Assign(
                targets=[ast.Attribute(ast.Name(me, ast.Load()), self.fname(name), ast.Store())],
                value=v)
            out.append(ast.copy_location(st, at))
        return out

    def _construction(self, me, value, at):
        """Statements replacing ``self.attr = value`` or None if value is no
        construction of the bundle."""
        if not isinstance(value, ast.Call):
            return None
        f = value.func
        if (
            self.b.is_namedtuple and isinstance(f, ast.Attribute) and f.attr == "_replace"
            and _is_self_attr(f.value, me, self.attr) and not value.args
        ):
            # self.x = self.x._replace(k=v, ...)
            kws = value.keywords
            if any(k.arg is None or k.arg not in self.b.field_names for k in kws):
                raise _Abort("_replace with unknown fields")
            reads = [k for k in kws if any(_is_self_attr(x, me, self.attr) for x in ast.walk(k.value))]
            if len(kws) > 1 and reads:
                raise _Abort("_replace of several fields that read the record")
            out = []
            for k in kws:
                st = ast.Assign(targets=[ast.Attribute(ast.Name(me, ast.Load()), self.fname(k.arg), ast.Store())], value=k.value)
                out.append(ast.copy_location(st, at))
            return out or [ast.copy_location(ast.Pass(), at)]
        if isinstance(f, ast.Name) and f.id == self.b.name:
            return self._ctor_assigns(me, value, at)
        if (
            self.b.is_namedtuple and isinstance(f, ast.Attribute) and _is_self_attr(f.value, me, self.attr)
            and f.attr in self.b.methods and self._is_updater(self.b.methods[f.attr])
        ):
            # self.x = self.x.advanced(...)  where advanced returns self._replace(...)
            self.need.add("=" + f.attr)
            new = ast.Expr(ast.Call(
                func=ast.Attribute(ast.Name(me, ast.Load()), self.fname("set_" + f.attr), ast.Load()),
                args=value.args, keywords=value.keywords))
            return [ast.copy_location(new, at)]
        if (
            self.b.is_dataclass and isinstance(f, ast.Attribute) and _is_self_attr(f.value, me, self.attr)
            and f.attr in self.b.methods and self._is_rebuilder(self.b.methods[f.attr])
        ):
            # self.x = self.x.restarted(...)  where restarted returns B(f=self.f, ...)
            self.need.add("=" + f.attr)
            new = ast.Expr(ast.Call(
                func=ast.Attribute(ast.Name(me, ast.Load()), self.fname("set_" + f.attr), ast.Load()),
                args=value.args, keywords=value.keywords))
            return [ast.copy_location(new, at)]
        if isinstance(f, ast.Name) and f.id in self.mod_factories:
            self.need.add("." + f.id)
            new = ast.Expr(ast.Call(
                func=ast.Attribute(ast.Name(me, ast.Load()), self.fname(f.id.lstrip("_")), ast.Load()),
                args=value.args, keywords=value.keywords))
            return [ast.copy_location(new, at)]
        if isinstance(f, ast.Attribute) and isinstance(f.value, ast.Name) and f.value.id == self.b.name and f.attr in self.b.factories:
            self.need.add(f.attr)
            new = ast.Expr(ast.Call(
                func=ast.Attribute(ast.Name(me, ast.Load()), self.fname(f.attr), ast.Load()),
                args=value.args, keywords=value.keywords))
            return [ast.copy_location(new, at)]
        return None

    def _is_rebuilder(self, m: ast.FunctionDef) -> bool:
        """The method's body is ``return <Bundle>(...)``: the record rebuilt
        from its own fields."""
        body = [x for x in m.body if not (isinstance(x, ast.Expr) and isinstance(x.value, ast.Constant))]
        if len(body) != 1 or not isinstance(body[0], ast.Return) or not m.args.args:
            return False
        v = body[0].value
        return (
            isinstance(v, ast.Call) and isinstance(v.func, ast.Name) and v.func.id == self.b.name
            and not any(isinstance(a, ast.Starred) for a in v.args) and all(k.arg is not None for k in v.keywords)
        )

    @staticmethod
    def _is_updater(m: ast.FunctionDef) -> bool:
        """The method's body is ``return self._replace(k=v, ...)``."""
        body = [x for x in m.body if not (isinstance(x, ast.Expr) and isinstance(x.value, ast.Constant))]
        if len(body) != 1 or not isinstance(body[0], ast.Return) or not m.args.args:
            return False
        v = body[0].value
        me = m.args.args[0].arg
        return (
            isinstance(v, ast.Call) and isinstance(v.func, ast.Attribute) and v.func.attr == "_replace"
            and isinstance(v.func.value, ast.Name) and v.func.value.id == me and not v.args
            and all(k.arg is not None for k in v.keywords)
        )

    # -- uses --------------------------------------------------------------
    def _rewrite_use(self, base_is, root, me):
        """Rewrite every ``<base>.member`` under ``root`` where base_is(node)
        says node denotes the bundle.  Returns the set of nodes that denote
        the bundle and were NOT consumed (bare uses)."""
        par = _parents(root)
        bare = []
        for n in list(ast.walk(root)):
            if not base_is(n):
                continue
            p = par.get(n)
            if isinstance(p, ast.Attribute) and p.value is n:
                m = p.attr
                if m in self.b.field_names:
                    p.value = ast.copy_location(ast.Name(me, ast.Load()), n)
                    p.attr = self.fname(m)
                    continue
                if m in self.b.props:
                    if not isinstance(p.ctx, ast.Load):
                        raise _Abort("store to a bundle property")
                    self.need.add(m)
                    call = ast.Call(
                        func=ast.Attribute(ast.copy_location(ast.Name(me, ast.Load()), n), self.fname(m), ast.Load()),
                        args=[], keywords=[])
                    ast.copy_location(call, p)
                    ast.copy_location(call.func, p)
                    self._replace(par, p, call)
                    continue
                if m in self.b.methods or m in self.b.statics:
                    pp = par.get(p)
                    if isinstance(pp, ast.Call) and pp.func is p:
                        self.need.add(m)
                        p.value = ast.copy_location(ast.Name(me, ast.Load()), n)
                        p.attr = self.fname(m)
                        continue
                    raise _Abort("bound bundle method used as a value")
                raise _Abort(f"unknown bundle member .{m}")
            bare.append(n)
        return bare, par

    @staticmethod
    def _replace(par, old, new):
        p = par[old]
        for field, val in ast.iter_fields(p):
            if val is old:
                setattr(p, field, new)
                par[new] = p
                return
            if isinstance(val, list):
                for i, x in enumerate(val):
                    if x is old:
                        val[i] = new
                        par[new] = p
                        return
        raise _Abort("cannot replace node")

    def _rebinders(self):
        """Methods of the owner that (transitively through self-calls) rebind
        the bundle attribute."""
        direct = set()
        calls = {}
        for f in self.cls.body:
            if not isinstance(f, ast.FunctionDef):
                continue
            me = _self_name(f)
            calls[f.name] = set()
            for x in ast.walk(f):
                if me and _is_self_attr(x, me, self.attr) and isinstance(x.ctx, (ast.Store, ast.Del)):
                    direct.add(f.name)
                if isinstance(x, ast.Call) and isinstance(x.func, ast.Attribute) and isinstance(x.func.value, ast.Name) and x.func.value.id == me:
                    calls[f.name].add(x.func.attr)
        out = set(direct)
        changed = True
        while changed:
            changed = False
            for f, cs in calls.items():
                if f not in out and cs & out:
                    out.add(f)
                    changed = True
        return out, calls

    def rewrite_method(self, f: ast.FunctionDef, rebinders, calls):
        me = _self_name(f)
        if me is None:
            for x in ast.walk(f):
                if isinstance(x, ast.Attribute) and x.attr == self.attr:
                    raise _Abort("bundle attribute used in a static/class method")
            return
        # 1. whole-object rebindings  self.attr = B(...)
        par = _parents(f)
        for st in [x for x in ast.walk(f) if isinstance(x, (ast.Assign, ast.AnnAssign))]:
            targets = st.targets if isinstance(st, ast.Assign) else [st.target]
            if not any(_is_self_attr(t, me, self.attr) for t in targets):
                continue
            if len(targets) != 1 or st.value is None:
                raise _Abort("bundle rebinding with several targets / no value")
            new = self._construction(me, st.value, st)
            if new is None:
                raise _Abort("bundle attribute assigned something that is not a construction")
            p = par[st]
            done = False
            for field, val in ast.iter_fields(p):
                if isinstance(val, list) and any(x is st for x in val):
                    i = [k for k, x in enumerate(val) if x is st][0]
                    val[i:i + 1] = new
                    done = True
            if not done:
                raise _Abort("cannot place the expanded construction")
        # 2. local aliases  x = self.attr
        aliases = {}
        stores = {}
        for x in ast.walk(f):
            if isinstance(x, ast.Name) and isinstance(x.ctx, (ast.Store, ast.Del)):
                stores[x.id] = stores.get(x.id, 0) + 1
            if isinstance(x, ast.arg):
                stores[x.arg] = stores.get(x.arg, 0) + 1
        par = _parents(f)
        for st in [x for x in ast.walk(f) if isinstance(x, ast.Assign)]:
            if _is_self_attr(st.value, me, self.attr) and len(st.targets) == 1 and isinstance(st.targets[0], ast.Name):
                name = st.targets[0].id
                if stores.get(name) != 1:
                    raise _Abort("alias of the bundle is rebound")
                aliases[name] = st
        if aliases:
            if f.name in rebinders or (calls.get(f.name, set()) & rebinders):
                raise _Abort("bundle aliased in a method that may rebind it")
            for x in ast.walk(f):
                if isinstance(x, (ast.Global, ast.Nonlocal)) and set(x.names) & set(aliases):
                    raise _Abort("alias declared global/nonlocal")
        alias_stmts = set(map(id, aliases.values()))

        def base_is(n):
            if _is_self_attr(n, me, self.attr):
                return True
            return isinstance(n, ast.Name) and n.id in aliases and isinstance(n.ctx, ast.Load)

        bare, par = self._rewrite_use(base_is, f, me)
        for n in bare:
            p = par.get(n)
            if isinstance(p, ast.Assign) and id(p) in alias_stmts and p.value is n:
                continue
            # a NamedTuple unpacked into all of its fields:  a, b, c = self._state
            if (
                self.b.is_namedtuple and isinstance(p, ast.Assign) and p.value is n and len(p.targets) == 1
                and isinstance(p.targets[0], (ast.Tuple, ast.List)) and len(p.targets[0].elts) == len(self.b.fields)
                and all(isinstance(e, ast.Name) for e in p.targets[0].elts)
            ):
                # one plain assignment per field, in field order (so that each
                # local is a simple alias of one attribute)
                new_stmts = []
                for tgt, (fld, *_rest) in zip(p.targets[0].elts, self.b.fields):
                    a_ = ast.Assign(
                        targets=[ast.copy_location(ast.Name(tgt.id, ast.Store()), tgt)],
                        value=ast.copy_location(ast.Attribute(ast.copy_location(ast.Name(me, ast.Load()), n), self.fname(fld), ast.Load()), n),
                        type_comment=None,
                    )
                    new_stmts.append(ast.copy_location(a_, p))
                holder = par.get(p)
                placed = False
                for field, val in ast.iter_fields(holder):
                    if isinstance(val, list) and any(x is p for x in val):
                        i = [k for k, x in enumerate(val) if x is p][0]
                        val[i:i + 1] = new_stmts
                        placed = True
                if placed:
                    continue
            raise _Abort("bundle object used as a whole (escapes)")
        # drop alias statements
        if aliases:
            par = _parents(f)
            for st in aliases.values():
                p = par[st]
                for field, val in ast.iter_fields(p):
                    if isinstance(val, list) and any(x is st for x in val):
                        val[:] = [x for x in val if x is not st] or [ast.copy_location(ast.Pass(), st)]

    # -- copied members ----------------------------------------------------
    def _copy_member(self, name):
        b = self.b
        if name == "__init__":
            src, new_name, kind = b.init, self.fname("init"), "method"
        elif name.startswith("="):
            # updater: `return self._replace(k=v)` becomes `self.<x>__k = v`
            src = b.methods[name[1:]]
            f = copy.deepcopy(src)
            f.name = self.fname("set_" + name[1:])
            f.decorator_list = []
            f.returns = None
            me = f.args.args[0].arg
            body = [x for x in f.body if not (isinstance(x, ast.Expr) and isinstance(x.value, ast.Constant))]
            if isinstance(body[0].value.func, ast.Name):
                # `return B(f=.., g=..)`: every field is given or takes its default;
                # a field handed on unchanged (`f=self.f`) is left alone
                call = body[0].value
                init_fields = [fl for fl in b.fields if fl[2]]
                if len(call.args) > len(init_fields):
                    raise _Abort("too many constructor arguments")
                given = {fl[0]: a for fl, a in zip(init_fields, call.args)}
                for k in call.keywords:
                    if k.arg in given or k.arg not in {fl[0] for fl in init_fields}:
                        raise _Abort("unknown/duplicate constructor keyword")
                    given[k.arg] = k.value
                kws = []
                for fname_, default, _ in b.fields:
                    v = given.get(fname_)
                    if v is None:
                        if default is None:
                            raise _Abort(f"required field {fname_} not given")
                        v = copy.deepcopy(default)
                    if isinstance(v, ast.Attribute) and isinstance(v.value, ast.Name) and v.value.id == me and v.attr == fname_:
                        continue
                    kws.append(ast.keyword(arg=fname_, value=v))
            else:
                kws = body[0].value.keywords
            if any(k.arg not in b.field_names for k in kws):
                raise _Abort("_replace with unknown fields")
            written: set[str] = set()
            out = []
            for k in kws:
                for x in ast.walk(k.value):
                    if isinstance(x, ast.Attribute) and isinstance(x.value, ast.Name) and x.value.id == me and x.attr in written:
                        raise _Abort("updater reads a field it has just replaced")
                written.add(k.arg)
                st = ast.Assign(targets=[ast.Attribute(ast.Name(me, ast.Load()), k.arg, ast.Store())], value=k.value)
                out.append(ast.copy_location(st, body[0]))
            f.body = out or [ast.copy_location(ast.Pass(), body[0])]

            def base_is_u(n, me=me):
                return isinstance(n, ast.Name) and n.id == me and isinstance(n.ctx, ast.Load)

            bare, _ = self._rewrite_use(base_is_u, f, me)
            if bare:
                raise _Abort("updater uses self as a whole")
            return f
        elif name.startswith("."):
            src, new_name, kind = self.mod_factories[name[1:]], self.fname(name[1:].lstrip("_")), "modfactory"
        elif name in b.statics:
            f = copy.deepcopy(b.statics[name])
            f.name = self.fname(name)
            return f
        elif name in b.factories:
            src, new_name, kind = b.factories[name], self.fname(name), "factory"
        elif name in b.props:
            src, new_name, kind = b.props[name], self.fname(name), "method"
        else:
            src, new_name, kind = b.methods[name], self.fname(name), "method"
        f = copy.deepcopy(src)
        f.name = new_name
        f.decorator_list = []
        if kind in ("factory", "modfactory"):
            f.returns = None
            names = {x.id for x in ast.walk(f) if isinstance(x, ast.Name)} | {a.arg for a in f.args.args + f.args.kwonlyargs}
            me = "self"
            if me in names:
                raise _Abort("factory uses a name 'self'")
            if kind == "factory":
                ctor = f.args.args[0].arg
                f.args.args[0] = ast.copy_location(ast.arg(me, None), f.args.args[0])
            else:
                ctor = b.name
                if f.args.posonlyargs or f.args.vararg or f.args.kwarg:
                    raise _Abort("module factory with */** parameters")
                f.args.args.insert(0, ast.copy_location(ast.arg(me, None), f))
                for x in ast.walk(f):
                    if isinstance(x, (ast.Yield, ast.YieldFrom, ast.Await)):
                        raise _Abort("generator factory")
            par = _parents(f)
            n_ret = 0
            for x in list(ast.walk(f)):
                if isinstance(x, ast.Return):
                    owner_fn = x
                    while owner_fn is not f and not isinstance(owner_fn, (ast.FunctionDef, ast.Lambda)):
                        owner_fn = par[owner_fn]
                    if owner_fn is f:
                        n_ret += 1
                        v = x.value
                        if not (isinstance(v, ast.Call) and isinstance(v.func, ast.Name) and v.func.id == ctor):
                            raise _Abort("factory returns something that is not a construction")
            if n_ret == 0:
                raise _Abort("factory without return")
            for x in list(ast.walk(f)):
                if isinstance(x, ast.Name) and x.id == ctor:
                    call = par.get(x)
                    ret = par.get(call)
                    if not (isinstance(call, ast.Call) and call.func is x and isinstance(ret, ast.Return) and ret.value is call):
                        raise _Abort("factory uses the bundle class other than in 'return <ctor>(...)'")
                    fake = ast.Call(func=ast.Name(self.b.name, ast.Load()), args=call.args, keywords=call.keywords)
                    new = self._ctor_assigns(me, fake, ret) + [ast.copy_location(ast.Return(value=None), ret)]
                    p = par[ret]
                    done = False
                    for field, val in ast.iter_fields(p):
                        if isinstance(val, list) and any(y is ret for y in val):
                            i = [k for k, y in enumerate(val) if y is ret][0]
                            val[i:i + 1] = new
                            done = True
                    if not done:
                        raise _Abort("cannot place factory construction")
            return f
        first = f.args.args[0].arg
        me = first

        def base_is(n):
            return isinstance(n, ast.Name) and n.id == me and isinstance(n.ctx, ast.Load)

        for x in ast.walk(f):
            if isinstance(x, ast.Name) and x.id == me and not isinstance(x.ctx, ast.Load):
                raise _Abort("bundle method rebinds self")
        bare, _ = self._rewrite_use(base_is, f, me)
        if bare:
            raise _Abort("bundle method uses self as a whole")
        return f

    def finish(self):
        done = set()
        while self.need - done:
            name = sorted(self.need - done)[0]
            done.add(name)
            self.added.append(self._copy_member(name))
        existing = {x.name for x in self.cls.body if isinstance(x, ast.FunctionDef)}
        for stx in self.cls.body:
            if isinstance(stx, (ast.Assign, ast.AnnAssign)):
                for t in (stx.targets if isinstance(stx, ast.Assign) else [stx.target]):
                    if isinstance(t, ast.Name):
                        existing.add(t.id)
        new_names = {f.name for f in self.added} | {self.fname(x) for x in self.b.field_names}
        if new_names & existing:
            raise _Abort("generated name already exists in the owner")
        self.cls.body.extend(self.added)
        # __slots__ and class-level declarations of the attribute
        body = []
        for st in self.cls.body:
            if isinstance(st, ast.AnnAssign) and isinstance(st.target, ast.Name) and st.target.id == self.attr and st.value is None:
                continue
            if isinstance(st, ast.Assign) and len(st.targets) == 1 and isinstance(st.targets[0], ast.Name) and st.targets[0].id == "__slots__":
                v = st.value
                names = [self.fname(x[0]) for x in self.b.fields]
                if isinstance(v, ast.Dict):
                    for i, k in enumerate(v.keys):
                        if isinstance(k, ast.Constant) and k.value == self.attr:
                            v.keys[i:i + 1] = [ast.Constant(x) for x in names]
                            v.values[i:i + 1] = [ast.Constant("") for _ in names]
                            break
                elif isinstance(v, (ast.Tuple, ast.List, ast.Set)):
                    for i, k in enumerate(v.elts):
                        if isinstance(k, ast.Constant) and k.value == self.attr:
                            v.elts[i:i + 1] = [ast.Constant(x) for x in names]
                            break
            body.append(st)
        self.cls.body = body


def _candidates(tree: ast.Module, rel: str | None = None, all_trees: dict | None = None, foreign: dict | None = None):
    """(owner class, attribute, bundle class node) triples of a module.
    ``foreign`` receives {bundle class name: module file} for bundle classes
    that are imported from another module of the package."""
    from .baseline_api import ALL_CLASSES

    def _bundle_name(name):
        # a private class, or one the pinned tree does not have at all
        return not name.startswith("__") and (name.startswith("_") or name not in ALL_CLASSES)

    privates = {
        n.name: n for n in tree.body
        if isinstance(n, ast.ClassDef) and _bundle_name(n.name)
    }
    if rel is not None and all_trees:
        from .imports_canon import _abs_module

        for st in tree.body:
            if not isinstance(st, ast.ImportFrom):
                continue
            mod = _abs_module(rel, st.module, st.level)
            for cand in (mod.replace(".", "/") + ".py", mod.replace(".", "/") + "/__init__.py"):
                t2 = all_trees.get(cand)
                if t2 is None or cand == rel:
                    continue
                for a in st.names:
                    if a.asname or not _bundle_name(a.name) or a.name in privates:
                        continue
                    cdef = next((n for n in t2.body if isinstance(n, ast.ClassDef) and n.name == a.name), None)
                    if cdef is not None:
                        privates[a.name] = copy.deepcopy(cdef)
                        if foreign is not None:
                            foreign[a.name] = cand
    if not privates:
        return []
    # private module-level functions every return of which constructs one
    # private class
    modfacts = {}
    for fdef in tree.body:
        if not isinstance(fdef, ast.FunctionDef) or not fdef.name.startswith("_") or fdef.decorator_list:
            continue
        rets = [x for x in ast.walk(fdef) if isinstance(x, ast.Return)]
        cl = {
            x.value.func.id if isinstance(x.value, ast.Call) and isinstance(x.value.func, ast.Name) else None
            for x in rets
        }
        if rets and len(cl) == 1 and next(iter(cl)) in privates:
            modfacts[fdef.name] = (next(iter(cl)), fdef)
    out = []
    for c in tree.body:
        if not isinstance(c, ast.ClassDef) or c.name in privates:
            continue
        found = {}
        for f in c.body:
            if not isinstance(f, ast.FunctionDef):
                continue
            me = _self_name(f)
            if not me:
                continue
            for st in ast.walk(f):
                if not isinstance(st, (ast.Assign, ast.AnnAssign)) or st.value is None:
                    continue
                targets = st.targets if isinstance(st, ast.Assign) else [st.target]
                v = st.value
                if not isinstance(v, ast.Call):
                    continue
                fn = v.func
                bname = None
                if isinstance(fn, ast.Name) and fn.id in privates:
                    bname = fn.id
                elif isinstance(fn, ast.Name) and fn.id in modfacts:
                    bname = modfacts[fn.id][0]
                elif isinstance(fn, ast.Attribute) and isinstance(fn.value, ast.Name) and fn.value.id in privates:
                    bname = fn.value.id
                if bname is None:
                    continue
                for t in targets:
                    if isinstance(t, ast.Attribute) and isinstance(t.value, ast.Name) and t.value.id == me:
                        found.setdefault(t.attr, set()).add(bname)
        for attr, bs in sorted(found.items()):
            if len(bs) == 1:
                b = next(iter(bs))
                out.append((c, attr, privates[b], {k: v[1] for k, v in modfacts.items() if v[0] == b}))
    return out


def _is_path(v, depth=0):
    if depth > 4:
        return False
    if isinstance(v, (ast.Name, ast.Constant)):
        return True
    if isinstance(v, ast.Attribute):
        return _is_path(v.value, depth + 1)
    return False


def _plan_outside_uses(tree, cls, bnode, attr, b: "_Bundle"):
    """Rewrites for uses of ``<obj>.<attr>.<member>`` in the same module but
    outside the owner class (typically a module-level decorator that works on
    the owner's instances).  Returns a list of closures that perform them, or
    None when some use cannot be rewritten."""
    inside = {id(x) for x in ast.walk(cls)} | {id(x) for x in ast.walk(bnode)}
    par = _parents(tree)
    plans = []
    for n in ast.walk(tree):
        if id(n) in inside:
            continue
        if isinstance(n, ast.Constant) and n.value == attr:
            return None
        if not (isinstance(n, ast.Attribute) and n.attr == attr):
            continue
        if not isinstance(n.value, ast.Name):
            return None
        recv = n.value.id
        p = par.get(n)
        if not (isinstance(p, ast.Attribute) and p.value is n):
            return None
        m = p.attr
        if m in b.field_names:
            def do_field(p=p, n=n, m=m):
                p.value = ast.copy_location(ast.Name(n.value.id, ast.Load()), n)
                p.attr = f"{attr}{SEP}{m}"
            plans.append(do_field)
            continue
        meth = b.methods.get(m) or b.props.get(m)
        call = par.get(p)
        if meth is None:
            return None
        is_prop = m in b.props
        if not is_prop and not (isinstance(call, ast.Call) and call.func is p):
            return None
        body = [x for x in meth.body if not (isinstance(x, ast.Expr) and isinstance(x.value, ast.Constant))]
        if len(body) != 1:
            return None
        params = [a.arg for a in meth.args.args]
        me, params = params[0], params[1:]
        args = {}
        if not is_prop:
            if any(isinstance(a, ast.Starred) for a in call.args) or len(call.args) > len(params):
                return None
            for k, a in zip(params, call.args):
                args[k] = a
            for kw in call.keywords:
                if kw.arg is None or kw.arg not in params or kw.arg in args:
                    return None
                args[kw.arg] = kw.value
            defaults = dict(zip(params[len(params) - len(meth.args.defaults):], meth.args.defaults))
            for k in params:
                if k not in args:
                    if k not in defaults:
                        return None
                    args[k] = defaults[k]
            if not all(_is_path(a) for a in args.values()):
                return None
        stmt = copy.deepcopy(body[0])
        ok = [True]

        class _S(ast.NodeTransformer):
            def visit_Attribute(self, a):
                if isinstance(a.value, ast.Name) and a.value.id == me:
                    if a.attr in b.field_names:
                        return ast.copy_location(ast.Attribute(ast.Name(recv, ast.Load()), f"{attr}{SEP}{a.attr}", a.ctx), a)
                    ok[0] = False
                    return a
                self.generic_visit(a)
                return a

            def visit_Name(self, x):
                if x.id == me:
                    ok[0] = False
                if x.id in args and isinstance(x.ctx, ast.Load):
                    return copy.deepcopy(args[x.id])
                if x.id in args:
                    ok[0] = False
                return x

            def visit_Lambda(self, x):
                ok[0] = False
                return x

        stmt = _S().visit(stmt)
        if not ok[0]:
            return None
        target = p if is_prop else call
        if isinstance(stmt, ast.Return):
            if stmt.value is None:
                return None
            def do_expr(target=target, value=stmt.value):
                ast.copy_location(value, target)
                _Owner._replace(_parents(tree), target, value)
            plans.append(do_expr)
        else:
            holder = par.get(target)
            if not (isinstance(holder, ast.Expr) and holder.value is target):
                return None
            def do_stmt(holder=holder, stmt=stmt):
                ast.copy_location(stmt, holder)
                _Owner._replace(_parents(tree), holder, stmt)
            plans.append(do_stmt)
    return plans


def _line_map(old_tree, new_src):
    """new line -> original line, from the two structurally equal trees."""
    new_tree = ast.parse(new_src)
    m = {}
    for a, b in zip(ast.walk(old_tree), ast.walk(new_tree)):
        if type(a) is not type(b):
            return {}
        la, lb = getattr(a, "lineno", None), getattr(b, "lineno", None)
        if la is not None and lb is not None and isinstance(b, (ast.stmt, ast.excepthandler)):
            m.setdefault(lb, la)
    return m


def _own_walk(fn):
    """Nodes of a function excluding nested functions / classes / lambdas."""
    stack = list(ast.iter_child_nodes(fn))
    while stack:
        n = stack.pop()
        yield n
        if isinstance(n, (ast.FunctionDef, ast.AsyncFunctionDef, ast.ClassDef, ast.Lambda)):
            continue
        stack.extend(ast.iter_child_nodes(n))


def _dealias_bound_methods(tree: ast.Module) -> list[str]:
    """``add = graph.add_edge`` ... ``add(u, v)``  ->  ``graph.add_edge(u, v)``.

    A hot-path idiom (bind the method once, call the local).  All call-site
    rules look for calls by receiver and method name, so the alias is undone on
    the source.  Done only when it cannot change meaning: the alias is assigned
    once, at function level, from ``<name>.<method>`` or ``self.<attr>.<method>``;
    it is used only as the callee of calls (never passed on, never in a nested
    function); the receiver name is never rebound in the function (and, for
    ``self.<attr>``, the function never assigns that attribute)."""
    notes = []
    for fn in [n for n in ast.walk(tree) if isinstance(n, (ast.FunctionDef, ast.AsyncFunctionDef))]:
        stores: dict[str, int] = {}
        for n in _own_walk(fn):
            if isinstance(n, ast.Name) and isinstance(n.ctx, (ast.Store, ast.Del)):
                stores[n.id] = stores.get(n.id, 0) + 1
        a = fn.args
        params = {x.arg for x in a.posonlyargs + a.args + a.kwonlyargs} | ({a.vararg.arg} if a.vararg else set()) | ({a.kwarg.arg} if a.kwarg else set())
        attr_stores = {ast.unparse(n) for n in _own_walk(fn) if isinstance(n, ast.Attribute) and isinstance(n.ctx, (ast.Store, ast.Del))}
        nested_names = set()
        for n in _own_walk(fn):
            if isinstance(n, (ast.FunctionDef, ast.AsyncFunctionDef, ast.Lambda, ast.ClassDef)):
                nested_names |= {x.id for x in ast.walk(n) if isinstance(x, ast.Name)}
        declared = {nm for n in _own_walk(fn) if isinstance(n, (ast.Global, ast.Nonlocal)) for nm in n.names}
        # function level, and the bodies of its for-loops (`for s in subs: hook = s.update; hook(x)`)
        blocks = [fn.body] + [n.body for n in _own_walk(fn) if isinstance(n, ast.For) and not n.orelse]
        for blk, i, st in [(b, i, st) for b in blocks for i, st in enumerate(list(b))]:
            if not (isinstance(st, ast.Assign) and len(st.targets) == 1 and isinstance(st.targets[0], ast.Name)):
                continue
            name, v = st.targets[0].id, st.value
            if stores.get(name) != 1 or name in params or name in nested_names or name in declared:
                continue
            if not isinstance(v, ast.Attribute):
                continue
            recv = v.value
            if isinstance(recv, ast.Name):
                root = recv.id
                if root != name and (stores.get(root, 0) > (0 if root in params else 1) or root in declared):
                    continue
                if root not in params and stores.get(root, 0) == 0 and root != "self":
                    pass  # a global / module: fine
            elif isinstance(recv, ast.Attribute) and isinstance(recv.value, ast.Name) and recv.value.id in params and stores.get(recv.value.id, 0) == 0:
                if ast.unparse(recv) in attr_stores:
                    continue
            else:
                continue
            uses = [n for n in _own_walk(fn) if isinstance(n, ast.Name) and n.id == name and isinstance(n.ctx, ast.Load)]
            calls = {id(n.func) for n in _own_walk(fn) if isinstance(n, ast.Call) and isinstance(n.func, ast.Name) and n.func.id == name}
            if not uses or any(id(u) not in calls for u in uses):
                continue
            if blk is not fn.body:
                # inside a loop body: every use follows the binding in that very block
                if st not in blk:
                    continue
                later = {id(x) for y in blk[blk.index(st) + 1:] for x in ast.walk(y)}
                if any(id(u) not in later for u in uses):
                    continue
            # the local receiver must be bound before the alias (no use-before-def games)
            for n in _own_walk(fn):
                if isinstance(n, ast.Call) and isinstance(n.func, ast.Name) and n.func.id == name:
                    n.func = ast.copy_location(copy.deepcopy(v), n.func)
            blk.remove(st)
            if not blk:
                blk.append(ast.copy_location(ast.Pass(), st))
            notes.append(f"{fn.name}: bound-method alias `{name} = {ast.unparse(v)}` undone")
    return notes


def _module_file(rel: str, module: str | None, level: int, sources) -> str | None:
    """The source file an ``import`` in ``rel`` names, if it is one of ours."""
    if level:
        parts = rel.split("/")[:-1]
        if level > 1:
            parts = parts[: -(level - 1)] if level - 1 <= len(parts) else []
        base = "/".join(parts)
        path = base + ("/" + module.replace(".", "/") if module else "")
    else:
        path = (module or "").replace(".", "/")
    for cand in (path + ".py", path + "/__init__.py"):
        if cand in sources:
            return cand
    return None


def _materialise_method_aliases(tree: ast.Module, rel: str, sources, parsed) -> list[str]:
    """``class C: check = staticmethod(check_schedule)`` (the function defined
    at module level here or imported from a module of the package)  ->

        @staticmethod
        def check(schedule): return check_schedule(schedule)

    so that the model has a method to look up and the normaliser a body to
    inline.  Same for ``classmethod(f)`` and for a bare ``name = f`` (then the
    first parameter is the instance).  Skipped unless the target is a plain
    ``def`` whose defaults are constants."""
    notes = []
    top_defs = {n.name: n for n in tree.body if isinstance(n, ast.FunctionDef)}
    imported: dict[str, tuple[str, str]] = {}
    bound = set(top_defs)
    for n in tree.body:
        if isinstance(n, ast.ImportFrom):
            for a in n.names:
                bound.add(a.asname or a.name)
                f = _module_file(rel, n.module, n.level, sources)
                if f:
                    imported[a.asname or a.name] = (f, a.name)
        elif isinstance(n, ast.Import):
            for a in n.names:
                bound.add((a.asname or a.name).split(".")[0])
        elif isinstance(n, ast.ClassDef):
            bound.add(n.name)
        elif isinstance(n, (ast.Assign, ast.AnnAssign)):
            for t in (n.targets if isinstance(n, ast.Assign) else [n.target]):
                if isinstance(t, ast.Name):
                    bound.add(t.id)

    def target_def(name):
        if name in top_defs:
            return top_defs[name]
        if name in imported:
            f, orig = imported[name]
            if f not in parsed:
                try:
                    parsed[f] = ast.parse(sources[f])
                except SyntaxError:
                    return None
            for n in parsed[f].body:
                if isinstance(n, ast.FunctionDef) and n.name == orig:
                    return n
        return None

    import builtins
    def known(ann):
        return all(x.id in bound or hasattr(builtins, x.id) for x in ast.walk(ann) if isinstance(x, ast.Name))

    for cls in [n for n in ast.walk(tree) if isinstance(n, ast.ClassDef)]:
        defined = {n.name for n in cls.body if isinstance(n, (ast.FunctionDef, ast.AsyncFunctionDef))}
        for i, st in enumerate(list(cls.body)):
            if not (isinstance(st, ast.Assign) and len(st.targets) == 1 and isinstance(st.targets[0], ast.Name)):
                continue
            name, v = st.targets[0].id, st.value
            kind = None
            if isinstance(v, ast.Call) and isinstance(v.func, ast.Name) and v.func.id in ("staticmethod", "classmethod") and len(v.args) == 1 and not v.keywords and isinstance(v.args[0], ast.Name):
                kind, fname = v.func.id, v.args[0].id
            elif isinstance(v, ast.Name):
                kind, fname = "method", v.id
            if kind is None or name in defined:
                continue
            # inside the class body the right-hand name may be a class-level binding
            if any(isinstance(s2, (ast.FunctionDef, ast.Assign)) and s2 is not st and (
                    getattr(s2, "name", None) == fname or any(isinstance(t, ast.Name) and t.id == fname for t in getattr(s2, "targets", [])))
                   for s2 in cls.body[: cls.body.index(st)]):
                continue
            d = target_def(fname)
            if d is None or d.decorator_list or d.args.vararg or d.args.kwarg:
                continue
            a = copy.deepcopy(d.args)
            if any(not isinstance(x, ast.Constant) for x in a.defaults + [k for k in a.kw_defaults if k is not None]):
                continue
            for x in a.posonlyargs + a.args + a.kwonlyargs:
                if x.annotation is not None and not known(x.annotation):
                    x.annotation = None
            if kind == "method" and not (a.posonlyargs + a.args):
                continue
            call = ast.Call(
                func=ast.Name(id=fname, ctx=ast.Load()),
                args=[ast.Name(id=x.arg, ctx=ast.Load()) for x in a.posonlyargs + a.args],
                keywords=[ast.keyword(arg=x.arg, value=ast.Name(id=x.arg, ctx=ast.Load())) for x in a.kwonlyargs],
            )
            fn = ast.FunctionDef(
                name=name, args=a, body=[ast.Return(value=call)],
                decorator_list=[ast.Name(id=kind, ctx=ast.Load())] if kind != "method" else [],
                returns=copy.deepcopy(d.returns) if d.returns is not None and known(d.returns) else None,
                type_comment=None, type_params=[],
            )
            for x in ast.walk(fn):
                ast.copy_location(x, st)
            cls.body[cls.body.index(st)] = fn
            notes.append(f"{cls.name}.{name} = {ast.unparse(v)}: written out as a forwarding {kind}")
    return notes


def _unroll_constant_tables(tree: ast.Module) -> list[str]:
    """``for key, name in _TABLE: setattr(self, name, f(key))`` with ``_TABLE``
    a module-level tuple / list of constant rows: the loop is written out row by
    row and ``setattr(obj, "x", v)`` / ``getattr(obj, "x")`` with the now
    constant name become ``obj.x = v`` / ``obj.x`` - a table-driven spelling of
    plain attribute stores, which the attribute-level analyses need to see.
    Only for loops without break / continue / else whose body uses one of the
    loop variables as the name argument of setattr / getattr; at most 8 rows."""
    notes = []
    tables = {}
    for st in tree.body:
        tg = st.targets[0] if isinstance(st, ast.Assign) and len(st.targets) == 1 else st.target if isinstance(st, ast.AnnAssign) and st.value is not None else None
        if isinstance(tg, ast.Name) and isinstance(st.value, (ast.Tuple, ast.List)) and 0 < len(st.value.elts) <= 8:
            tables[tg.id] = st.value

    def const_cell(e):
        if isinstance(e, ast.Constant):
            return True
        x = e
        while isinstance(x, ast.Attribute):
            x = x.value
        return isinstance(x, ast.Name) and isinstance(e, (ast.Attribute, ast.Name))

    class Sub(ast.NodeTransformer):
        def __init__(self, m):
            self.m = m

        def visit_Name(self, n):
            if isinstance(n.ctx, ast.Load) and n.id in self.m:
                return ast.copy_location(copy.deepcopy(self.m[n.id]), n)
            return n

    class Deref(ast.NodeTransformer):
        def visit_Expr(self, e):
            self.generic_visit(e)
            c = e.value
            if (
                isinstance(c, ast.Call) and isinstance(c.func, ast.Name) and c.func.id == "setattr" and len(c.args) == 3 and not c.keywords
                and isinstance(c.args[1], ast.Constant) and isinstance(c.args[1].value, str) and c.args[1].value.isidentifier()
            ):
                a = ast.Assign(targets=[ast.Attribute(value=c.args[0], attr=c.args[1].value, ctx=ast.Store())], value=c.args[2], type_comment=None)
                return ast.copy_location(a, e)
            return e

        def visit_Call(self, c):
            self.generic_visit(c)
            if (
                isinstance(c.func, ast.Name) and c.func.id == "getattr" and len(c.args) == 2 and not c.keywords
                and isinstance(c.args[1], ast.Constant) and isinstance(c.args[1].value, str) and c.args[1].value.isidentifier()
            ):
                return ast.copy_location(ast.Attribute(value=c.args[0], attr=c.args[1].value, ctx=ast.Load()), c)
            return c

    for fn in [n for n in ast.walk(tree) if isinstance(n, (ast.FunctionDef, ast.AsyncFunctionDef))]:
        stored = {x.id for x in ast.walk(fn) if isinstance(x, ast.Name) and isinstance(x.ctx, ast.Store)}
        for holder in ast.walk(fn):
            for fld in ("body", "orelse", "finalbody"):
                blk = getattr(holder, fld, None)
                if not (isinstance(blk, list) and blk and isinstance(blk[0], ast.stmt)):
                    continue
                i = 0
                while i < len(blk):
                    lp = blk[i]
                    i += 1
                    if not (isinstance(lp, ast.For) and not lp.orelse and isinstance(lp.iter, ast.Name) and lp.iter.id in tables and lp.iter.id not in stored):
                        continue
                    names = [lp.target.id] if isinstance(lp.target, ast.Name) else (
                        [e.id for e in lp.target.elts] if isinstance(lp.target, ast.Tuple) and all(isinstance(e, ast.Name) for e in lp.target.elts) else None)
                    if not names or any(isinstance(x, (ast.Break, ast.Continue)) for x in ast.walk(lp)):
                        continue
                    uses_reflection = any(
                        isinstance(x, ast.Call) and isinstance(x.func, ast.Name) and x.func.id in ("setattr", "getattr") and len(x.args) >= 2
                        and isinstance(x.args[1], ast.Name) and x.args[1].id in names for x in ast.walk(lp)
                    )
                    if not uses_reflection:
                        continue
                    if any(isinstance(x, ast.Name) and isinstance(x.ctx, ast.Store) and x.id in names for st in lp.body for x in ast.walk(st)):
                        continue
                    rows = tables[lp.iter.id].elts
                    ok = True
                    maps = []
                    for r in rows:
                        cells = list(r.elts) if isinstance(r, (ast.Tuple, ast.List)) and len(names) > 1 else [r]
                        if len(cells) != len(names) or not all(const_cell(c) for c in cells):
                            ok = False
                            break
                        maps.append(dict(zip(names, cells)))
                    if not ok:
                        continue
                    new = []
                    for m in maps:
                        for st in lp.body:
                            cp = Deref().visit(Sub(m).visit(copy.deepcopy(st)))
                            new.append(ast.copy_location(cp, st))
                    blk[i - 1:i] = new
                    i += len(new) - 1
                    notes.append(f"{fn.name}: loop over the constant table `{lp.iter.id}` written out ({len(maps)} rows); setattr/getattr with constant names spelt as attributes")
    return notes


def _specialise_name_selectors(tree: ast.Module) -> list[str]:
    """A private function / method that picks the attribute to use by a
    name it is handed (`def _notify(self, event, *args): ...
    getattr(subscriber, event)(*args)`) is cloned per literal it is called
    with in this module: `self._notify("update", op)` becomes
    `self._notify__update(op)`, whose body says `subscriber.update(*args)`.
    The original stays (callers elsewhere, non-literal calls).  Only when the
    parameter is used as the name argument of two-argument getattr() calls
    and nowhere else."""
    notes: list[str] = []

    def scan(owner_body, cls: ast.ClassDef | None):
        for f in list(owner_body):
            if not isinstance(f, ast.FunctionDef) or not f.name.startswith("_") or f.name.startswith("__") or f.decorator_list:
                continue
            a = f.args
            if a.posonlyargs or a.kwarg:
                continue
            params = [x.arg for x in a.args]
            first = 1 if cls is not None else 0
            for p in params[first:]:
                uses = [n for n in ast.walk(f) if isinstance(n, ast.Name) and n.id == p]
                gets = [
                    n for n in ast.walk(f)
                    if isinstance(n, ast.Call) and isinstance(n.func, ast.Name) and n.func.id == "getattr" and len(n.args) == 2 and not n.keywords
                    and isinstance(n.args[1], ast.Name) and n.args[1].id == p
                ]
                if not gets or len(uses) != len(gets) or any(not isinstance(u.ctx, ast.Load) for u in uses):
                    continue
                idx = params.index(p) - first
                # defaults are aligned to the end of the parameter list
                if len(a.defaults) > len(params) - 1 - params.index(p):
                    continue  # the parameter (or one before it) has a default: keep it simple
                made: dict[str, str] = {}
                scope = cls if cls is not None else tree
                for c in [n for n in ast.walk(scope) if isinstance(n, ast.Call)]:
                    fn = c.func
                    if cls is not None:
                        if not (isinstance(fn, ast.Attribute) and fn.attr == f.name and isinstance(fn.value, ast.Name) and fn.value.id in ("self", "cls")):
                            continue
                    elif not (isinstance(fn, ast.Name) and fn.id == f.name):
                        continue
                    if any(isinstance(x, ast.Starred) for x in c.args[: idx + 1]):
                        continue
                    lit, where = None, None
                    if idx < len(c.args):
                        lit, where = c.args[idx], ("pos", idx)
                    else:
                        for k in c.keywords:
                            if k.arg == p:
                                lit, where = k.value, ("kw", k)
                    if not (isinstance(lit, ast.Constant) and isinstance(lit.value, str) and lit.value.isidentifier()):
                        continue
                    name = f"{f.name}__{lit.value}"
                    if name not in made:
                        clone = copy.deepcopy(f)
                        clone.name = name
                        clone.args.args = [x for x in clone.args.args if x.arg != p]

                        class _G(ast.NodeTransformer):
                            def visit_Call(self, n):
                                self.generic_visit(n)
                                if (
                                    isinstance(n.func, ast.Name) and n.func.id == "getattr" and len(n.args) == 2 and not n.keywords
                                    and isinstance(n.args[1], ast.Name) and n.args[1].id == p
                                ):
                                    return ast.copy_location(ast.Attribute(value=n.args[0], attr=lit.value, ctx=ast.Load()), n)
                                return n

                        _G().visit(clone)
                        owner_body.insert(owner_body.index(f) + 1, clone)
                        made[name] = lit.value
                    if where[0] == "pos":
                        del c.args[idx]
                    else:
                        c.keywords.remove(where[1])
                    if cls is not None:
                        fn.attr = name
                    else:
                        fn.id = name
                if made:
                    notes.append(f"{(cls.name + '.') if cls else ''}{f.name}: cloned per literal `{p}` ({', '.join(sorted(made.values()))}); getattr with that name spelt as attribute access")
                    break  # one selector parameter per function

    scan(tree.body, None)
    for c in tree.body:
        if isinstance(c, ast.ClassDef):
            scan(c.body, c)
    if notes:
        ast.fix_missing_locations(tree)
    return notes


def unbundle(sources: dict[str, str]):
    """``{rel: src}`` -> (``{rel: new src}`` for rewritten modules, notes,
    line maps).  Modules that need nothing or cannot be rewritten safely are
    absent from the result."""
    out, notes, maps = {}, [], {}
    if os.environ.get("JSLSTATIC_NO_PREPASS"):
        return out, notes, maps  # tools/gen_baseline_api.py freezes the tree as written
    trees = {}
    dealiased = {}
    parsed: dict[str, ast.Module] = {}
    from . import imports_canon
    from .baseline_api import ALL_CLASSES as _ALL_CLASSES
    from .baseline_imports import EXTERNAL as _EXT

    _BASELINE_IMPORTED = {k.rsplit(".", 1)[-1] for k in _EXT}

    package_modules = {imports_canon._rel_to_mod(r) for r in sources}
    from . import api_fold

    all_trees: dict[str, ast.Module] = {}
    for rel, src in sources.items():
        try:
            all_trees[rel] = ast.parse(src)
        except SyntaxError:
            continue
    # package-wide passes first (API evolution folded back, see api_fold.py)
    global_notes: dict[str, list[str]] = {}
    for gpass in (api_fold.pull_down_new_bases, api_fold.pull_down_displaced_methods, api_fold.unencapsulate, api_fold.fold_aliases):
        for r2, ns2 in gpass(all_trees).items():
            global_notes.setdefault(r2, []).extend(ns2)
    for rel, src in sources.items():
        tree = all_trees.get(rel)
        if tree is None:
            continue
        ns = list(global_notes.get(rel, [])) if rel in global_notes else []
        touched = rel in global_notes
        ns += imports_canon.canonicalise(tree, rel, package_modules)
        if "getattr(" in src:
            ns += _specialise_name_selectors(tree)  # before the bound-method pass: `hook = getattr(s, name); hook(*args)`
        ns += _dealias_bound_methods(tree)
        ns += _materialise_method_aliases(tree, rel, sources, parsed)
        if "setattr(" in src or "getattr(" in src:
            ns += _unroll_constant_tables(tree)
        if ns or touched:
            dealiased[rel] = ns or ["names folded back (see the defining module)"]
            trees[rel] = tree
        elif "class _" in src or any(
            isinstance(st_, ast.ImportFrom) and any(a_.name[:1] == "_" and a_.name[1:2].isupper() for a_ in st_.names) for st_ in tree.body
        ) or any(
            # ... or a class the pinned tree does not have at all (its own, or imported from a module of the package)
            (isinstance(st_, ast.ClassDef) and st_.name not in _ALL_CLASSES)
            or (
                isinstance(st_, ast.ImportFrom) and (st_.level or (st_.module or "").split(".")[0] == "job_shop_lib")
                and any(a_.name[:1].isupper() and not a_.name.isupper() and a_.name not in _ALL_CLASSES and a_.name not in _BASELINE_IMPORTED for a_ in st_.names)
            )
            for st_ in tree.body
        ):
            trees[rel] = tree  # may own a private bundle class (its own, or one imported from a sibling module)
    for rel, tree in trees.items():
        foreign: dict[str, str] = {}
        cands = _candidates(tree, rel, all_trees, foreign)
        changed = False
        if rel in dealiased:
            changed = True
            notes += [f"{rel}: {x}" for x in dealiased[rel]]
        for cls, attr, bnode, modf in cands:
            label = f"{rel}: {cls.name}.{attr} <- {bnode.name}"
            if not attr.startswith("_") or attr.startswith("__"):
                notes.append(f"{label}: kept (attribute is not private)")
                continue
            # nobody else in the package may mention the attribute; uses in
            # the same module that can be rewritten the same way are allowed
            # when no other class of the package has an attribute of that name
            elsewhere = False
            outside_plans = None
            for r2, s2 in sources.items():
                if attr not in s2:
                    continue
                t2 = trees.get(r2) or ast.parse(s2)
                inside = set()
                if r2 == rel:
                    inside = {id(x) for x in ast.walk(cls)}
                    try:
                        outside_plans = _plan_outside_uses(tree, cls, bnode, attr, _Bundle(bnode))
                    except _Abort:
                        outside_plans = None
                    if outside_plans is not None:
                        continue
                for x in ast.walk(t2):
                    if isinstance(x, ast.Attribute) and x.attr == attr and id(x) not in inside:
                        elsewhere = True
                    if isinstance(x, ast.Constant) and x.value == attr and id(x) not in inside:
                        elsewhere = True  # getattr(obj, "_x") and the like
            if elsewhere:
                notes.append(f"{label}: kept (attribute is mentioned outside its class)")
                continue
            backup = copy.deepcopy(cls)
            try:
                b = _Bundle(bnode)
                # the bundle class may only be named in constructions handled here
                ow = _Owner(cls, attr, b, modf)
                rebinders, calls = ow._rebinders()
                for f in [x for x in cls.body if isinstance(x, ast.FunctionDef)]:
                    ow.rewrite_method(f, rebinders, calls)
                ow.finish()
                for x in ast.walk(cls):
                    if isinstance(x, ast.Attribute) and x.attr == attr:
                        raise _Abort("a use of the bundle attribute was not rewritten")
                for plan in outside_plans or []:
                    plan()
                if bnode.name in foreign:
                    # the copied members need the names their own module provides
                    used_ = {x.id for x in ast.walk(cls) if isinstance(x, ast.Name) and isinstance(x.ctx, ast.Load)}
                    api_fold.import_names_from(all_trees, rel, foreign[bnode.name], used_, skip={bnode.name})
                ast.fix_missing_locations(tree)
                changed = True
                notes.append(f"{label}: replaced by {len(b.fields)} attributes {attr}{SEP}<field>"
                             + (f" and {len(ow.added)} copied methods" if ow.added else ""))
            except _Abort as e:
                # restore the class
                cls.__dict__.clear()
                cls.__dict__.update(backup.__dict__)
                notes.append(f"{label}: kept ({e})")
        if changed:
            ast.fix_missing_locations(tree)
            new_src = ast.unparse(tree) + "\n"
            out[rel] = new_src
            maps[rel] = _line_map(tree, new_src)
    return out, notes, maps
