"""E6 - object lifecycle: per-phase write sets of ``self`` attributes and
constructor linearisation (acquire-before-subscribe) for observer classes."""

from __future__ import annotations

import ast
from dataclasses import dataclass

from .paths import Event, chain_of
from .repo import AnalysisError, ClassInfo, FuncInfo, own_nodes


@dataclass
class AttrWrite:
    attr: str
    kind: str  # rebind | overwrite | entry | inplace
    event: Event
    fi: FuncInfo
    via: tuple
    key: str | None = None  # literal first-level key: self.attr[KEY]...

    @property
    def loc(self):
        return self.fi.loc(self.event.node)

    @property
    def text(self):
        return self.event.data.get("text", "")


def _unwrap(o):
    depth = 0
    while o[0] == "elem":
        o = o[1]
        depth += 1
    if o[0] == "attrof":
        return _unwrap(o[1])[0], depth + 1
    return o, depth


class Lifecycle:
    def __init__(self, ctx):
        self.ctx = ctx
        self.repo = ctx.repo
        self.eff = ctx.effects
        self.flow = ctx.flow
        self._mut_params: dict = {}
        self._closure: dict = {}

    # ------------------------------------------------------------ closure
    def self_closure(self, entry: FuncInfo, cls: ClassInfo, max_depth=6):
        """Functions executed on the *same object* when ``entry`` runs on an
        instance of ``cls``: self.m(), super().m(), properties of self."""
        key = (entry.qualname, cls.qualname)
        if key in self._closure:
            return self._closure[key]
        seen = {}
        order = []
        stack = [(entry, ())]
        while stack:
            f, via = stack.pop(0)
            if f.qualname in seen:
                continue
            seen[f.qualname] = True
            order.append((f, via))
            if len(via) >= max_depth:
                continue
            for ev, t, rc in self.eff.calls(f, cls):
                if isinstance(t.node, ast.Lambda):
                    continue
                recv = ev.data.get("recv")
                on_self = False
                if isinstance(recv, ast.Name) and self.ctx.res._is_self(f, recv):
                    on_self = True
                elif isinstance(recv, ast.Call) and isinstance(recv.func, ast.Name) and recv.func.id == "super":
                    on_self = True
                elif isinstance(ev.node, ast.Attribute) and isinstance(ev.node.value, ast.Name) and self.ctx.res._is_self(f, ev.node.value):
                    on_self = True
                if on_self:
                    stack.append((t, via + (f.qualname,)))
            # bound methods of self passed around as values (dispatch tables,
            # callbacks) may be called later: include them
            if len(via) < max_depth and f.params:
                sname = f.params[0]
                for n in own_nodes(f.node):
                    if isinstance(n, ast.Attribute) and isinstance(n.ctx, ast.Load) and isinstance(n.value, ast.Name) and n.value.id == sname:
                        par = f.module.parents.get(n)
                        if isinstance(par, ast.Call) and par.func is n:
                            continue
                        m = self.repo.method(cls, n.attr)
                        if m is not None and not m.is_property and not isinstance(m.node, ast.Lambda):
                            stack.append((m, via + (f.qualname,)))
        self._closure[key] = order
        return order

    # ------------------------------------------------------ mutated params
    def mutated_params(self, fi: FuncInfo, rc=None, _stack=()) -> set[int]:
        """Indices of parameters whose object (or something reachable from
        it) ``fi`` may mutate, transitively."""
        key = (fi.qualname, rc.qualname if rc else None)
        if key in self._mut_params:
            return self._mut_params[key]
        if key in _stack or len(_stack) > 6:
            return set()
        out: set[int] = set()
        params = fi.params
        for w in self.eff.own_writes(fi, rc):
            for o in w.origins:
                b, _ = _unwrap(o)
                if b[0] in ("param", "attr") and b[1] in params:
                    out.add(params.index(b[1]))
        for ev, t, trc in self.eff.calls(fi, rc):
            if isinstance(t.node, ast.Lambda):
                continue
            sub = self.mutated_params(t, trc, _stack + (key,))
            if not sub:
                continue
            for i in sub:
                arg = self._arg_expr(ev, t, i)
                if arg is None:
                    continue
                for o in self.flow.origins(fi, arg, rc):
                    b, _ = _unwrap(o)
                    if b[0] in ("param", "attr") and b[1] in params:
                        out.add(params.index(b[1]))
        self._mut_params[key] = out
        return out

    @staticmethod
    def _arg_expr(ev: Event, t: FuncInfo, i: int):
        node = ev.node
        is_method = t.cls is not None and not t.is_static
        if isinstance(node, ast.Attribute):  # property access
            return node.value if i == 0 else ev.data.get("value")
        if not isinstance(node, ast.Call):
            return None
        if is_method:
            if i == 0:
                f = node.func
                if isinstance(f, ast.Attribute):
                    return f.value
                return None  # constructor: fresh object
            ai = i - 1
        else:
            ai = i
        if 0 <= ai < len(node.args):
            return node.args[ai]
        if i < len(t.params):
            for kw in node.keywords:
                if kw.arg == t.params[i]:
                    return kw.value
        return None

    # ---------------------------------------------------------- attr writes
    def attr_writes(self, entry: FuncInfo, cls: ClassInfo) -> list[AttrWrite]:
        """Writes to attributes of ``self`` performed when ``entry`` runs on
        an instance of ``cls`` (own-object closure + callees that mutate an
        argument reachable from self)."""
        out: list[AttrWrite] = []
        for f, via in self.self_closure(entry, cls):
            # attribute-level write sets are only complete when attributes are
            # written by name: reflection inside the analysed closure is refused
            for n in own_nodes(f.node):
                if isinstance(n, ast.Call) and isinstance(n.func, ast.Name) and n.func.id in ("setattr", "delattr", "exec", "eval"):
                    raise AnalysisError(f"{f.loc(n)}: reflection ({n.func.id}) defeats attribute-level effect analysis")
                if isinstance(n, ast.Attribute) and n.attr == "__dict__" and isinstance(n.ctx, ast.Store):
                    raise AnalysisError(f"{f.loc(n)}: __dict__ store defeats attribute-level effect analysis")
            if not f.params:
                continue
            selfname = f.params[0]
            for ev in self.eff.events(f, cls):
                if ev.kind == "write":
                    d = ev.data
                    tgt = d.get("target")
                    op = d.get("op")
                    if op == "loopvar" or d.get("local") and op != "augassign":
                        continue
                    # direct rebinding self.a = v
                    if isinstance(tgt, ast.Attribute) and isinstance(tgt.value, ast.Name) and tgt.value.id == selfname and op in ("assign", "augassign", "del"):
                        out.append(AttrWrite(tgt.attr, "rebind" if op == "assign" else "inplace", ev, f, via))
                        continue
                    obj = self.eff.mutated_object(ev)
                    if obj is None:
                        continue
                    kind = self._kind(ev)
                    for o in self.flow.origins(f, obj, cls):
                        b, depth = _unwrap(o)
                        if b[0] == "attr" and b[1] == selfname and b[2]:
                            k = kind
                            if depth > 0 or len(b[2]) > 1:
                                # a component of the attribute's object
                                if kind == "overwrite" and depth <= 1 and len(b[2]) == 1:
                                    k = "overwrite"
                                elif kind == "entry":
                                    k = "inplace"
                                elif kind != "overwrite":
                                    k = "inplace"
                            out.append(AttrWrite(b[2][0], k, ev, f, via, self._first_key(ev, selfname, b[2][0])))
                elif ev.kind == "call":
                    for t in ev.data.get("targets") or []:
                        if isinstance(t.node, ast.Lambda):
                            continue
                        rc = self.eff.engine._callee_recv(ev, t, ev.frame)
                        for i in self.mutated_params(t, rc):
                            arg = self._arg_expr(ev, t, i)
                            if arg is None:
                                continue
                            if isinstance(arg, ast.Name) and arg.id == selfname:
                                continue  # same-object call: covered by the closure
                            for o in self.flow.origins(f, arg, cls):
                                b, depth = _unwrap(o)
                                if b[0] == "attr" and b[1] == selfname and b[2]:
                                    out.append(AttrWrite(b[2][0], "inplace", ev, f, via))
        return out

    @staticmethod
    def _first_key(ev: Event, selfname: str, attr: str):
        """Text of K in a write through ``self.<attr>[K]...`` (None when the
        write does not go through a literal first-level subscript)."""
        tgt = ev.data.get("target")
        node = tgt
        found = None
        while isinstance(node, (ast.Subscript, ast.Attribute, ast.Call)):
            if isinstance(node, ast.Subscript):
                base = node.value
                if isinstance(base, ast.Attribute) and base.attr == attr and isinstance(base.value, ast.Name) and base.value.id == selfname:
                    found = ast.unparse(node.slice)
                node = node.value
            elif isinstance(node, ast.Attribute):
                node = node.value
            else:
                node = node.func
        return found

    @staticmethod
    def _kind(ev: Event) -> str:
        d = ev.data
        tgt = d.get("target")
        if d.get("op") == "mutcall":
            return "overwrite" if d.get("method") in ("clear", "fill") else "inplace"
        if isinstance(tgt, ast.Subscript):
            s = tgt.slice
            if isinstance(s, ast.Slice) and s.lower is None and s.upper is None and s.step is None and d.get("op") == "assign":
                return "overwrite"
            if d.get("op") == "assign" and not isinstance(s, (ast.Slice, ast.Tuple)):
                return "entry"
            return "inplace"
        return "inplace"

    # ----------------------------------------------------- cross-observer use
    def foreign_observer_reads(self, entry: FuncInfo, cls: ClassInfo, obs_base: str):
        """(fi, node, B-class names) for every read through a value whose
        static type is another observer, in the own-object closure."""
        out = []
        for f, via in self.self_closure(entry, cls):
            for n in own_nodes(f.node):
                if not isinstance(n, ast.Attribute) or not isinstance(n.ctx, ast.Load):
                    continue
                v = n.value
                if isinstance(v, ast.Name) and self.ctx.res._is_self(f, v):
                    continue
                if isinstance(v, ast.Call) and isinstance(v.func, ast.Name) and v.func.id == "super":
                    continue
                if n.attr in ("update", "reset", "dispatcher", "__class__"):
                    continue
                cls_names = [
                    c for c in self.ctx.res.classes_of(f, v, cls)
                    if self.repo.is_subclass(c, obs_base) and c in self.repo.classes
                ]
                if cls_names:
                    out.append((f, n, cls_names, via))
        return out

    def acquisition_of(self, f: FuncInfo, expr: ast.AST, cls: ClassInfo):
        """How the observer reference ``expr`` was obtained:
        ("acquire", call)  create_or_get_observer(...) / ObserverClass(...)
        ("attr", name)     self.<name>
        ("given",)         parameter / element of a given collection
        ("unknown",)"""
        if isinstance(expr, ast.Call):
            f_ = expr.func
            if isinstance(f_, ast.Attribute) and f_.attr == "create_or_get_observer":
                return ("acquire", expr)
            ts, name = self.ctx.res.callees(f, expr, cls)
            if name and name in self.repo.classes:
                return ("acquire", expr)
            if ts and ts[0].is_property:
                return self.acquisition_of(ts[0], self._single_return(ts[0]), cls)
            # a private factory that returns the acquired observer (or None)
            if len(ts) == 1 and not isinstance(ts[0].node, ast.Lambda) and getattr(self, "_acq_depth", 0) < 3:
                self._acq_depth = getattr(self, "_acq_depth", 0) + 1
                try:
                    results = []
                    for r in own_nodes(ts[0].node):
                        if isinstance(r, ast.Return) and r.value is not None and not (isinstance(r.value, ast.Constant) and r.value.value is None):
                            results.append(self.acquisition_of(ts[0], r.value, cls))
                finally:
                    self._acq_depth -= 1
                for r in results:
                    if r[0] == "acquire":
                        return r
                if results and all(r[0] == "given" for r in results):
                    return ("given",)
                # an accessor that hands out an attribute of the same object
                attrs = {r[1] for r in results if r[0] == "attr"}
                if len(attrs) == 1 and all(r[0] in ("attr", "given") for r in results):
                    return ("attr", next(iter(attrs)))
            return ("unknown",)
        if isinstance(expr, ast.Attribute):
            if isinstance(expr.value, ast.Name) and self.ctx.res._is_self(f, expr.value):
                pt = self.ctx.res.property_target(f, expr, cls)
                if pt is not None:
                    r = self._single_return(pt)
                    if r is not None:
                        return self.acquisition_of(pt, r, cls)
                return ("attr", expr.attr)
            return ("unknown",)
        if isinstance(expr, ast.Name):
            d = self.flow.defs(f)
            if d.is_param(expr.id):
                return ("given",)
            results = [("given",)] if expr.id in d.params else []
            for kind, value, _ in d.of(expr.id):
                if kind in ("value", "elem", "unpack"):
                    results.append(self.acquisition_of(f, value, cls))
            # walrus bindings:  if (obs := self._x) is not None: return obs
            for n in own_nodes(f.node):
                if isinstance(n, ast.NamedExpr) and isinstance(n.target, ast.Name) and n.target.id == expr.id:
                    results.append(self.acquisition_of(f, n.value, cls))
            for r in results:
                if r[0] == "acquire":
                    return r
            for r in results:
                if r[0] in ("unknown", "attr"):
                    return r
            return ("given",) if results else ("unknown",)
        if isinstance(expr, (ast.ListComp, ast.GeneratorExp)):
            it = expr.generators[0].iter
            if isinstance(it, ast.Attribute) and it.attr == "subscribers":
                return ("given",)  # observers already subscribed earlier
            return self.acquisition_of(f, it, cls)
        if isinstance(expr, ast.Subscript):
            return self.acquisition_of(f, expr.value, cls)
        return ("unknown",)

    @staticmethod
    def _single_return(fi: FuncInfo):
        rets = [n for n in own_nodes(fi.node) if isinstance(n, ast.Return) and n.value is not None]
        return rets[-1].value if rets else None

    def attr_sources(self, cls: ClassInfo, attr: str):
        """Value expressions assigned to self.<attr> anywhere in the class
        cone, with the function they occur in."""
        out = []
        for q in cls.mro:
            c = self.repo.classes.get(q)
            if c is None:
                continue
            for m in list(c.methods.values()) + list(c.setters.values()):
                if not m.params:
                    continue
                for n in own_nodes(m.node):
                    tg = []
                    if isinstance(n, ast.Assign):
                        tg = n.targets
                    elif isinstance(n, ast.AnnAssign) and n.value is not None:
                        tg = [n.target]
                    for t in tg:
                        if isinstance(t, ast.Attribute) and t.attr == attr and isinstance(t.value, ast.Name) and t.value.id == m.params[0]:
                            out.append((m, n.value))
        return out
