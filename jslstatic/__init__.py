"""Static analysis of job_shop_lib: decides structural clauses of the
properties in /verif/properties.jsonl from /repo's source, without running it.
"""

REPO_ROOT = "/repo"
PACKAGE = "job_shop_lib"
