"""E2 - type oracle.

Runs the type checker that ships in the repository's own environment (mypy,
as a library) over the package sources and flattens the exported expression
types to a position-keyed table that the ``ast`` side of the analysis
consumes.  This is type *checking* of the source text - nothing from the
analysed package is imported or executed.

The table is cached under /verif/.cache keyed by the digest of all consulted
sources; it is rebuilt when absent.
"""

from __future__ import annotations

import ast
import gzip
import os
import pickle
import re
import sys

from .repo import AnalysisError, Repo, ModuleInfo

_CACHE_KEEP = 400  # whole corpus of overlays (variants + stored patches), ~60 KB each
CACHE_DIR = os.path.join(os.path.dirname(os.path.dirname(__file__)), ".cache")
_SCHEMA = 3


def _walk_mypy(root):
    """Generic traversal of a mypy AST (TraverserVisitor cannot be
    subclassed from interpreted code when mypy is compiled)."""
    from mypy.nodes import Node

    seen = set()
    stack = [root]
    attr_cache: dict[type, list[str]] = {}
    while stack:
        n = stack.pop()
        if id(n) in seen:
            continue
        seen.add(id(n))
        yield n
        tp = type(n)
        names = attr_cache.get(tp)
        if names is None:
            names = [
                a
                for a in dir(tp)
                if not a.startswith("_")
                and a
                not in (
                    "info",
                    "node",
                    "type",
                    "analyzed",
                    "unanalyzed_type",
                    "original_def",
                    "impl",
                    "var",
                    "func",
                    "ref",
                    "callee_type",
                    "fullname",
                    "name",
                    "names",
                    "imports",
                    "alias_deps",
                    "plugin_deps",
                    "future_import_flags",
                )
            ]
            attr_cache[tp] = names
        for a in names:
            try:
                v = getattr(n, a)
            except Exception:
                continue
            if isinstance(v, Node):
                stack.append(v)
            elif isinstance(v, (list, tuple)):
                for x in v:
                    if isinstance(x, Node):
                        stack.append(x)
                    elif isinstance(x, (list, tuple)):
                        for y in x:
                            if isinstance(y, Node):
                                stack.append(y)
                            elif (
                                isinstance(y, tuple)
                                and y
                                and isinstance(y[0], Node)
                            ):
                                stack.extend(
                                    z for z in y if isinstance(z, Node)
                                )
    # decorators hold the FuncDef under .func
    return


def _build_table(repo: Repo) -> dict:
    from mypy import build
    from mypy.modulefinder import BuildSource
    from mypy.options import Options
    from mypy.nodes import Decorator, RefExpr, Expression

    opts = Options()
    opts.preserve_asts = True
    opts.export_types = True
    opts.incremental = False
    opts.cache_dir = os.devnull
    opts.follow_imports = "skip"
    opts.check_untyped_defs = True
    opts.ignore_missing_imports = True
    opts.python_version = (3, 12)
    opts.show_traceback = False
    srcs = [
        BuildSource(os.path.join(repo.root, mi.relpath), mi.name, mi.source)
        for mi in repo.modules.values()
    ]
    cwd = os.getcwd()
    os.chdir(repo.root)
    try:
        res = build.build(srcs, opts)
    except Exception as e:  # pragma: no cover
        raise AnalysisError(f"type oracle failed: {e!r}") from e
    finally:
        os.chdir(cwd)
    types: dict = {}
    refs: dict = {}
    for modname, state in res.graph.items():
        if modname not in repo.modules or state.tree is None:
            continue
        stack_roots = list(state.tree.defs)
        for root in stack_roots:
            for n in _walk_mypy(root):
                if isinstance(n, Decorator):
                    # walker skips 'func'; traverse it explicitly
                    for m in _walk_mypy(n.func):
                        _record(m, modname, res, types, refs, RefExpr, Expression)
                    continue
                _record(n, modname, res, types, refs, RefExpr, Expression)
    return {
        "types": types,
        "refs": refs,
        "errors": list(res.errors),
        "n_modules": len(repo.modules),
    }


def _record(n, modname, res, types, refs, RefExpr, Expression):
    if not isinstance(n, Expression):
        return
    key = (modname, n.line, n.column, n.end_line, n.end_column)
    t = res.types.get(n)
    if t is not None:
        types[key] = str(t)
    if isinstance(n, RefExpr) and n.fullname:
        refs[key] = n.fullname


_HEAD = re.compile(r"^([\w.]+)")
_BUILTIN = {
    n: "builtins." + n
    for n in ("list", "dict", "set", "tuple", "int", "str", "float", "bool", "frozenset", "bytes", "object", "bytearray")
}


def split_union(t: str) -> list[str]:
    """Splits a printed mypy type at top-level ``|`` / Union[...]."""
    t = t.strip()
    if t.startswith("Union[") and t.endswith("]"):
        inner = t[6:-1]
        parts, depth, cur = [], 0, ""
        for ch in inner:
            if ch == "[":
                depth += 1
            elif ch == "]":
                depth -= 1
            if ch == "," and depth == 0:
                parts.append(cur.strip())
                cur = ""
            else:
                cur += ch
        if cur.strip():
            parts.append(cur.strip())
        return parts
    parts, depth, cur = [], 0, ""
    for ch in t:
        if ch in "[(":
            depth += 1
        elif ch in "])":
            depth -= 1
        if ch == "|" and depth == 0:
            parts.append(cur.strip())
            cur = ""
        else:
            cur += ch
    if cur.strip():
        parts.append(cur.strip())
    return parts


def heads(t: str | None) -> list[str]:
    """Outermost class names of a printed type, Optional stripped."""
    if not t:
        return []
    out = []
    for p in split_union(t):
        if p in ("None", "builtins.None"):
            continue
        p = p.rstrip("?")
        if p.startswith("type["):
            out.append("type:" + (heads(p[5:-1]) or ["?"])[0])
            continue
        m = _HEAD.match(p)
        if m:
            h = m.group(1)
            out.append(_BUILTIN.get(h, h))
    return out


class TypeOracle:
    def __init__(self, repo: Repo, use_cache: bool = True):
        self.repo = repo
        self.table = None
        path = os.path.join(
            CACHE_DIR, f"types-{_SCHEMA}-{repo.digest[:32]}.pkl.gz"
        )
        if use_cache and os.path.exists(path):
            try:
                with gzip.open(path, "rb") as fh:
                    self.table = pickle.load(fh)
                self.from_cache = True
            except Exception:
                self.table = None
        if self.table is None:
            self.table = _build_table(repo)
            self.from_cache = False
            if use_cache:
                try:
                    os.makedirs(CACHE_DIR, exist_ok=True)
                    tmp = f"{path}.{os.getpid()}.tmp"
                    with gzip.open(tmp, "wb", compresslevel=3) as fh:
                        pickle.dump(self.table, fh)
                    os.replace(tmp, path)
                    old = sorted(
                        (os.path.join(CACHE_DIR, f) for f in os.listdir(CACHE_DIR) if f.startswith("types-")),
                        key=os.path.getmtime,
                    )
                    for f in old[:-_CACHE_KEEP]:
                        os.remove(f)
                except OSError:
                    pass
        self.types = self.table["types"]
        self.refs = self.table["refs"]
        self.lookups = 0
        self.hits = 0
        if len(self.types) < 1000:
            raise AnalysisError(
                f"type oracle exported only {len(self.types)} expression "
                "types; refusing to analyse with an empty oracle"
            )

    @staticmethod
    def _key(mi: ModuleInfo, node: ast.AST):
        return (
            # nodes inlined from another module keep their own positions
            getattr(node, "_origin_mod", None) or mi.name,
            node.lineno,
            node.col_offset,
            node.end_lineno,
            node.end_col_offset,
        )

    def type_of(self, mi: ModuleInfo, node: ast.AST) -> str | None:
        if not hasattr(node, "lineno"):
            return None
        self.lookups += 1
        t = self.types.get(self._key(mi, node))
        if t is not None:
            self.hits += 1
        return t

    def ref_of(self, mi: ModuleInfo, node: ast.AST) -> str | None:
        if not hasattr(node, "lineno"):
            return None
        return self.refs.get(self._key(mi, node))

    def classes_of(self, mi: ModuleInfo, node: ast.AST) -> list[str]:
        return heads(self.type_of(mi, node))

    def is_a(self, mi: ModuleInfo, node: ast.AST, base: str) -> bool:
        """True when the static type of ``node`` is (a union member that is)
        ``base`` or a package subclass of it."""
        for h in self.classes_of(mi, node):
            if self.repo.is_subclass(h, base):
                return True
        return False

    def stats(self) -> dict:
        return {
            "typed_expressions": len(self.types),
            "lookups": self.lookups,
            "hits": self.hits,
            "from_cache": self.from_cache,
            "checker_errors": len(self.table["errors"]),
        }


def finish(code: int):
    """mypy's teardown takes seconds; leave directly."""
    sys.stdout.flush()
    sys.stderr.flush()
    os._exit(code)
