"""Launcher: ``python -m jslstatic.cli <Cxx> --tier quick|thorough``."""

from __future__ import annotations

import argparse
import importlib
import json
import os
import sys
import traceback

from . import REPO_ROOT
from .paths import PathEngine
from .repo import AnalysisError, Repo
from .report import Check
from .resolve import Resolver
from .typeoracle import TypeOracle, finish


class Ctx:
    def __init__(self, prop, tier="quick", seed=0, root=REPO_ROOT, overlay=None, use_cache=True):
        self.prop = prop
        self.tier = tier
        self.seed = seed
        self.repo = Repo(root, overlay)
        self._types = None
        self._res = None
        self._flow = None
        self._effects = None
        self._norm = None
        self.use_cache = use_cache  # the cache key is the digest of the (overlaid) sources
        self.deferred: list = []  # refusals of independent rule groups (see attempt)
        self.chk = Check(prop, tier, seed)
        self.engines: list[PathEngine] = []

    @property
    def thorough(self) -> bool:
        return self.tier == "thorough"

    @property
    def types(self) -> TypeOracle:
        if self._types is None:
            self._types = TypeOracle(self.repo, use_cache=self.use_cache)
        return self._types

    @property
    def res(self) -> Resolver:
        if self._res is None:
            self._res = Resolver(self.repo, self.types)
        return self._res

    @property
    def flow(self):
        if self._flow is None:
            from .dataflow import Flow

            self._flow = Flow(self.repo, self.res)
        return self._flow

    @property
    def effects(self):
        if self._effects is None:
            from .effects import Effects

            self._effects = Effects(self.repo, self.res, self.flow)
        return self._effects

    @property
    def norm(self):
        if self._norm is None:
            from .normalize import Normalizer

            self._norm = Normalizer(self)
        return self._norm

    def engine(self, **kw) -> PathEngine:
        kw.setdefault("max_depth", 6 if self.thorough else 4)
        kw.setdefault("unroll", 2 if self.thorough else 1)
        e = PathEngine(self.repo, self.res, **kw)
        self.engines.append(e)
        return e

    def fork(self, prop):
        """A context for another property sharing the parsed repo, the type
        table and the engines' caches (used when many properties are run on
        one tree, e.g. the patch corpus)."""
        c = Ctx.__new__(Ctx)
        c.__dict__.update(self.__dict__)
        c.prop = prop
        c.chk = Check(prop, self.tier, self.seed)
        c.engines = []
        c.deferred = []
        c.__dict__.pop("_sub_paths", None)
        c.__dict__.pop("_sub_memo", None)
        c.__dict__.pop("_raise_probe", None)
        return c

    def attempt(self, fn, *args, **kw):
        """Runs one independent group of rules.  A refusal (AnalysisError) of
        this group is remembered and the other groups are still evaluated: a
        violation elsewhere must not be hidden behind a shape this group does
        not recognise.  Without any violation the first refusal is the run's
        result (exit 2)."""
        try:
            return fn(*args, **kw)
        except AnalysisError as e:
            self.deferred.append(e)
            return None

    def record_analysed(self):
        a = self.chk.analysed
        a["files_parsed"] = len(self.repo.modules)
        a["functions_in_model"] = len(self.repo.functions)
        a["classes_in_model"] = len(self.repo.classes)
        a["source_digest"] = self.repo.digest[:16]
        if self.repo.unbundle_notes:
            # private aggregates replaced by scalar attributes before analysis
            a["aggregates_unbundled"] = list(self.repo.unbundle_notes)
        if self._types is not None:
            a["type_oracle"] = self._types.stats()
        if self._res is not None:
            a["receivers_resolved"] = self._res.consumed
            a["resolver_disagreements"] = len(self._res.disagreements)
        if self.engines:
            a["paths_enumerated"] = sum(e.n_paths for e in self.engines)
            a["functions_inlined"] = sorted(
                set().union(*[e.inlined for e in self.engines])
            )[:80]


def run_property(prop, tier="quick", seed=0, overlay=None, root=REPO_ROOT, write=True, quiet=False, selftest=False, base=None):
    """Runs one property's rules; returns (exit_code, Check | None, error)."""
    ctx = None
    try:
        ctx = base.fork(prop) if base is not None else Ctx(prop, tier, seed, root=root, overlay=overlay)
        if len(ctx.repo.modules) < 55:
            raise AnalysisError(
                f"only {len(ctx.repo.modules)} source files found under "
                f"{root}/job_shop_lib (floor 55)"
            )
        if not quiet:
            for note in ctx.repo.unbundle_notes:
                print(f"note: private aggregate {note} (line numbers followed by ~ are mapped back from the rewritten source)")
        mod = importlib.import_module(f"jslstatic.rules.{prop.lower()}")
        ctx.chk.undecided = list(getattr(mod, "UNDECIDED", []))
        ctx.chk.assumptions = list(getattr(mod, "ASSUMPTIONS", []))
        mod.run(ctx)
        if ctx.deferred:
            # one or more rule groups refused; the others were evaluated
            if ctx.chk.unlisted():
                print(f"note: {len(ctx.deferred)} rule group(s) could not be evaluated: {ctx.deferred[0]}") if not quiet else None
            else:
                raise ctx.deferred[0]
        # a rule that was declared but judged nothing passed vacuously: the
        # code that evaluates it was skipped or its anchor vanished
        empty = sorted(set(ctx.chk.rule_texts) - {i["rule"] for i in ctx.chk.instances})
        if empty:
            raise AnalysisError(f"rule(s) {', '.join(empty)} declared but no instance was evaluated")
        if ctx.thorough and ctx._res is not None and ctx._res.disagreements:
            raise AnalysisError(
                "resolver disagreement (oracle vs annotations): "
                + "; ".join(ctx._res.disagreements[:3])
            )
        if selftest:
            from .selftest import runner

            st, summary = runner.run_for_property(prop, seed, verbose=not quiet)
            ctx.chk.analysed["selftest_corpus"] = summary
            if st != 0:
                raise AnalysisError(
                    "self-validation corpus disagrees with the checker: "
                    + "; ".join(summary.get("disagreements", [])[:3])
                )
            if not ctx.chk.unlisted():
                # stored patches only make sense against a tree that holds
                from .selftest import patches

                st, summary = patches.run_for_property(prop, verbose=not quiet)
                ctx.chk.analysed["patch_corpus"] = summary
                if st != 0:
                    raise AnalysisError(
                        "patch corpus disagrees with the checker: "
                        + "; ".join(summary.get("disagreements", [])[:3])
                    )
        ctx.record_analysed()
        code = ctx.chk.finish(write_evidence=write, quiet=quiet)
        return code, ctx.chk, None
    except AnalysisError as e:
        # a violation already recorded is a positively recognised construct:
        # an unrecognised shape elsewhere must not mask it
        if ctx is not None and ctx.chk.findings:
            ctx.chk.notes.append(f"analysis incomplete: {e}")
            if not quiet:
                print(f"note: analysis incomplete after recording violations: {e}")
            ctx.record_analysed()
            code = ctx.chk.finish(write_evidence=write, quiet=quiet)
            if code == 1:
                return code, ctx.chk, None
        if not quiet:
            print(f"ANALYSIS-ERROR property={prop} reason={e}")
        return 2, None, str(e)
    except Exception as e:  # internal error: never a VIOLATION
        if not quiet:
            tb = traceback.format_exc(limit=6)
            print(f"ANALYSIS-ERROR property={prop} reason=internal error {e!r}")
            print(tb)
        return 2, None, repr(e)


def replay(prop, path):
    with open(path, encoding="utf-8") as fh:
        want = json.load(fh)
    code, chk, err = run_property(prop, "quick", 0, write=False, quiet=True)
    if code == 2:
        print(f"ANALYSIS-ERROR property={prop} reason={err}")
        return 2
    from .report import abstract_private, module_free

    key = (want["property"], want["rule"], module_free(want["construct"]), abstract_private(want["statement"]))
    for f in chk.findings:
        if f.key() == key:
            print(f"VIOLATION property={prop} replay={path}")
            print(f"  {f.loc}: [{f.rule}] {f.construct}: {f.message}")
            return 1
    print(f"replayed finding no longer present: {key}")
    return 0


def main(argv=None):
    ap = argparse.ArgumentParser()
    ap.add_argument("prop")
    ap.add_argument("--tier", default=os.environ.get("VERIF_TIER", "quick"))
    ap.add_argument("--replay")
    ap.add_argument("--no-evidence", action="store_true")
    a = ap.parse_args(argv)
    seed = int(os.environ.get("VERIF_SEED", "0") or 0)
    prop = a.prop.upper()
    if a.replay:
        finish(replay(prop, a.replay))
    tier = a.tier if a.tier in ("quick", "thorough") else "quick"
    code, chk, err = run_property(
        prop, tier, seed, write=not a.no_evidence, selftest=(tier == "thorough")
    )
    finish(code)


if __name__ == "__main__":
    main()
