"""Helpers shared by rule modules."""

from __future__ import annotations

import ast

from ..paths import Event, Frame, chain_of
from ..repo import AnalysisError, ClassInfo, FuncInfo, own_nodes

DISPATCHER = "Dispatcher"
OBSERVER = "DispatcherObserver"


def resolve_root(ev: Event, root: str | None = None, chain: list | None = None):
    """Maps the (root, chain) of a write/call inside inlined frames to the
    entry frame: ``self`` of an inlined ``Schedule.add`` called as
    ``self.schedule.add(x)`` becomes ("self", ["schedule", ...]).
    Returns (root, chain, frame) where frame is the outermost frame reached."""
    fr: Frame | None = ev.frame
    if root is None:
        root = ev.data.get("root")
        chain = list(ev.data.get("chain") or [])
    chain = list(chain or [])
    guard = 0
    while fr is not None and root is not None and guard < 12:
        guard += 1
        if fr.parent is not None and root in fr.bindings and not _rebound(fr.fi, root):
            expr = fr.bindings[root]
            r2, c2 = chain_of(expr)
            root, chain = r2, c2 + chain
            fr = fr.parent
            continue
        # local alias: name = <expr rooted elsewhere> (single definition)
        alias = _single_def(fr.fi, root)
        if alias is not None and not (fr.fi.params and root == fr.fi.params[0] and fr.fi.cls):
            r2, c2 = chain_of(alias)
            if r2 is not None and r2 != root and isinstance(alias, (ast.Attribute, ast.Name, ast.Subscript)):
                root, chain = r2, c2 + chain
                continue
        break
    return root, chain, fr


_defs_cache: dict = {}


def _local_defs(fi: FuncInfo):
    # cached on the FuncInfo itself: a module-level dict keyed by id(node)
    # would serve stale entries once a tree is freed and its ids are reused
    # (worker processes analyse many overlays one after the other)
    d = getattr(fi, "_local_defs_cache", None)
    if d is None:
        d = {}
        for n in own_nodes(fi.node):
            if isinstance(n, ast.Assign):
                for t in n.targets:
                    if isinstance(t, ast.Name):
                        d.setdefault(t.id, []).append(n.value)
            elif isinstance(n, ast.AnnAssign) and isinstance(n.target, ast.Name) and n.value is not None:
                d.setdefault(n.target.id, []).append(n.value)
            elif isinstance(n, ast.NamedExpr) and isinstance(n.target, ast.Name):
                d.setdefault(n.target.id, []).append(n.value)
            elif isinstance(n, ast.AugAssign) and isinstance(n.target, ast.Name):
                d.setdefault(n.target.id, []).append(None)
            elif isinstance(n, (ast.For, ast.comprehension)):
                for x in ast.walk(n.target):
                    if isinstance(x, ast.Name):
                        d.setdefault(x.id, []).append(None)
        try:
            fi._local_defs_cache = d
        except AttributeError:
            pass
    return d


def _rebound(fi: FuncInfo, name: str) -> bool:
    return name in _local_defs(fi)


def _single_def(fi: FuncInfo, name: str):
    ds = _local_defs(fi).get(name)
    if ds and len(ds) == 1 and ds[0] is not None:
        return ds[0]
    return None


def is_empty_dict(node: ast.AST | None) -> bool:
    if isinstance(node, ast.Dict) and not node.keys:
        return True
    if isinstance(node, ast.Call) and isinstance(node.func, ast.Name) and node.func.id == "dict" and not node.args and not node.keywords:
        return True
    return False


def is_empty_list(node: ast.AST | None) -> bool:
    if isinstance(node, ast.List) and not node.elts:
        return True
    if isinstance(node, ast.Call) and isinstance(node.func, ast.Name) and node.func.id == "list" and not node.args:
        return True
    return False


def cached_methods(ctx, disp: ClassInfo) -> list[FuncInfo]:
    from .roles import dispatcher_roles

    names = set(dispatcher_roles(ctx)["cache_decorators"])
    return [m for m in disp.methods.values() if names & set(m.decorators)]


def is_notify(ctx, ev: Event, names=("update", "reset")) -> bool:
    """A call of update/reset on a DispatcherObserver-typed receiver other
    than self/super()."""
    if ev.kind != "call" or ev.data.get("attr") not in names or ev.data.get("property"):
        return False
    recv = ev.data.get("recv")
    if recv is None:
        return False
    if isinstance(recv, ast.Name) and recv.id == "self":
        return False
    if isinstance(recv, ast.Call) and isinstance(recv.func, ast.Name) and recv.func.id == "super":
        return False
    obs = ctx.repo.find_class(OBSERVER)
    for c in ctx.res.classes_of(ev.fi, recv, ev.frame.recv_cls):
        if ctx.repo.is_subclass(c, obs.qualname):
            return True
    return False


def self_attr_reads(fi: FuncInfo) -> set[str]:
    out = set()
    if not fi.params:
        return out
    s = fi.params[0]
    for n in own_nodes(fi.node):
        if isinstance(n, ast.Attribute) and isinstance(n.value, ast.Name) and n.value.id == s and isinstance(n.ctx, ast.Load):
            out.add(n.attr)
    return out


# --------------------------------------------------------------------------
# branch atoms: what a path *knows* after passing its branch events
def _canon_compare(node: ast.Compare, text) -> tuple[str, bool] | None:
    """(canonical text, polarity): the comparison holds iff canonical == polarity."""
    if len(node.ops) != 1:
        return None
    l, r, op = text(node.left), text(node.comparators[0]), node.ops[0]
    if isinstance(op, ast.Eq):
        a, b = sorted([l, r])
        return f"{a} == {b}", True
    if isinstance(op, ast.NotEq):
        a, b = sorted([l, r])
        return f"{a} == {b}", False
    if isinstance(op, ast.Lt):
        return f"{l} < {r}", True
    if isinstance(op, ast.GtE):  # l >= r  <=>  not (l < r)
        return f"{l} < {r}", False
    if isinstance(op, ast.Gt):  # l > r <=> r < l
        return f"{r} < {l}", True
    if isinstance(op, ast.LtE):  # l <= r <=> not (r < l)
        return f"{r} < {l}", False
    if isinstance(op, ast.Is):
        return f"{l} is {r}", True
    if isinstance(op, ast.IsNot):
        return f"{l} is {r}", False
    if isinstance(op, ast.In):
        return f"{l} in {r}", True
    if isinstance(op, ast.NotIn):
        return f"{l} in {r}", False
    return None


def decompose(test: ast.AST, value: bool, text, expand=None) -> list[tuple[str, bool]]:
    """Atoms whose truth is implied by `test` evaluating to `value`.  With
    ``expand`` a call atom (a predicate helper such as ``self._done()``) is
    replaced by its one-expression body first."""
    if isinstance(test, ast.UnaryOp) and isinstance(test.op, ast.Not):
        return decompose(test.operand, not value, text, expand)
    if isinstance(test, ast.BoolOp):
        if (isinstance(test.op, ast.And) and value) or (isinstance(test.op, ast.Or) and not value):
            out = []
            for v in test.values:
                out += decompose(v, value, text, expand)
            return out
        if len(test.values) == 1:
            return decompose(test.values[0], value, text, expand)
        return []
    if isinstance(test, (ast.Call, ast.Attribute)) and expand is not None:
        try:
            e = expand(test)
        except Exception:
            e = test
        if isinstance(e, (ast.BoolOp, ast.Compare)) or (isinstance(e, ast.UnaryOp) and isinstance(e.op, ast.Not)):
            return decompose(e, value, text, None)
    if isinstance(test, ast.Compare):
        c = _canon_compare(test, text)
        if c is not None:
            return [(c[0], value == c[1])]
        return []
    return [(text(test), value)]


def path_atoms(ctx, events, upto=None) -> dict[str, bool]:
    """Canonical atom -> truth for the branch events of a path (later events
    override earlier ones); alias-expanded in the frame they occur in."""
    out: dict[str, bool] = {}
    # what an inlined predicate helper returned on this path, by call node
    returned: dict[int, tuple] = {}
    for i, ev in enumerate(events):
        if upto is not None and i >= upto:
            break
        if ev.kind == "return" and ev.frame.parent is not None and ev.frame.call_node is not None:
            returned[id(ev.frame.call_node)] = (ev.data.get("value"), ev.fi, ev.frame)
            continue
        if ev.kind != "branch":
            continue
        node, taken, fi_, fr_ = ev.node, ev.data["taken"], ev.fi, ev.frame
        # `if self._is_exhausted():` with the helper inlined on this path: the
        # branch is a statement about the expression the helper returned
        t_, neg_ = node, False
        while isinstance(t_, ast.UnaryOp) and isinstance(t_.op, ast.Not):
            t_, neg_ = t_.operand, not neg_
        if isinstance(t_, ast.Call) and id(t_) in returned:
            rv, rfi, rfr = returned[id(t_)]
            if isinstance(rv, ast.Constant) and isinstance(rv.value, bool):
                continue  # a constant result: the helper's own branches say it all
            if isinstance(rv, (ast.Compare, ast.BoolOp, ast.UnaryOp)):
                node, taken, fi_, fr_ = rv, (not taken) if neg_ else taken, rfi, rfr
        text = lambda n, _f=fi_, _fr=fr_: ctx.norm.xtext(_f, _in_caller_terms(n, _fr))  # noqa: E731
        expand = lambda n, _f=fi_: ctx.norm.xexpr(_f, n)  # noqa: E731
        for a, v in decompose(node, taken, text, expand):
            out[a] = v
    return out


def _in_caller_terms(node, frame):
    """``node`` (an expression of an inlined callee) with the callee's never-rebound
    parameters replaced by the access paths the call passed for them, up to the
    entry frame: `iteration_limit is None` inside `has_reached(self._limit)` reads
    `self._limit is None`.  Parameters bound to anything but a path stay."""
    import copy as _copy

    fr = frame
    out = node
    hops = 0
    while fr is not None and fr.parent is not None and hops < 6:
        hops += 1
        binds = {}
        for k, v in (fr.bindings or {}).items():
            if isinstance(v, (ast.Name, ast.Attribute)) and not _rebound(fr.fi, k):
                x = v
                while isinstance(x, ast.Attribute):
                    x = x.value
                if isinstance(x, ast.Name):
                    binds[k] = v
        if binds:
            class _S(ast.NodeTransformer):
                def visit_Name(self, n):
                    if isinstance(n.ctx, ast.Load) and n.id in binds:
                        return ast.copy_location(_copy.deepcopy(binds[n.id]), n)
                    return n

            out = _S().visit(_copy.deepcopy(out))
        fr = fr.parent
    return out


def path_feasible(events) -> bool:
    """False when the path contradicts itself in the one way the enumeration
    cannot see: an inlined predicate helper returned the constant True / False
    and the branch on that very call went the other way."""
    returned: dict[int, bool] = {}
    for ev in events:
        if ev.kind == "return" and ev.frame.parent is not None and ev.frame.call_node is not None:
            v = ev.data.get("value")
            if isinstance(v, ast.Constant) and isinstance(v.value, bool):
                returned[id(ev.frame.call_node)] = v.value
            else:
                returned.pop(id(ev.frame.call_node), None)
        elif ev.kind == "branch":
            t, neg = ev.node, False
            while isinstance(t, ast.UnaryOp) and isinstance(t.op, ast.Not):
                t, neg = t.operand, not neg
            if isinstance(t, ast.Call) and id(t) in returned:
                val = (not returned[id(t)]) if neg else returned[id(t)]
                if val != ev.data["taken"]:
                    return False
    return True


def only_called_from(ctx, fi: FuncInfo, owners: set, _seen=None) -> bool:
    """True if every package call site of ``fi`` lies in one of ``owners`` or
    in a function that is itself only called from them (private helpers
    extracted from an owner)."""
    _seen = _seen or set()
    if fi in owners:
        return True
    if fi.qualname in _seen:
        return True
    _seen = _seen | {fi.qualname}
    callers = []
    for g in ctx.repo.all_functions():
        if isinstance(g.node, ast.Lambda):
            continue
        for ev, t, rc in ctx.effects.calls(g, g.cls):
            if t is fi:
                callers.append(g)
    if not callers:
        return False
    return all(only_called_from(ctx, g, owners, _seen) for g in set(callers))


# --------------------------------------------------------------------------
def key_lambda(fi: FuncInfo, key: ast.AST | None, cls: ClassInfo | None = None, repo=None, _depth=0) -> ast.Lambda | None:
    """Normalises a ``key=`` argument to a one-parameter lambda: a lambda, a
    local / module-level / method function with a single return, a module- or
    function-level name bound to one of those, ``attrgetter("a"[, "b"])``
    (-> x.a or (x.a, x.b)) and ``itemgetter(i)``."""
    if key is None or _depth > 4:
        return None
    if isinstance(key, ast.Lambda):
        return key if len(key.args.args) == 1 else None
    if isinstance(key, ast.Call):
        fn = ast.unparse(key.func).split(".")[-1]
        if fn == "attrgetter" and key.args and all(isinstance(a, ast.Constant) and isinstance(a.value, str) for a in key.args):
            x = ast.Name(id="x", ctx=ast.Load())
            parts = []
            for a in key.args:
                e: ast.AST = x
                for piece in a.value.split("."):
                    e = ast.Attribute(value=e, attr=piece, ctx=ast.Load())
                parts.append(e)
            body = parts[0] if len(parts) == 1 else ast.Tuple(elts=parts, ctx=ast.Load())
            return ast.Lambda(args=ast.arguments(posonlyargs=[], args=[ast.arg(arg="x")], kwonlyargs=[], kw_defaults=[], defaults=[]), body=body)
        if fn == "itemgetter" and len(key.args) == 1:
            x = ast.Name(id="x", ctx=ast.Load())
            return ast.Lambda(
                args=ast.arguments(posonlyargs=[], args=[ast.arg(arg="x")], kwonlyargs=[], kw_defaults=[], defaults=[]),
                body=ast.Subscript(value=x, slice=key.args[0], ctx=ast.Load()),
            )
        # a module-level factory whose whole body is `return lambda v: ...`
        # (`key=_score_of(scores)`): the lambda with the factory's parameters
        # replaced by the (pure-path) arguments
        if isinstance(key.func, ast.Name):
            g = fi.module.functions.get(key.func.id)
            if g is not None and not isinstance(g.node, ast.Lambda):
                body = [x for x in g.node.body if not (isinstance(x, ast.Expr) and isinstance(x.value, ast.Constant))]
                a = g.node.args
                if (
                    len(body) == 1 and isinstance(body[0], ast.Return) and isinstance(body[0].value, ast.Lambda)
                    and not (a.vararg or a.kwarg or a.kwonlyargs or a.posonlyargs) and not key.keywords
                    and len(a.args) == len(key.args)
                ):
                    import copy as _copy

                    lam = _copy.deepcopy(body[0].value)
                    if len(lam.args.args) != 1:
                        return None
                    sub = {p.arg: v for p, v in zip(a.args, key.args)}
                    shadow = {x.arg for x in lam.args.args}

                    class _S(ast.NodeTransformer):
                        def visit_Name(self, n):
                            if n.id in sub and n.id not in shadow and isinstance(n.ctx, ast.Load):
                                return _copy.deepcopy(sub[n.id])
                            return n

                    lam.body = _S().visit(lam.body)
                    return lam
        return None

    def from_def(n):
        args = [a for a in n.args.args if a.arg not in ("self", "cls")]
        rets = [r for r in ast.walk(n) if isinstance(r, ast.Return) and r.value is not None]
        if len(args) == 1 and len(rets) == 1:
            return ast.Lambda(args=ast.arguments(posonlyargs=[], args=[args[0]], kwonlyargs=[], kw_defaults=[], defaults=[]), body=rets[0].value)
        return None

    if isinstance(key, ast.Name):
        for n in ast.walk(fi.node):
            if isinstance(n, ast.FunctionDef) and n.name == key.id and n is not fi.node:
                return from_def(n)
        for d in _local_defs(fi).get(key.id, []):
            if d is not None:
                r = key_lambda(fi, d, cls, repo, _depth + 1)
                if r is not None:
                    return r
        g = fi.module.functions.get(key.id)
        if g is not None and not isinstance(g.node, ast.Lambda):
            return from_def(g.node)
        v = getattr(fi.module, "assigns", {}).get(key.id)
        if v is not None:
            return key_lambda(fi, v, cls, repo, _depth + 1)
        return None
    if isinstance(key, ast.Attribute) and isinstance(key.value, ast.Name) and key.value.id in ("self", "cls") and repo is not None and (cls or fi.cls):
        m = repo.method(cls or fi.cls, key.attr)
        if m is not None:
            return from_def(m.node)
    return None


# --------------------------------------------------------------------------
def source_pos(fn_node: ast.AST):
    """pos(node) = position of ``node`` in a depth-first walk of the function
    in source order.  Line numbers must not be used for ordering: in a
    flattened function the inlined statements keep the line numbers of the
    helper they came from."""
    pos: dict[int, int] = {}

    def rec(n):
        pos[id(n)] = len(pos)
        for c in ast.iter_child_nodes(n):
            rec(c)

    rec(fn_node)
    return lambda n: pos.get(id(n), -1)


# --------------------------------------------------------------------------
# reordering operators
_CHRONO_KEYS = ("start_time", "end_time")


def _key_is_chronological(key: ast.AST | None) -> bool:
    """key=lambda x: x.start_time | (x.start_time, x.end_time) |
    attrgetter('start_time'[, 'end_time']): machine lists built by the
    dispatcher are already ordered by these, so a *stable* sort on them is the
    identity."""
    if key is None:
        return False
    if isinstance(key, ast.Lambda) and len(key.args.args) == 1:
        x = key.args.args[0].arg
        body = key.body
        parts = list(body.elts) if isinstance(body, ast.Tuple) else [body]
        names = []
        for p in parts:
            if isinstance(p, ast.Attribute) and isinstance(p.value, ast.Name) and p.value.id == x:
                names.append(p.attr)
            else:
                return False
        return bool(names) and names[0] == "start_time" and all(n in _CHRONO_KEYS for n in names)
    if isinstance(key, ast.Call) and ast.unparse(key.func).split(".")[-1] == "attrgetter":
        names = [a.value for a in key.args if isinstance(a, ast.Constant)]
        return len(names) == len(key.args) and bool(names) and names[0] == "start_time" and all(n in _CHRONO_KEYS for n in names)
    return False


def reorder_ops(root: ast.AST):
    """Yields (node, what) for every operator under ``root`` that can change
    the order or multiplicity of a sequence, except stable sorts on the
    chronological keys without ``reverse``."""
    for n in ast.walk(root):
        if isinstance(n, ast.Call):
            f = n.func
            kws = {k.arg: k.value for k in n.keywords}
            if isinstance(f, ast.Name) and f.id == "sorted" or (isinstance(f, ast.Attribute) and f.attr == "sort"):
                rev = kws.get("reverse")
                if _key_is_chronological(kws.get("key")) and (rev is None or (isinstance(rev, ast.Constant) and rev.value is False)):
                    continue
                yield n, "sorted by `" + (ast.unparse(kws["key"])[:60] if "key" in kws else "natural order") + "`" + (" reversed" if rev is not None else "")
            elif isinstance(f, ast.Name) and f.id in ("reversed", "set", "frozenset"):
                yield n, f"{f.id}()"
            elif isinstance(f, ast.Attribute) and f.attr in ("reverse", "shuffle"):
                yield n, f".{f.attr}()"
        elif isinstance(n, ast.Subscript) and isinstance(n.slice, ast.Slice) and n.slice.step is not None:
            st = n.slice.step
            if not (isinstance(st, ast.Constant) and st.value == 1):
                yield n, f"slice with step {ast.unparse(st)}"


# --------------------------------------------------------------------------
_SCALARS = {"int", "str", "float", "bool", "bytes", "complex"}
_CONTAINERS = {"list", "dict", "set", "tuple", "frozenset", "Sequence", "Iterable", "Mapping", "deque", "ndarray", "NDArray"}


def falsy_object_tests(ctx, rule, scope) -> int:
    """Truthiness tests (`if x:`, `if not x:`, `x or y`) on a value typed
    ``T | None`` where T is an object type whose instances can be falsy: a
    class of the DispatcherObserver cone (user-extensible: a subclass may
    define ``__len__``), a type variable, or a package class whose cone
    defines ``__len__`` / ``__bool__``.  ``is None`` is what is meant."""
    import re

    chk, repo = ctx.chk, ctx.repo
    obs = repo.find_class(OBSERVER)
    n_tests = 0
    for fi in repo.all_functions():
        if isinstance(fi.node, ast.Lambda) or not scope(fi):
            continue
        for n in own_nodes(fi.node):
            tests = []
            if isinstance(n, (ast.If, ast.While, ast.IfExp, ast.Assert)):
                tests.append(n.test)
            elif isinstance(n, ast.BoolOp):
                tests += list(n.values[:-1]) if isinstance(n.op, ast.Or) else list(n.values)
            for t in tests:
                inner = t.operand if isinstance(t, ast.UnaryOp) and isinstance(t.op, ast.Not) else t
                if not isinstance(inner, (ast.Name, ast.Attribute)):
                    continue
                n_tests += 1
                ty = ctx.types.type_of(fi.module, inner)
                if not ty or "None" not in ty:
                    continue
                heads = [h for h in re.findall(r"[A-Za-z_][A-Za-z0-9_\.]*", ty) if h not in ("None", "Union", "Optional", "builtins")]
                heads = [h.split(".")[-1] for h in heads]
                if not heads or any(h in _SCALARS or h in _CONTAINERS for h in heads):
                    continue
                risky = None
                for h in heads:
                    try:
                        ci = repo.find_class(h)
                    except AnalysisError:
                        risky = f"{h} (a type variable / external type)" if h[0].isupper() else None
                        if risky:
                            break
                        continue
                    if repo.is_subclass(ci, obs.qualname):
                        risky = f"{h} (observers are user-extensible: a subclass with __len__ is falsy while empty)"
                        break
                    for c in repo.subclasses(ci.qualname):
                        if "__len__" in c.methods or "__bool__" in c.methods:
                            risky = f"{c.name} defines {'__len__' if '__len__' in c.methods else '__bool__'}"
                            break
                    if risky:
                        break
                if risky:
                    chk.violation(
                        rule, fi, t,
                        f"`{ast.unparse(t)}` tests the truthiness of a value of type `{ty}`: {risky}, so an existing object is "
                        "treated like None; `is None` / `is not None` is meant",
                        loc=fi.loc(t),
                    )
    return n_tests


# --------------------------------------------------------------------------
_ONE_SHOT = {"filter", "map", "zip", "iter", "reversed", "enumerate"}


def one_shot_captures(ctx, rule, scope, why) -> int:
    """A closure (nested def / lambda) that uses a variable of the enclosing
    function bound to a one-shot iterator (filter/map/zip/iter/reversed/
    enumerate or a generator expression): the first call of the closure
    exhausts it and every later call sees it empty."""
    chk = ctx.chk
    n_closures = 0
    for fi in ctx.repo.all_functions():
        if isinstance(fi.node, ast.Lambda) or not scope(fi):
            continue
        inner = [n for n in ast.walk(fi.node) if isinstance(n, (ast.FunctionDef, ast.Lambda)) and n is not fi.node]
        if not inner:
            continue
        shots = {}
        for n in own_nodes(fi.node):
            if isinstance(n, ast.Assign) and len(n.targets) == 1 and isinstance(n.targets[0], ast.Name):
                v = n.value
                if isinstance(v, ast.GeneratorExp) or (isinstance(v, ast.Call) and isinstance(v.func, ast.Name) and v.func.id in _ONE_SHOT):
                    shots[n.targets[0].id] = n
        for g in inner:
            n_closures += 1
            bound = {a.arg for a in g.args.args + g.args.kwonlyargs}
            body_nodes = ast.walk(g.body) if isinstance(g, ast.Lambda) else (x for st in g.body for x in ast.walk(st))
            for x in body_nodes:
                if isinstance(x, ast.Name) and isinstance(x.ctx, ast.Load) and x.id in shots and x.id not in bound:
                    st = shots[x.id]
                    chk.violation(
                        rule, fi, st,
                        f"`{ast.unparse(st)[:80]}` is a one-shot iterator created once in {fi.name} and consumed inside the "
                        f"returned closure: the first call uses it up, every later call iterates nothing - {why}",
                        loc=fi.loc(st),
                    )
                    break
    return n_closures


# --------------------------------------------------------------------------
def step_of(ctx, fi, stmt, target_text: str):
    """+k / -k when ``stmt`` advances ``target_text`` (e.g. ``self._count``)
    by the integer constant k - as ``t += k``, ``t -= k`` or ``t = <old> + k``
    with <old> an alias-expanded read of t; None otherwise."""
    def const(e):
        if isinstance(e, ast.Constant) and isinstance(e.value, int) and not isinstance(e.value, bool):
            return e.value
        return None

    if isinstance(stmt, ast.AugAssign) and ast.unparse(stmt.target) == target_text:
        k = const(stmt.value)
        if k is None:
            return None
        if isinstance(stmt.op, ast.Add):
            return k
        if isinstance(stmt.op, ast.Sub):
            return -k
        return None
    if isinstance(stmt, ast.Assign) and len(stmt.targets) == 1 and ast.unparse(stmt.targets[0]) == target_text:
        v = ctx.norm.xexpr(fi, stmt.value)
        if isinstance(v, ast.BinOp) and isinstance(v.op, (ast.Add, ast.Sub)):
            l, r = ast.unparse(v.left), ast.unparse(v.right)
            if l == target_text and const(v.right) is not None:
                return const(v.right) if isinstance(v.op, ast.Add) else -const(v.right)
            if r == target_text and const(v.left) is not None and isinstance(v.op, ast.Add):
                return const(v.left)
    return None


# --------------------------------------------------------------------------
def opaque_dispatch(ctx, cls) -> list:
    """Constructs in the methods of ``cls`` that call something the analysis
    cannot resolve statically on an element of a collection: a hook looked up
    with getattr(), a bound method fetched into a variable and called, a
    callable taken from a table.  Where such a construct exists, the *absence*
    of a direct call proves nothing - the rule must refuse, not report."""
    out = []
    for m in cls.methods.values():
        names_from_getattr = set()
        for n in own_nodes(m.node):
            if isinstance(n, ast.Assign) and isinstance(n.value, ast.Call) and isinstance(n.value.func, ast.Name) and n.value.func.id == "getattr":
                names_from_getattr |= {t.id for t in n.targets if isinstance(t, ast.Name)}
        for n in own_nodes(m.node):
            if isinstance(n, ast.Call):
                f = n.func
                if isinstance(f, ast.Call) and isinstance(f.func, ast.Name) and f.func.id == "getattr":
                    out.append((m, n))
                elif isinstance(f, ast.Name) and f.id in names_from_getattr:
                    out.append((m, n))
                elif isinstance(f, ast.Attribute) and isinstance(f.value, ast.Call) and isinstance(f.value.func, ast.Name) and f.value.func.id == "methodcaller":
                    out.append((m, n))
    return out


def ctor_self_write(w) -> bool:
    """The write initialises the object under construction: it happens in
    ``__init__`` / ``__post_init__`` and its target is rooted at that method's
    own ``self``.  A freshly created private helper object is not shared state."""
    fi = w.fi
    if fi.name not in ("__init__", "__post_init__") or not fi.params:
        return False
    obj = w.obj
    while isinstance(obj, (ast.Attribute, ast.Subscript)):
        obj = obj.value
    return isinstance(obj, ast.Name) and obj.id == fi.params[0]


# --------------------------------------------------------------------------
def mutated_mutable_defaults(ctx, module_prefixes: tuple[str, ...]):
    """(function, parameter, write event) for every function of the given
    modules that mutates - directly or through a local alias - the object of a
    *mutable default argument* (``def f(x, acc=[])``): the default is created
    once, so what one call adds is still there in the next call and the result
    depends on the call history."""
    from .c05 import _writes

    out = []
    n_defaults = 0
    for fi in ctx.repo.all_functions():
        if isinstance(fi.node, ast.Lambda) or not fi.module.name.startswith(module_prefixes):
            continue
        a = fi.node.args
        pos = a.posonlyargs + a.args
        pairs = list(zip(pos[len(pos) - len(a.defaults):], a.defaults)) + [(p, d) for p, d in zip(a.kwonlyargs, a.kw_defaults) if d is not None]
        mutable = set()
        for p, d in pairs:
            if isinstance(d, (ast.List, ast.Dict, ast.Set, ast.ListComp, ast.DictComp, ast.SetComp)) or (
                isinstance(d, ast.Call) and isinstance(d.func, ast.Name) and d.func.id in ("list", "dict", "set", "defaultdict", "deque", "bytearray")
            ):
                mutable.add(p.arg)
        if not mutable:
            continue
        n_defaults += len(mutable)
        for w in _writes(ctx, fi, fi.cls):
            for o in w.origins:
                if o[0] == "param" and o[1] in mutable:
                    out.append((fi, o[1], w))
        # `alias += items` extends a list / set / dict in place
        from ..effects import Write

        for ev in ctx.effects.events(fi, fi.cls):
            n = ev.node
            if ev.kind == "write" and isinstance(n, ast.AugAssign) and isinstance(n.target, ast.Name) and isinstance(n.op, (ast.Add, ast.BitOr, ast.BitAnd, ast.Sub)):
                tgt = ast.Name(id=n.target.id, ctx=ast.Load())
                ast.copy_location(tgt, n.target)
                for o in ctx.flow.origins(fi, tgt, fi.cls):
                    if o[0] == "param" and o[1] in mutable:
                        out.append((fi, o[1], Write(fi, ev, tgt, {o}, ())))
    return out, n_defaults


def mutated_class_level_mutables(ctx, module_prefixes: tuple[str, ...]):
    """(class, attribute, function, node) for every class of the given modules
    whose body binds an attribute to a mutable literal (``_cfg: dict = {}``)
    that methods then modify in place through ``self`` without an instance
    attribute of that name ever being assigned: the object is shared by all
    instances."""
    out = []
    n_attrs = 0
    MUT = ("append", "extend", "insert", "add", "update", "setdefault", "pop", "popitem", "remove", "discard", "clear", "appendleft", "sort", "reverse")
    for c in ctx.repo.classes.values():
        if not c.module.name.startswith(module_prefixes):
            continue
        for attr, val in c.class_attrs.items():
            if attr.startswith("__") or not (
                isinstance(val, (ast.List, ast.Dict, ast.Set))
                or (isinstance(val, ast.Call) and isinstance(val.func, ast.Name) and val.func.id in ("list", "dict", "set", "defaultdict", "deque"))
            ):
                continue
            if isinstance(val, ast.Dict) and attr == "__slots__":
                continue
            n_attrs += 1
            methods = [m for q in [c.qualname] + [k.qualname for k in ctx.repo.classes.values() if c.qualname in k.mro] for m in ctx.repo.classes[q].methods.values()]
            rebound = any(
                isinstance(x, ast.Attribute) and x.attr == attr and isinstance(x.ctx, ast.Store) and isinstance(x.value, ast.Name) and m.params and x.value.id == m.params[0]
                for m in methods for x in own_nodes(m.node)
            )
            if rebound:
                continue
            for m in methods:
                if not m.params or m.is_static:
                    continue
                me = m.params[0]
                for x in own_nodes(m.node):
                    tgt = None
                    if isinstance(x, ast.Call) and isinstance(x.func, ast.Attribute) and x.func.attr in MUT:
                        tgt = x.func.value
                    elif isinstance(x, ast.Subscript) and isinstance(x.ctx, (ast.Store, ast.Del)):
                        tgt = x.value
                    elif isinstance(x, ast.AugAssign):
                        tgt = x.target
                    if isinstance(tgt, ast.Attribute) and tgt.attr == attr and isinstance(tgt.value, ast.Name) and tgt.value.id in (me, c.name):
                        out.append((c, attr, m, x))
    return out, n_attrs


def check_mutable_defaults(ctx, rule_id: str, prefixes: tuple[str, ...], what: str):
    """Declares and evaluates the 'no accumulation into a mutable default
    argument' rule for the modules of one property."""
    chk = ctx.chk
    chk.rule(rule_id, f"no function of {what} modifies the object of a mutable default argument or a class-level mutable shared by all instances (a result must not depend on earlier calls / other objects)")
    hits, n_def = mutated_mutable_defaults(ctx, prefixes)
    seen = set()
    for fi, pname, w in hits:
        k = (fi.qualname, pname, id(w.event.node))
        if k in seen:
            continue
        seen.add(k)
        chk.violation(
            rule_id, fi, w.event.node,
            f"`{w.event.data.get('text')}` modifies the object of the mutable default argument `{pname}`: it is created once, "
            "so what one call puts into it is still there in the next call and the result depends on the call history",
            loc=w.loc,
        )
    chits, n_cls = mutated_class_level_mutables(ctx, prefixes)
    for c, attr, m, x in chits:
        chk.violation(
            rule_id, m, x,
            f"`{ast.unparse(x)[:70]}` modifies `{c.name}.{attr}`, a mutable object created once in the class body and never "
            "replaced per instance: every instance shares it, so what one object stores is seen (or overwritten) by the others",
            loc=m.loc(x),
        )
    if not hits and not chits:
        chk.ok(rule_id, ", ".join(prefixes), "", f"{n_def} mutable default arguments and {n_cls} class-level mutable attributes, none is modified")


# --------------------------------------------------------------------------
def _reads_before_write(node, name):
    """First thing that happens to ``name`` when ``node`` (statement list,
    statement or expression) is evaluated: the Name node of a *read*, the string
    "written", or None if it is not touched.  Scopes that rebind the name
    (lambda parameters, comprehension targets, nested functions) hide it."""
    if isinstance(node, list):
        for st in node:
            r = _reads_before_write(st, name)
            if r is not None:
                return r
        return None
    if isinstance(node, (ast.FunctionDef, ast.AsyncFunctionDef, ast.ClassDef)):
        return "written" if getattr(node, "name", None) == name else None
    if isinstance(node, ast.Lambda):
        a = node.args
        if name in {x.arg for x in a.posonlyargs + a.args + a.kwonlyargs} | ({a.vararg.arg} if a.vararg else set()) | ({a.kwarg.arg} if a.kwarg else set()):
            return None
        return _reads_before_write(node.body, name)
    if isinstance(node, (ast.ListComp, ast.SetComp, ast.GeneratorExp, ast.DictComp)):
        for i, g in enumerate(node.generators):
            r = _reads_before_write(g.iter, name)
            if r is not None:
                return r
            if any(isinstance(x, ast.Name) and x.id == name for x in ast.walk(g.target)):
                return None  # shadowed from here on
            for c in g.ifs:
                r = _reads_before_write(c, name)
                if r is not None:
                    return r
        parts = [node.key, node.value] if isinstance(node, ast.DictComp) else [node.elt]
        for p_ in parts:
            r = _reads_before_write(p_, name)
            if r is not None:
                return r
        return None
    if isinstance(node, ast.Name):
        if node.id != name:
            return None
        return node if isinstance(node.ctx, ast.Load) else "written"
    if isinstance(node, (ast.Assign, ast.AnnAssign, ast.AugAssign)):
        v = node.value
        if v is not None:
            r = _reads_before_write(v, name)
            if r is not None:
                return r
        tgts = node.targets if isinstance(node, ast.Assign) else [node.target]
        for t in tgts:
            if isinstance(node, ast.AugAssign) and isinstance(t, ast.Name) and t.id == name:
                return t  # x += ... reads x
            r = _reads_before_write(t, name)
            if r is not None:
                return r
        return None
    if isinstance(node, (ast.For, ast.AsyncFor)):
        r = _reads_before_write(node.iter, name)
        if r is not None:
            return r
        if any(isinstance(x, ast.Name) and x.id == name for x in ast.walk(node.target)):
            # rebound on entry; an empty iterable leaves the old value, but a
            # later read then concerns this loop, not the earlier one
            return "written"
        return _reads_before_write(node.body, name) or _reads_before_write(node.orelse, name)
    if isinstance(node, ast.If):
        r = _reads_before_write(node.test, name)
        if r is not None:
            return r
        a, b = _reads_before_write(node.body, name), _reads_before_write(node.orelse, name)
        for x in (a, b):
            if isinstance(x, ast.Name):
                return x
        return "written" if a == "written" and b == "written" else None
    if isinstance(node, ast.AST):
        for fld, val in ast.iter_fields(node):
            if isinstance(val, ast.AST):
                r = _reads_before_write(val, name)
                if r is not None:
                    return r
            elif isinstance(val, list):
                for x in val:
                    if isinstance(x, ast.AST):
                        r = _reads_before_write(x, name)
                        if r is not None:
                            return r
    return None


def loop_variable_leaks(ctx, module_prefixes: tuple[str, ...]):
    """(function, loop, variable, use) where a statement *after* a ``for`` loop
    reads the loop's variable although the loop has no ``break``: what is read
    is whatever the last iteration left behind (typically a statement that was
    meant to be inside the loop, one indentation level deeper), and nothing at
    all if the iterable was empty."""
    out = []
    n_loops = 0
    for fi in ctx.repo.all_functions():
        if isinstance(fi.node, ast.Lambda) or not fi.module.name.startswith(module_prefixes):
            continue
        for p in [fi.node] + [n for n in own_nodes(fi.node)]:
            for fld in ("body", "orelse", "finalbody"):
                blk = getattr(p, fld, None)
                if not (isinstance(blk, list) and blk and isinstance(blk[0], ast.stmt)):
                    continue
                for i, st in enumerate(blk):
                    if not isinstance(st, ast.For) or st.orelse:
                        continue
                    n_loops += 1
                    if any(isinstance(x, (ast.Break, ast.Return)) for x in ast.walk(st)):
                        continue  # a search loop: the variable is its result
                    for name in sorted({x.id for x in ast.walk(st.target) if isinstance(x, ast.Name)} - {"_"}):
                        r = _reads_before_write(blk[i + 1:], name)
                        if isinstance(r, ast.Name):
                            out.append((fi, st, name, r))
    return out, n_loops


def check_loop_variable_leaks(ctx, rule_id: str, prefixes: tuple[str, ...], what: str):
    chk = ctx.chk
    chk.rule(rule_id, f"no function of {what} reads a for-loop variable after its loop (a statement left one indentation level too shallow only sees the last element)")
    hits, n_loops = loop_variable_leaks(ctx, prefixes)
    for fi, lp, name, use in hits:
        chk.violation(
            rule_id, fi, use,
            f"`{name}` is read after the loop `for {ast.unparse(lp.target)} in {ast.unparse(lp.iter)[:50]}` has ended: only the value of the "
            "last iteration is seen (the statement belongs inside the loop), and with an empty iterable the name is not bound at all",
            loc=fi.loc(use),
        )
    if not hits:
        chk.ok(rule_id, ", ".join(prefixes), "", f"{n_loops} for-loops, no loop variable is read after its loop")


# --------------------------------------------------------------------------
def str_enum_identity_tests(ctx, module_prefixes: tuple[str, ...]):
    """(function, compare node, enum class) for `x is E.MEMBER` / `is not`
    where E is a ``str``-mixin Enum of the package.  The library accepts the
    plain string for such enums everywhere (they compare equal to it and hash
    alike), so a value arriving as "jobs" is `==` FeatureType.JOBS but not
    `is` it.  Exempt: the function converted the value itself (`E(x)`)."""
    repo = ctx.repo
    enums = {}
    for c in repo.classes.values():
        bs = [b.split(".")[-1] for b in c.base_exprs]
        if "str" in bs and any(b in ("Enum",) for b in bs):
            enums[c.name] = c
    out = []
    n = 0
    for fi in repo.all_functions():
        if isinstance(fi.node, ast.Lambda) or not fi.module.name.startswith(module_prefixes):
            continue
        for x in own_nodes(fi.node):
            if isinstance(x, ast.MatchValue):
                continue
            if not (isinstance(x, ast.Compare) and len(x.ops) == 1):
                continue
            sides = [x.left, x.comparators[0]]
            member = next((sd for sd in sides if isinstance(sd, ast.Attribute) and isinstance(sd.value, ast.Name) and sd.value.id in enums), None)
            if member is None:
                continue
            n += 1
            if not isinstance(x.ops[0], (ast.Is, ast.IsNot)):
                continue
            other = sides[1] if sides[0] is member else sides[0]
            en = member.value.id
            converted = any(
                isinstance(c, ast.Call) and isinstance(c.func, ast.Name) and c.func.id == en and c.args
                and isinstance(other, ast.Name) and any(isinstance(t, ast.Name) and t.id == other.id for t in ast.walk(c.args[0]))
                for c in own_nodes(fi.node)
            )
            if not converted:
                out.append((fi, x, enums[en]))
    return out, n


def check_str_enum_identity(ctx, rule_id: str, prefixes: tuple[str, ...], what: str):
    chk = ctx.chk
    chk.rule(rule_id, f"no function of {what} tests a str-Enum value by identity (plain strings are accepted for these enums and are equal, not identical, to the member)")
    hits, n = str_enum_identity_tests(ctx, prefixes)
    for fi, node, en in hits:
        chk.violation(
            rule_id, fi, node,
            f"`{ast.unparse(node)}` tests a {en.name} value by identity: {en.name} is a str-Enum and the library accepts the plain "
            "string for it (it is equal to the member and selects the same dictionary entries), so for a value given as a "
            "string this branch is never taken",
            loc=fi.loc(node),
        )
    if not hits:
        chk.ok(rule_id, ", ".join(prefixes), "", f"{n} comparisons with str-Enum members, none by identity")


# --------------------------------------------------------------------------
_IMMEDIATE_CONSUMERS = {"sorted", "min", "max", "map", "filter", "any", "all", "sum", "next", "list", "tuple", "set", "dict", "reduce", "takewhile", "dropwhile", "groupby"}


def late_binding_closures(ctx, module_prefixes: tuple[str, ...]):
    """(function, closure node, variable) for a lambda / nested def created in
    a ``for`` loop that reads the loop variable as a free variable and is *kept*
    (stored in a container or attribute, returned, yielded): every kept
    closure sees the value of the last iteration.  Closures handed to a call
    that consumes them at once (``sorted(key=...)``, ``min``, ``map`` ...) and
    closures that bind the variable as a default (``lambda x, v=v: ...``) are
    fine."""
    out = []
    n = 0
    for fi in ctx.repo.all_functions():
        if isinstance(fi.node, ast.Lambda) or not fi.module.name.startswith(module_prefixes):
            continue
        parents = fi.module.parents
        for lp in own_nodes(fi.node):
            if not isinstance(lp, (ast.For, ast.comprehension)):
                continue
            tnames = {x.id for x in ast.walk(lp.target) if isinstance(x, ast.Name)} - {"_"}
            if isinstance(lp, ast.For):
                # names rebound in every iteration behave like the loop variable
                for b in lp.body:
                    for x in ast.walk(b):
                        if isinstance(x, (ast.FunctionDef, ast.Lambda)):
                            continue
                        if isinstance(x, ast.Name) and isinstance(x.ctx, ast.Store):
                            tnames.add(x.id)
                for b in lp.body:
                    for x in ast.walk(b):
                        if isinstance(x, ast.FunctionDef):
                            tnames.discard(x.name)
            if not tnames:
                continue
            scope = lp.body if isinstance(lp, ast.For) else None
            if scope is None:
                # comprehension: the element expression(s) of the enclosing comprehension
                comp = parents.get(lp)
                if comp is None:
                    continue
                scope = [comp.elt] if hasattr(comp, "elt") else [comp.key, comp.value]
            for st in scope:
                for c in ast.walk(st):
                    if not isinstance(c, (ast.Lambda, ast.FunctionDef)):
                        continue
                    n += 1
                    a = c.args
                    bound = {x.arg for x in a.posonlyargs + a.args + a.kwonlyargs} | ({a.vararg.arg} if a.vararg else set()) | ({a.kwarg.arg} if a.kwarg else set())
                    body = [c.body] if isinstance(c, ast.Lambda) else c.body
                    local_stores = {x.id for b in body for x in ast.walk(b) if isinstance(x, ast.Name) and isinstance(x.ctx, ast.Store)}
                    free = {x.id for b in body for x in ast.walk(b) if isinstance(x, ast.Name) and isinstance(x.ctx, ast.Load)} - bound - local_stores
                    hit = sorted(free & tnames)
                    if not hit:
                        continue
                    # how is the closure used?
                    kept = False
                    if isinstance(c, ast.FunctionDef):
                        # a named nested def: kept if its name is stored / returned / appended
                        for x in ast.walk(st if isinstance(lp, ast.For) else c):
                            pass
                        uses = [x for b in (lp.body if isinstance(lp, ast.For) else []) for x in ast.walk(b) if isinstance(x, ast.Name) and x.id == c.name and isinstance(x.ctx, ast.Load)]
                        for u in uses:
                            pu = parents.get(u)
                            if isinstance(pu, ast.Call) and pu.func is u:
                                continue  # called here
                            if isinstance(pu, ast.Call) and (isinstance(pu.func, ast.Name) and pu.func.id in _IMMEDIATE_CONSUMERS):
                                continue
                            if isinstance(pu, ast.keyword) and pu.arg == "key":
                                continue
                            kept = True
                    else:
                        pu = parents.get(c)
                        if isinstance(pu, ast.keyword):
                            call = parents.get(pu)
                            fn = call.func if isinstance(call, ast.Call) else None
                            nm = fn.id if isinstance(fn, ast.Name) else fn.attr if isinstance(fn, ast.Attribute) else ""
                            kept = not (pu.arg == "key" or nm in _IMMEDIATE_CONSUMERS or nm == "sort")
                        elif isinstance(pu, ast.Call):
                            fn = pu.func
                            nm = fn.id if isinstance(fn, ast.Name) else fn.attr if isinstance(fn, ast.Attribute) else ""
                            if pu.func is c:
                                kept = False
                            else:
                                kept = nm not in _IMMEDIATE_CONSUMERS and nm != "sort"
                        else:
                            kept = True  # assigned, stored in a display, returned, yielded ...
                    if kept:
                        out.append((fi, c, hit[0]))
    return out, n


def check_late_binding(ctx, rule_id: str, prefixes: tuple[str, ...], what: str):
    chk = ctx.chk
    chk.rule(rule_id, f"no closure created in a loop of {what} keeps a reference to the loop variable (late binding: every kept closure sees the last value)")
    hits, n = late_binding_closures(ctx, prefixes)
    for fi, c, var in hits:
        chk.violation(
            rule_id, fi, c,
            f"a {'lambda' if isinstance(c, ast.Lambda) else 'function'} created in a loop reads the loop variable `{var}` when it is *called*, not when it is "
            "created: all the closures kept from that loop use the value of the last iteration",
            loc=fi.loc(c),
        )
    if not hits:
        chk.ok(rule_id, ", ".join(prefixes), "", f"{n} closures created in loops, none keeps the loop variable by reference")


def mangled_overrides(ctx, module_prefixes: tuple[str, ...]):
    """(class, method) where a class defines ``__name`` (two leading
    underscores, not a dunder) that a base class of the package also defines:
    such names are mangled per class, so the subclass method does not override
    the base's and calls made in the base never reach it."""
    out = []
    for c in ctx.repo.classes.values():
        if not c.module.name.startswith(module_prefixes):
            continue
        for name, m in c.methods.items():
            if name.startswith("__") and not name.endswith("__") and m.cls is c:
                for b in c.mro[1:]:
                    bc = ctx.repo.classes.get(b)
                    if bc is not None and name in bc.methods and bc.methods[name].cls is bc:
                        out.append((c, m, bc))
    return out


def modules_defining(ctx, package: str, want) -> tuple[str, ...]:
    """Names of the modules in which the public names of ``package`` selected
    by ``want`` (a predicate on the exported name) are defined, found through
    the package's own imports - so that renaming, splitting or merging private
    modules moves a rule's scope along instead of silently emptying it."""
    repo = ctx.repo
    mi = repo.modules.get(package)
    if mi is None:
        raise AnalysisError(f"package {package} vanished")
    out = set()
    for name in list(mi.imports) + list(mi.functions) + list(mi.classes):
        if not want(name):
            continue
        q = repo.resolve(package, name)
        if q is None:
            continue
        if q in repo.functions:
            out.add(repo.functions[q].module.name)
        elif q in repo.classes:
            out.add(repo.classes[q].module.name)
    if not out:
        raise AnalysisError(f"no public name of {package} selected for a rule's module scope (anchor vanished)")
    return tuple(sorted(out))


def retained_params(ctx, t: FuncInfo, _depth: int = 0) -> set[int]:
    """Indices of the parameters of ``t`` that it stores, uncopied, into an
    attribute of some object (``x.attr = p``, also through a local alias or a
    conditional expression): the callee keeps the caller's object."""
    out = set()
    if isinstance(t.node, ast.Lambda) or _depth > 3:
        return out
    memo = ctx.__dict__.setdefault("_retained_memo", {})
    if t.qualname in memo:
        return memo[t.qualname]
    memo[t.qualname] = out  # recursion guard
    # ... or hands on to a callee that keeps it
    from ..lifecycle import Lifecycle

    lc = ctx.__dict__.get("_retained_lc") or ctx.__dict__.setdefault("_retained_lc", Lifecycle(ctx))
    for ev, t2, rc in ctx.effects.calls(t, t.cls):
        if isinstance(t2.node, ast.Lambda) or t2 is t:
            continue
        for i in retained_params(ctx, t2, _depth + 1):
            arg = lc._arg_expr(ev, t2, i)
            if arg is None:
                continue
            for o in ctx.flow.origins(t, arg, t.cls):
                if o[0] == "param" and o[1] in t.params:
                    out.add(t.params.index(o[1]))
    for n in own_nodes(t.node):
        if isinstance(n, ast.Assign):
            pairs = [(tg, n.value) for tg in n.targets]
        elif isinstance(n, ast.AnnAssign) and n.value is not None:
            pairs = [(n.target, n.value)]
        else:
            continue
        for tg, v in pairs:
            if not isinstance(tg, ast.Attribute):
                continue
            for o in ctx.flow.origins(t, v, t.cls):
                if o[0] == "param" and o[1] in t.params:
                    out.add(t.params.index(o[1]))
    return out


def check_state_escape(ctx, rule_id: str, cls: ClassInfo, what: str):
    """Zero-expected rule: a container attribute that the methods of ``cls``
    update in place (``self.a.update(..)``, ``self.a[k] = v``, ``pop`` ...)
    is not handed to a callee that keeps it (stores it into an attribute of
    another object).  Otherwise the object produced by one call keeps changing
    with every later call."""
    from ..lifecycle import Lifecycle

    chk, repo, eff, flow = ctx.chk, ctx.repo, ctx.effects, ctx.flow
    lc = Lifecycle(ctx)
    mutated: dict[str, tuple] = {}
    methods = [m for m in cls.methods.values() if m.params and not m.is_static]
    for m in methods:
        if m.name == "__init__":
            continue
        me = m.params[0]
        for ev in eff.events(m, cls):
            if ev.kind != "write" or ev.data.get("op") == "loopvar":
                continue
            obj = eff.mutated_object(ev)
            if obj is None:
                continue
            for o in flow.origins(m, obj, cls):
                if o[0] == "attr" and o[1] == me and len(o[2]) == 1:
                    mutated.setdefault(o[2][0], (m, ev))
    n_calls = 0
    hits = 0
    for m in methods:
        me = m.params[0]
        for ev, t, rc in eff.calls(m, cls):
            if isinstance(t.node, ast.Lambda):
                continue
            keep = retained_params(ctx, t)
            if not keep:
                continue
            n_calls += 1
            for i in keep:
                arg = lc._arg_expr(ev, t, i)
                if arg is None:
                    continue
                for o in flow.origins(m, arg, cls):
                    if o[0] == "attr" and o[1] == me and len(o[2]) == 1 and o[2][0] in mutated:
                        m2, ev2 = mutated[o[2][0]]
                        hits += 1
                        chk.violation(
                            rule_id, m, ev.node,
                            f"`self.{o[2][0]}` is handed to {t.name}, which keeps it (parameter `{t.params[i]}` is stored "
                            f"uncopied), and {m2.name} updates that same object in place (`{ev2.data.get('text')}`): "
                            f"{what} changes again with every later call",
                            loc=m.loc(ev.node),
                        )
                        break
    if not hits:
        chk.ok(rule_id, cls.qualname, "", f"{len(mutated)} attributes updated in place, {n_calls} calls to callees that keep an argument: none receives such an attribute")


# --------------------------------------------------------------------------
def check_per_machine_double_count(ctx, rule_id: str, prefixes: tuple[str, ...], what: str):
    """Zero-expected rule: ``instance.operations_by_machine`` lists a flexible
    operation under *every* machine it can run on.  A quantity kept per job or
    per operation (index built from ``<op>.job_id`` / ``<op>.operation_id`` /
    ``<op>.position_in_job``) that is accumulated (``+=``, ``-=``) while
    walking those lists counts such an operation once per eligible machine."""
    chk, repo = ctx.chk, ctx.repo
    chk.rule(rule_id, f"no per-job / per-operation quantity of {what} is accumulated while walking operations_by_machine (a flexible operation is listed under each of its machines)")
    n_walks = hits = 0
    for fi in repo.all_functions():
        if isinstance(fi.node, ast.Lambda) or not fi.module.name.startswith(prefixes):
            continue
        defs = ctx.flow.defs(fi)

        def by_machine(e, depth=0):
            if depth > 3:
                return False
            if isinstance(e, ast.Attribute):
                return e.attr == "operations_by_machine"
            if isinstance(e, ast.Call) and isinstance(e.func, ast.Name) and e.func.id in ("enumerate", "reversed", "list", "tuple", "iter") and e.args:
                return by_machine(e.args[0], depth + 1)
            if isinstance(e, ast.Name):
                return any(kind == "value" and by_machine(v, depth + 1) for kind, v, _ in defs.of(e.id))
            return False

        for outer in own_nodes(fi.node):
            if not (isinstance(outer, ast.For) and by_machine(outer.iter)):
                continue
            n_walks += 1
            tnames = [x.id for x in ast.walk(outer.target) if isinstance(x, ast.Name)]
            # for m, ops in enumerate(...): the list is the last target; for ops in ...: the only one
            lists = tnames[-1:]
            mvars = set(tnames[:-1])
            for inner in ast.walk(outer):
                if not (isinstance(inner, ast.For) and isinstance(inner.iter, ast.Name) and inner.iter.id in lists and isinstance(inner.target, ast.Name)):
                    continue
                opv = inner.target.id
                for st in ast.walk(inner):
                    if not (isinstance(st, ast.AugAssign) and isinstance(st.target, ast.Subscript)):
                        continue
                    idx = st.target.slice
                    keyed_by_op = any(
                        isinstance(x, ast.Attribute) and isinstance(x.value, ast.Name) and x.value.id == opv
                        and x.attr in ("job_id", "operation_id", "position_in_job")
                        for x in ast.walk(idx)
                    )
                    keyed_by_machine = any(isinstance(x, ast.Name) and x.id in mvars for x in ast.walk(idx))
                    if keyed_by_op and not keyed_by_machine:
                        hits += 1
                        chk.violation(
                            rule_id, fi, st,
                            f"`{ast.unparse(st)[:90]}` runs once per (machine, operation) pair of operations_by_machine: an operation "
                            "with several eligible machines is added once for each of them, so the per-job / per-operation value "
                            "is too large on flexible instances",
                            loc=fi.loc(st),
                        )
    if not hits:
        chk.ok(rule_id, ", ".join(prefixes), "", f"{n_walks} walks over operations_by_machine, none accumulates a per-job / per-operation quantity")


# --------------------------------------------------------------------------
# private memos: `if self._m is None: self._m = <computed>; return self._m`
def _touched_attrs(w, me: str) -> set[str]:
    """Attributes of ``self`` a Write stores into / mutates (through aliases)."""
    out = set()
    tgt = w.event.data.get("target")
    if isinstance(tgt, ast.Attribute) and isinstance(tgt.value, ast.Name) and tgt.value.id == me:
        out.add(tgt.attr)

    def walk(o):
        if isinstance(o, tuple):
            if len(o) >= 3 and o[0] == "attr" and o[1] == "self" and isinstance(o[2], tuple) and o[2]:
                out.add(o[2][0])
            for x in o:
                walk(x)

    for o in w.origins:
        walk(o)
    return out


def memo_discipline(ctx, ci) -> dict:
    """{attribute: compute method} for the private memo attributes of class
    ``ci`` that are kept correctly:

    * the attribute is private, ``None`` when empty, and filled (with something
      other than None) in exactly one method Q, only under ``if self.<m> is None``;
      Q stores nothing else on ``self``;
    * every other method (or property setter) of the class that stores into /
      mutates an attribute Q's computation reads also sets ``self.<m> = None``
      as an unconditional statement of its body.

    A write that fills such a memo changes no observable state: rules about
    "queries write nothing" skip it.  A memo that is NOT invalidated by one of
    the writers is not in the result - the fill then counts as what it is, a
    write that makes the query's answer depend on the history."""
    cache = getattr(ctx, "_memo_disc", None)
    if cache is None:
        cache = {}
        try:
            ctx._memo_disc = cache
        except Exception:  # pragma: no cover
            pass
    if ci.qualname in cache:
        return cache[ci.qualname]
    out: dict = {}
    cache[ci.qualname] = out
    methods = [m for m in list(ci.methods.values()) + list(ci.setters.values()) if not isinstance(m.node, ast.Lambda) and m.params]
    stores: dict[str, list] = {}
    for m in methods:
        me = m.params[0]
        for n in own_nodes(m.node):
            tgs = n.targets if isinstance(n, ast.Assign) else [n.target] if isinstance(n, (ast.AnnAssign, ast.AugAssign)) else []
            for t in tgs:
                if isinstance(t, ast.Attribute) and isinstance(t.value, ast.Name) and t.value.id == me:
                    stores.setdefault(t.attr, []).append((m, n, getattr(n, "value", None)))
    method_names = set(ci.methods) | set(ci.setters)
    for attr, ws in stores.items():
        if not attr.startswith("_") or attr.startswith("__"):
            continue
        is_none = lambda v: isinstance(v, ast.Constant) and v.value is None  # noqa: E731
        fills = [(m, n) for m, n, v in ws if not is_none(v)]
        if not fills or not any(is_none(v) for _m, _n, v in ws):
            continue
        qs = {m.qualname: m for m, _n in fills}
        if len(qs) != 1:
            continue
        q = next(iter(qs.values()))
        if q.name == "__init__" or q in ci.setters.values():
            continue
        me = q.params[0]

        def under_none_test(n, q=q, me=me, attr=attr):
            p = q.module.parents.get(n)
            while p is not None and p is not q.node:
                if isinstance(p, ast.If) and n_in(p.body, n):
                    t = p.test
                    if (
                        isinstance(t, ast.Compare) and len(t.ops) == 1 and isinstance(t.ops[0], ast.Is)
                        and isinstance(t.comparators[0], ast.Constant) and t.comparators[0].value is None
                        and isinstance(t.left, ast.Attribute) and t.left.attr == attr
                        and isinstance(t.left.value, ast.Name) and t.left.value.id == me
                    ):
                        return True
                p = q.module.parents.get(p)
            return False

        def n_in(block, n):
            return any(x is n for b in block for x in ast.walk(b))

        if not all(isinstance(n, (ast.Assign, ast.AnnAssign)) and under_none_test(n) for _m, n in fills):
            continue
        # from here on the attribute has the *shape* of a memo (None when empty, filled only under `is None` in one
        # method): if a writer below forgets to reset it, the fill is a stale value handed out - a positively
        # recognised defect, not "bookkeeping of unknown merit" (see new_private_state)
        shapes = getattr(ctx, "_memo_shapes", None)
        if shapes is None:
            shapes = {}
            try:
                ctx._memo_shapes = shapes
            except Exception:  # pragma: no cover
                pass
        shapes.setdefault(ci.qualname, set()).add(attr)
        if any(a != attr and any(m is q for m, _n, _v in ws2) for a, ws2 in stores.items()):
            continue
        try:
            own = ctx.effects.own_writes(q, ci)
        except Exception:
            continue
        if any(_touched_attrs(w, me) - {attr} for w in own):
            continue
        # what the computation reads (Q and the methods of the class it runs)
        reads: set[str] = set()
        try:
            clo = ctx.effects.closure(q, ci, max_depth=3)
        except Exception:
            continue
        for f, _rc, _via in clo:
            if f.cls is not None and (f.cls.qualname in ci.mro or ci.qualname in f.cls.mro):
                reads |= self_attr_reads(f)
        reads -= {attr}
        reads -= method_names
        if not reads:
            continue
        ok = True
        for w_ in methods:
            if w_ is q:
                continue
            wme = w_.params[0]
            try:
                touched = set().union(*[_touched_attrs(x, wme) for x in ctx.effects.own_writes(w_, ci)]) if ctx.effects.own_writes(w_, ci) else set()
            except Exception:
                ok = False
                break
            if not (touched & reads):
                continue
            inval = any(
                isinstance(st, (ast.Assign, ast.AnnAssign)) and st.value is not None and is_none(st.value)
                and any(
                    isinstance(t, ast.Attribute) and t.attr == attr and isinstance(t.value, ast.Name) and t.value.id == wme
                    for t in (st.targets if isinstance(st, ast.Assign) else [st.target])
                )
                for st in w_.node.body
            )
            if not inval:
                ok = False
                break
        if ok:
            out[attr] = q
    _keyed_memos(ctx, ci, methods, stores, method_names, out)
    return out


def _keyed_memos(ctx, ci, methods, stores, method_names, out) -> None:
    """The keyed form of the same discipline: a private dict, `{}` in the constructor, filled by
    `self.<m>[key] = value` in exactly one statement of one method Q (under a test that mentions the table or a
    value looked up in it), otherwise only looked up (`[k]`, `.get(k)`, `k in`), emptied as a whole (`.clear()`,
    `= {}`) - never entry by entry - and emptied, as an unconditional statement, by every method that writes what
    Q's computation reads."""
    def private(a):
        return a.startswith("_") and not a.startswith("__")

    def empty(v):
        return (isinstance(v, ast.Dict) and not v.keys) or (
            isinstance(v, ast.Call) and isinstance(v.func, ast.Name) and v.func.id == "dict" and not v.args and not v.keywords)

    keyed: dict[str, list] = {}
    for m in methods:
        me = m.params[0]
        for n in own_nodes(m.node):
            if isinstance(n, ast.Assign) and len(n.targets) == 1 and isinstance(n.targets[0], ast.Subscript):
                t = n.targets[0].value
                if isinstance(t, ast.Attribute) and isinstance(t.value, ast.Name) and t.value.id == me and private(t.attr):
                    keyed.setdefault(t.attr, []).append((m, n))
    for attr, fills in keyed.items():
        if attr in out or len(fills) != 1:
            continue
        q, fill = fills[0]
        if q.name == "__init__" or q in ci.setters.values():
            continue
        me = q.params[0]
        ws = stores.get(attr, [])
        if not ws or not all(v is not None and empty(v) for _m, _n, v in ws) or not any(m.name == "__init__" for m, _n, _v in ws):
            continue
        # every other use of the table is a look-up or a wholesale emptying
        disciplined = True
        for m in methods:
            sn = m.params[0]
            for n in own_nodes(m.node):
                if not (isinstance(n, ast.Attribute) and n.attr == attr and isinstance(n.value, ast.Name) and n.value.id == sn):
                    continue
                par = m.module.parents.get(n)
                if isinstance(par, ast.Subscript) and par.value is n and (isinstance(par.ctx, ast.Load) or par is fill.targets[0]):
                    continue
                if isinstance(par, ast.Attribute) and par.attr in ("get", "clear") and isinstance(m.module.parents.get(par), ast.Call) \
                        and m.module.parents.get(par).func is par:
                    continue
                if isinstance(par, ast.Compare) and n in par.comparators and all(isinstance(o, (ast.In, ast.NotIn)) for o in par.ops):
                    continue
                if isinstance(par, (ast.Assign, ast.AnnAssign)) and isinstance(n.ctx, ast.Store):
                    continue
                disciplined = False
        if not disciplined:
            continue
        # the fill sits under a test of the table (a miss)
        guarded = False
        p_ = q.module.parents.get(fill)
        while p_ is not None and p_ is not q.node:
            if isinstance(p_, ast.If):
                names = {x.id for x in ast.walk(p_.test) if isinstance(x, ast.Name)}
                if f"{me}.{attr}" in ast.unparse(p_.test) or any(
                    isinstance(a_, ast.Assign) and len(a_.targets) == 1 and isinstance(a_.targets[0], ast.Name) and a_.targets[0].id in names
                    and f"{me}.{attr}" in ast.unparse(a_.value) for a_ in own_nodes(q.node)
                ):
                    guarded = True
            p_ = q.module.parents.get(p_)
        if not guarded:
            continue
        shapes = getattr(ctx, "_memo_shapes", None)
        if shapes is None:
            shapes = {}
            try:
                ctx._memo_shapes = shapes
            except Exception:  # pragma: no cover
                pass
        shapes.setdefault(ci.qualname, set()).add(attr)
        try:
            own = ctx.effects.own_writes(q, ci)
            clo = ctx.effects.closure(q, ci, max_depth=3)
        except Exception:
            continue
        if any(_touched_attrs(w, me) - {attr} for w in own):
            continue
        reads: set[str] = set()
        for f, _rc, _via in clo:
            if f.cls is not None and (f.cls.qualname in ci.mro or ci.qualname in f.cls.mro):
                reads |= self_attr_reads(f)
        reads -= {attr}
        reads -= method_names
        if not reads:
            continue
        ok = True
        for w_ in methods:
            if w_ is q:
                continue
            wme = w_.params[0]
            try:
                ow = ctx.effects.own_writes(w_, ci)
                touched = set().union(*[_touched_attrs(x, wme) for x in ow]) if ow else set()
            except Exception:
                ok = False
                break
            if not (touched & reads):
                continue
            inval = any(
                (isinstance(st, ast.Expr) and isinstance(st.value, ast.Call) and ast.unparse(st.value) == f"{wme}.{attr}.clear()")
                or (isinstance(st, (ast.Assign, ast.AnnAssign)) and st.value is not None and empty(st.value) and any(
                    isinstance(t, ast.Attribute) and t.attr == attr and isinstance(t.value, ast.Name) and t.value.id == wme
                    for t in (st.targets if isinstance(st, ast.Assign) else [st.target])))
                for st in w_.node.body
            )
            if not inval:
                ok = False
                break
        if ok:
            out[attr] = q


def is_memo_fill(ctx, ev) -> bool:
    """The write event fills a correctly kept private memo of its class
    (see memo_discipline)."""
    if ev.kind != "write":
        return False
    fi = ev.fi
    ci = getattr(fi, "cls", None)
    tgt = ev.data.get("target")
    if isinstance(tgt, ast.Subscript) and isinstance(tgt.value, ast.Attribute):
        tgt = tgt.value  # keyed memo: `self._m[key] = value`
    if ci is None or not fi.params or not (isinstance(tgt, ast.Attribute) and isinstance(tgt.value, ast.Name) and tgt.value.id == fi.params[0]):
        return False
    try:
        md = memo_discipline(ctx, ci)
    except Exception:
        return False
    q = md.get(tgt.attr)
    return q is not None and q.qualname == fi.qualname.split("#")[0]


# --------------------------------------------------------------------------
# state the pinned tree does not have
def new_private_state(ctx, w) -> str | None:
    """``w`` (an effects.Write) stores into / mutates a private attribute of
    ``self`` that the pinned class does not have (`self._completed = set()`,
    `self._pending.append(x)` with `_pending` unknown to ``BASELINE_ATTRS``):
    the attribute's name.  Rules of the form "a query writes nothing shared"
    are *sufficient* conditions; bookkeeping a later commit adds to make a
    query incremental breaks them without breaking the property, and whether
    the bookkeeping is right is beyond them - they refuse instead of
    reporting (a correctly kept memo is accepted outright, see
    memo_discipline)."""
    from ..baseline_api import BASELINE_ATTRS

    fi = w.fi
    ci = getattr(fi, "cls", None)
    if ci is None or not fi.params:
        return None
    known = set()
    for q in ci.mro:
        known |= set(BASELINE_ATTRS.get(q.rsplit(".", 1)[-1], ()))
    if not any(q.rsplit(".", 1)[-1] in BASELINE_ATTRS for q in ci.mro):
        return None  # not a pinned class: nothing to compare with
    touched = _touched_attrs(w, fi.params[0])
    try:
        memo_discipline(ctx, ci)
    except Exception:
        pass
    memo_like = (getattr(ctx, "_memo_shapes", None) or {}).get(ci.qualname, set())
    new = sorted(a for a in touched if a.startswith("_") and not a.startswith("__") and a not in known and a not in memo_like)
    if new and len(new) == len(touched):
        return new[0]
    return None
