"""C04 - dispatching-rule solvers (structural clauses).

R04.a  selection provenance: every value returned by a built-in rule (and by
       the closures made by score_based_rule / ..._with_tie_breaker) is an
       element of ``dispatcher.available_operations()``.
R04.b  criterion table: direction and key of each documented rule
       (SPT argmin duration, FCFS argmin position, MWKR argmax remaining job
       work over unscheduled operations, MOR argmax remaining job operations).
R04.c  tie-break domain agreement: the threshold candidates are filtered
       against is computed over the candidates' own scores.
R04.d  solver progress: solve loops until the schedule is complete around
       step; step dispatches exactly once, the rule's operation on the
       chooser's machine.
R04.e  metadata: elapsed_time = (clock after solve) - (clock before);
       solved_by is the solver's class name.
R04.l  per-dispatcher caches: a scorer / rule object that remembers the
       dispatcher it last worked for drops every observer it fetched from the
       previous one, wholly, on the dispatcher-changed branch.
R04.f  registries are total and name-consistent; machine choosers return an
       element of ``operation.machines``.
R04.h  no function of these modules modifies the object of a mutable default
       argument (directly, through a local alias, or with ``+=``): the result
       of a call must not depend on earlier calls.
R04.i  no for-loop variable of these modules is read after its loop (a statement
       left one indentation level too shallow sees only the last element).
R04.j  no str-Enum value (FeatureType, ...Type) is tested by identity: plain strings
       are accepted for these enums and are equal, not identical, to the member.
R04.k  no closure created in a loop of these modules keeps the loop variable by
       reference (late binding) - every kept closure would see the last value.
"""

from __future__ import annotations

import ast

from ..repo import AnalysisError, FuncInfo, dotted, own_nodes
from ..sublist import SubInterp, is_sub
from .c07 import registry
from .common import ctor_self_write, is_memo_fill, key_lambda, new_private_state, one_shot_captures

MANIFEST = {
    "text": (
        "Decides, for every state and instance, that each built-in rule returns "
        "an element of dispatcher.available_operations() (abstract "
        "interpretation of all return paths, so 'the selected operation is "
        "available' holds universally); that each rule's direction and key are "
        "the documented criterion (argmin duration / position, argmax remaining "
        "job work / operations over the documented source); that the "
        "tie-breaking rule thresholds against the candidates' own scores; that "
        "the solver loops on schedule completeness and each step dispatches "
        "exactly once what the rule and the chooser selected; that elapsed_time "
        "is end minus start and solved_by the class name; and that the rule and "
        "chooser registries are total, name-consistent and choose among the "
        "operation's eligible machines. Not decided: termination through "
        "non-empty filters, value-level optimality of the choice, equality of "
        "the direct and observer-based MWKR choices."
        " Also decided: no function of these modules accumulates into a mutable default argument."
        " Also decided: no for-loop variable of these modules is read after its loop (statement left one indentation level too shallow)."
        " Also decided: no str-Enum value is tested by identity (plain strings are accepted for these enums)."
        " Also decided: no closure created in a loop keeps the loop variable by reference (late binding)."
        " Also decided: an object that caches observers per dispatcher resets every such cache wholly when the dispatcher changes."
    ),
    "note": "Criterion idioms recognised: min/max(xs, key=...), sorted(xs, key=...)[0], negated keys; accumulation tables built by a loop over a dispatcher query. Other shapes are ANALYSIS-ERROR.",
    "technique": "abstract interpretation (element-of domain) + criterion table matching + def-use order of clock reads + registry table check",
    "ref": "DESIGN.md §3 C04",
}
UNDECIDED = [
    "termination (needs non-empty filters: C07's undecided clause)",
    "the direct and observer-based most-work-remaining rules choose the same operation in every state (values)",
    "lexicographic optimality of the tie-breaking rule's result (values)",
]
ASSUMPTIONS = ["min/max with a key return an element of their iterable; random.choice returns an element of its argument"]


def _avail_call(n):
    return (
        isinstance(n, ast.Call) and isinstance(n.func, ast.Attribute) and n.func.attr == "available_operations"
        and not n.args
    )


def provenance(ctx, fi: FuncInfo, rule_id="R04.a", what=None):
    chk = ctx.chk
    it = SubInterp(ctx, fi, {}, src_call=_avail_call)
    res = it.run()
    if not res:
        raise AnalysisError(f"{fi.qualname}: no return paths")
    bad = False
    for val, node, path in res:
        if val[0] == "ELEM":
            continue
        bad = True
        if val[0] == "BAD":
            chk.violation(rule_id, fi, val[2], f"the returned operation is not guaranteed to be available: {val[1]}", loc=fi.loc(val[2]))
        elif val[0] == "OTHER" or is_sub(val) or val[0] == "UNKNOWN":
            # is it recognisably drawn from another dispatcher query?
            src = _other_source(node)
            if src:
                chk.violation(
                    rule_id, fi, node,
                    f"the rule selects from dispatcher.{src}() instead of dispatcher.available_operations(): "
                    "it can return an operation the ready-operations filter removed (or one that is not ready)",
                    loc=fi.loc(node),
                )
            else:
                raise AnalysisError(f"{fi.loc(node)}: provenance of the returned operation not recognised ({ast.unparse(node)[:70]})")
    if not bad:
        chk.ok(rule_id, fi.qualname, fi.loc(), what or f"{len(res)} return paths: element of available_operations()")
    return not bad


def _other_source(ret):
    for n in ast.walk(ret):
        if isinstance(n, ast.Call) and isinstance(n.func, ast.Attribute) and n.func.attr in (
            "raw_ready_operations", "unscheduled_operations", "uncompleted_operations", "scheduled_operations",
            "completed_operations", "ongoing_operations", "next_operation",
        ):
            return n.func.attr
    return None


# ------------------------------------------------------------------ criteria
def _selection(fi: FuncInfo):
    """(direction, key lambda, collection expr) of the single return."""
    rets = [n for n in own_nodes(fi.node) if isinstance(n, ast.Return) and n.value is not None]
    if len(rets) != 1:
        return None
    v = rets[0].value
    neg = False
    if isinstance(v, ast.Call) and isinstance(v.func, ast.Name) and v.func.id in ("min", "max") and v.args:
        key = next((k.value for k in v.keywords if k.arg == "key"), None)
        return v.func.id, key, v.args[0], v
    if (
        isinstance(v, ast.Subscript) and isinstance(v.value, ast.Call) and isinstance(v.value.func, ast.Name)
        and v.value.func.id == "sorted" and isinstance(v.slice, (ast.Constant, ast.UnaryOp))
    ):
        c = v.value
        key = next((k.value for k in c.keywords if k.arg == "key"), None)
        rev = next((k.value for k in c.keywords if k.arg == "reverse"), None)
        idx = ast.literal_eval(v.slice)
        is_rev = isinstance(rev, ast.Constant) and rev.value is True
        if idx == 0:
            return ("max" if is_rev else "min"), key, c.args[0], v
        if idx == -1:
            return ("min" if is_rev else "max"), key, c.args[0], v
    return None


def _key_shape(key, fi=None):
    """('attr', name, negated) or ('table', name, negated) or None."""
    if fi is not None:
        key = key_lambda(fi, key)
    if not isinstance(key, ast.Lambda) or len(key.args.args) != 1:
        return None
    p = key.args.args[0].arg
    b = key.body
    neg = False
    if isinstance(b, ast.UnaryOp) and isinstance(b.op, ast.USub):
        neg, b = True, b.operand
    if isinstance(b, ast.Attribute) and isinstance(b.value, ast.Name) and b.value.id == p:
        return ("attr", b.attr, neg)
    if (
        isinstance(b, ast.Subscript) and isinstance(b.value, ast.Name)
        and isinstance(b.slice, ast.Attribute) and isinstance(b.slice.value, ast.Name) and b.slice.value.id == p
    ):
        return ("table", b.value.id, neg, b.slice.attr)
    return None


def _table(fi: FuncInfo, name: str, ctx=None, depth=0):
    """Accumulation table: (source query, increment text, index attr)."""
    if ctx is not None and depth < 4:
        # a plain alias of another local table
        for n in own_nodes(fi.node):
            if isinstance(n, (ast.Assign, ast.AnnAssign)) and n.value is not None and isinstance(n.value, ast.Name):
                tg = n.targets[0] if isinstance(n, ast.Assign) else n.target
                if isinstance(tg, ast.Name) and tg.id == name and n.value.id != name:
                    return _table(fi, n.value.id, ctx, depth + 1)
    if ctx is not None and depth < 4:
        for n in own_nodes(fi.node):
            if isinstance(n, ast.Assign) and isinstance(n.targets[0], ast.Name) and n.targets[0].id == name and isinstance(n.value, ast.Call):
                ts, _ = ctx.res.callees(fi, n.value, fi.cls)
                if len(ts) == 1 and not isinstance(ts[0].node, ast.Lambda):
                    t = ts[0]
                    rets = [r for r in own_nodes(t.node) if isinstance(r, ast.Return) and isinstance(r.value, ast.Name)]
                    if len(rets) == 1:
                        return _table(t, rets[0].value.id, ctx, depth + 1)
                    # the callee may itself delegate (a public scoring function re-expressed through a private accumulator)
                    tf = ctx.norm.flat(t, depth=3)
                    rets = [r for r in own_nodes(tf.node) if isinstance(r, ast.Return) and isinstance(r.value, ast.Name)]
                    if len(rets) == 1:
                        return _table(tf, rets[0].value.id, ctx, depth + 1)
    for n in own_nodes(fi.node):
        if isinstance(n, ast.For):
            src = n.iter
            if ctx is not None and isinstance(src, ast.Name):
                src = ctx.norm.xexpr(fi, src)  # `ops = d.unscheduled_operations(); for op in ops:`
            if not (isinstance(src, ast.Call) and isinstance(src.func, ast.Attribute)):
                continue
            for m in ast.walk(n):
                if (
                    isinstance(m, ast.AugAssign) and isinstance(m.op, ast.Add) and isinstance(m.target, ast.Subscript)
                    and isinstance(m.target.value, ast.Name) and m.target.value.id == name
                ):
                    idx = m.target.slice
                    idx_attr = idx.attr if isinstance(idx, ast.Attribute) else None
                    inc = ctx.norm.xtext(fi, m.value) if ctx is not None else ast.unparse(m.value)
                    srcname = src.func.attr
                    if srcname == "ongoing_operations" and inc == "1" and _prefilled_with_unscheduled_counts(fi, name):
                        # per job: (operations not yet scheduled, from the next-operation index) + (operations in
                        # progress, one per step of this loop) = the job's uncompleted operations
                        srcname = "uncompleted_operations"
                    return srcname, inc, idx_attr, isinstance(n.target, ast.Name) and n.target.id
    return None


def _prefilled_with_unscheduled_counts(fi, name) -> bool:
    """The table is filled, one entry per job in job order, with
    `len(<jobs>[j]) - <next position of job j>` where j and the position come
    from `enumerate(<dispatcher>.job_next_operation_index)` (or the index is
    subscripted by j) - the number of operations of job j not yet scheduled."""
    for lp in own_nodes(fi.node):
        gens = []
        if isinstance(lp, ast.For):
            gens = [(lp.target, lp.iter, lp)]
        elif isinstance(lp, ast.ListComp) and len(lp.generators) == 1:
            gens = [(lp.generators[0].target, lp.generators[0].iter, lp)]
        for tgt, it, node in gens:
            if not (
                isinstance(it, ast.Call) and isinstance(it.func, ast.Name) and it.func.id == "enumerate" and len(it.args) == 1
                and ast.unparse(it.args[0]).endswith("job_next_operation_index")
                and isinstance(tgt, ast.Tuple) and len(tgt.elts) == 2 and all(isinstance(e, ast.Name) for e in tgt.elts)
            ):
                continue
            j, pos = tgt.elts[0].id, tgt.elts[1].id
            defs = {
                st.targets[0].id: st.value for st in ast.walk(node)
                if isinstance(st, ast.Assign) and len(st.targets) == 1 and isinstance(st.targets[0], ast.Name)
            }

            def is_count(e, depth=0):
                if isinstance(e, ast.Name) and e.id in defs and depth < 3:
                    return is_count(defs[e.id], depth + 1)
                return (
                    isinstance(e, ast.BinOp) and isinstance(e.op, ast.Sub) and isinstance(e.right, ast.Name) and e.right.id == pos
                    and isinstance(e.left, ast.Call) and isinstance(e.left.func, ast.Name) and e.left.func.id == "len" and len(e.left.args) == 1
                    and isinstance(e.left.args[0], ast.Subscript) and ast.unparse(e.left.args[0].slice) == j
                    and (ast.unparse(e.left.args[0].value).endswith("jobs") or ast.unparse(fi.node).count(f"{ast.unparse(e.left.args[0].value)} = ") == 1 and "instance.jobs" in ast.unparse(fi.node))
                )

            if isinstance(node, ast.ListComp):
                holder = fi.module.parents.get(node)
                if isinstance(holder, ast.Assign) and any(isinstance(t, ast.Name) and t.id == name for t in holder.targets) and is_count(node.elt):
                    return True
                continue
            apps = [
                c for c in ast.walk(node)
                if isinstance(c, ast.Call) and isinstance(c.func, ast.Attribute) and c.func.attr == "append"
                and isinstance(c.func.value, ast.Name) and c.func.value.id == name and len(c.args) == 1
            ]
            conditional = any(isinstance(x, (ast.If, ast.Break, ast.Continue)) for x in ast.walk(node))
            if len(apps) == 1 and not conditional and is_count(apps[0].args[0]):
                return True
    return False


CRITERIA = {
    "shortest_processing_time": ("min", ("attr", "duration")),
    "first_come_first_served": ("min", ("attr", "position_in_job")),
    "most_work_remaining": ("max", ("table", ("unscheduled_operations",), "duration")),
    "most_operations_remaining": ("max", ("table", ("uncompleted_operations", "unscheduled_operations"), "1")),
}


def criterion(ctx, member: str, fi: FuncInfo):
    chk = ctx.chk
    want = CRITERIA.get(member)
    if want is None:
        return
    lossy = [
        n for n in own_nodes(fi.node)
        if isinstance(n, ast.Attribute) and n.attr in ("durations_matrix_array", "machines_matrix_array")
    ]
    if lossy:
        chk.violation(
            "R04.b", fi, lossy[0],
            f"{member}: the criterion is computed from instance.{lossy[0].attr}, a float32 view: integer totals at or "
            "above 2**24 round to the same value, so a job that is not the best one can be selected",
            loc=fi.loc(lossy[0]),
        )
        return
    sel = _selection(fi)
    if sel is None:
        # the selection may sit in a private helper shared by several rules
        fi = ctx.norm.flat(fi)
        sel = _selection(fi)
    if sel is None:
        raise AnalysisError(f"{fi.qualname}: selection idiom not recognised")
    direction, key, coll, node = sel
    ks = _key_shape(key, fi)
    if ks is None:
        raise AnalysisError(f"{fi.qualname}: key function not recognised")
    if ks[2]:
        direction = "max" if direction == "min" else "min"
    wdir, wkey = want
    doc = {
        "shortest_processing_time": "the shortest duration",
        "first_come_first_served": "the lowest position in its job",
        "most_work_remaining": "the most remaining work of its job",
        "most_operations_remaining": "the most remaining operations of its job",
    }[member]
    if wkey[0] == "attr":
        if ks[0] != "attr" or ks[1] != wkey[1]:
            chk.violation("R04.b", fi, node, f"{member}: operations are ranked by `{ast.unparse(key.body)}`, the documented criterion is {doc}", loc=fi.loc(node))
            return
    else:
        if ks[0] != "table":
            chk.violation("R04.b", fi, node, f"{member}: operations are ranked by `{ast.unparse(key.body)}`, the documented criterion is {doc}", loc=fi.loc(node))
            return
        t = _table(fi, ks[1], ctx)
        if t is None:
            # the accumulation may sit in a (higher-order) private helper
            t = _table(ctx.norm.flat(fi, depth=3), ks[1], ctx)
        if t is None:
            raise AnalysisError(f"{fi.qualname}: accumulation of `{ks[1]}` not recognised")
        src, inc, idx_attr, loopvar = t
        if ks[3] != "job_id" or idx_attr != "job_id":
            chk.violation("R04.b", fi, node, f"{member}: the per-job table is indexed by `{idx_attr}` / read by `{ks[3]}`, not by job id", loc=fi.loc(node))
            return
        if src not in wkey[1]:
            chk.violation(
                "R04.b", fi, node,
                f"{member}: remaining work is accumulated over dispatcher.{src}() instead of "
                f"{' / '.join(wkey[1])}(): already dispatched operations are counted (or pending ones missed)",
                loc=fi.loc(node),
            )
            return
        want_inc = "1" if wkey[2] == "1" else f"{loopvar}.duration"
        if wkey[2] != "1" and inc.endswith(".duration") and inc.split(".")[0] == (loopvar or ""):
            inc = want_inc
        if inc != want_inc:
            chk.violation("R04.b", fi, node, f"{member}: the table accumulates `{inc}` per operation, documented is `{want_inc}`", loc=fi.loc(node))
            return
    if direction != wdir:
        chk.violation(
            "R04.b", fi, node,
            f"{member}: selects the arg{direction} of its key, the documented criterion ({doc}) is the arg{wdir}",
            loc=fi.loc(node),
        )
        return
    chk.ok("R04.b", fi.qualname, fi.loc(node), f"arg{wdir} of {wkey[1] if wkey[0] == 'attr' else 'per-job ' + wkey[2]}")


# ---------------------------------------------------------------- tie breaker
def tie_breaker(ctx):
    chk, repo = ctx.chk, ctx.repo
    outer = repo.find_function("score_based_rule_with_tie_breaker")
    inner = [f for f in repo.functions.values() if f.parent is outer and not isinstance(f.node, ast.Lambda)]
    if len(inner) != 1:
        raise AnalysisError("score_based_rule_with_tie_breaker: inner rule not found")
    provenance(ctx, inner[0])
    rule = ctx.norm.flat(inner[0])
    flow = ctx.flow
    # candidate variable: the name bound to available_operations()
    cand = None
    for n in own_nodes(rule.node):
        if isinstance(n, ast.Assign) and _avail_call(n.value) and isinstance(n.targets[0], ast.Name):
            cand = n.targets[0].id
    if cand is None:
        raise AnalysisError(f"{rule.qualname}: candidate list not found")
    # the filter comprehension and its threshold
    n_thr = 0
    for n in own_nodes(rule.node):
        if isinstance(n, ast.ListComp) and len(n.generators) == 1:
            g = n.generators[0]
            over_cand = isinstance(g.iter, ast.Name) and g.iter.id == cand
            # candidates walked in step with their precomputed scores
            over_zip = (
                isinstance(g.iter, ast.Call) and isinstance(g.iter.func, ast.Name) and g.iter.func.id == "zip"
                and any(isinstance(a, ast.Name) and a.id == cand for a in g.iter.args)
            )
            if not ((over_cand or over_zip) and g.ifs):
                continue
            for cond in g.ifs:
                # an approximate comparison makes *different* scores tie: the later
                # scoring functions then overrule an earlier one that did decide
                approx = isinstance(cond, ast.Call) and ast.unparse(cond.func).rsplit(".", 1)[-1] in ("isclose", "allclose")
                if not approx and isinstance(cond, ast.Name) and over_zip:
                    # a mask computed beforehand and walked in step with the candidates
                    for a_ in g.iter.args:
                        if isinstance(a_, ast.Name):
                            for k_, v_, _s in flow.defs(rule).of(a_.id):
                                if k_ == "value" and isinstance(v_, ast.Call) and ast.unparse(v_.func).rsplit(".", 1)[-1] in ("isclose", "allclose"):
                                    approx, cond = True, v_
                if approx:
                    n_thr += 1
                    chk.violation(
                        "R04.c", rule, cond,
                        f"candidates are kept with `{ast.unparse(cond)[:70]}`, an approximate comparison (relative tolerance): scores that "
                        "differ - e.g. integer durations of 100000 and 100001 - count as a tie, and the tie breaker overrules "
                        "the scoring function that distinguishes them",
                        loc=rule.loc(cond),
                    )
                    continue
                if isinstance(cond, ast.Compare) and len(cond.ops) == 1:
                    thr = cond.comparators[0]
                    if not isinstance(cond.ops[0], (ast.Eq, ast.GtE)):
                        chk.violation("R04.c", rule, cond, f"candidates are kept with `{ast.unparse(cond)}`: not the best-scoring ones", loc=rule.loc(cond))
                        continue
                    n_thr += 1
                    dep = flow.depends_on(rule, thr, lambda x: isinstance(x, ast.Name) and x.id == cand)
                    agg = _threshold_direction(rule, thr, flow)
                    if agg == "min":
                        chk.violation("R04.c", rule, thr, "the threshold is the minimum score: the worst candidates are kept", loc=rule.loc(thr))
                    elif dep:
                        chk.ok("R04.c", rule.qualname, rule.loc(cond), "threshold computed over the candidates' scores")
                    else:
                        chk.violation(
                            "R04.c", rule, thr,
                            f"the threshold `{ast.unparse(thr)}` is computed over all jobs' scores, not over the "
                            "candidates': a finished or filtered-out job with a higher score empties the candidate "
                            "list (IndexError) or a non-best candidate survives",
                            loc=rule.loc(thr),
                        )
    if n_thr == 0:
        raise AnalysisError(f"{rule.qualname}: threshold comparison not recognised")


def _threshold_direction(fi, thr, flow):
    e = thr
    if isinstance(e, ast.Name):
        ds = flow.defs(fi).of(e.id)
        if ds:
            e = ds[-1][1]
    if isinstance(e, ast.Call) and isinstance(e.func, ast.Name) and e.func.id in ("min", "max"):
        return e.func.id
    return None


# ------------------------------------------------------------------ solver
def solver(ctx):
    chk, repo = ctx.chk, ctx.repo
    cls = repo.find_class("DispatchingRuleSolver")
    solve, step = cls.methods.get("solve"), cls.methods.get("step")
    if solve is None or step is None:
        raise AnalysisError("DispatchingRuleSolver.solve/step vanished")
    loops = [n for n in own_nodes(solve.node) if isinstance(n, ast.While)]
    ok = False
    for w in loops:
        t = w.test
        if isinstance(t, ast.UnaryOp) and isinstance(t.op, ast.Not) and ctx.norm.xtext(solve, t.operand).endswith("schedule.is_complete()"):
            calls = [n for s in w.body for n in ast.walk(s) if isinstance(n, ast.Call) and isinstance(n.func, ast.Attribute) and n.func.attr == "step"]
            if calls and not any(isinstance(n, (ast.Break, ast.Return)) for s in w.body for n in ast.walk(s)):
                ok = True
    if ok:
        chk.ok("R04.d", solve.qualname, solve.loc(), "while not complete: step")
    else:
        chk.violation("R04.d", solve, None, "solve does not loop on `not schedule.is_complete()` around step: it can stop early or never dispatch")
    rets = [n for n in own_nodes(solve.node) if isinstance(n, ast.Return)]
    # (a local bound once to `dispatcher.schedule` is that object: Dispatcher never rebinds its schedule)
    if not (rets and all(ctx.norm.xtext(solve, r.value).endswith("dispatcher.schedule") for r in rets if r.value is not None)):
        chk.violation("R04.d", solve, rets[0] if rets else None, "solve does not return the dispatcher's schedule")
    disp = repo.find_class("Dispatcher")
    dispatch = repo.need_method(disp, "dispatch")
    eng = ctx.engine(relevant=lambda e: e.kind == "call" and dispatch in (e.data.get("targets") or []), max_depth=0)
    step_raw = step
    if not any(isinstance(n, ast.Call) and "dispatching_rule" in ast.unparse(n.func) for n in own_nodes(step.node)):
        # the selection may be delegated (a new select() step, a private helper)
        step = ctx.norm.flat(step, depth=3)
    for p in eng.paths(step, cls):
        if p.outcome == "raise":
            continue
        ds = [e for e in p.events if e.kind == "call" and dispatch in (e.data.get("targets") or [])]
        if len(ds) != 1:
            chk.violation("R04.d", step, None, f"a path of step dispatches {len(ds)} times (must be exactly once)", path=p.describe())
            continue
        call = ds[0].node
        args = [ast.unparse(a) for a in call.args] + [ast.unparse(k.value) for k in call.keywords]
        defs = ctx.flow.defs(step)

        def src(name):
            d = defs.of(name)
            if d and step is not step_raw:
                try:
                    return ctx.norm.xtext(step, ast.parse(name, mode="eval").body if not isinstance(name, ast.AST) else name)
                except Exception:
                    pass
            return ast.unparse(d[-1][1]) if d else name

        a0 = (ctx.norm.xtext(step, call.args[0]) if step is not step_raw else src(args[0])) if call.args else ""
        a1 = (ctx.norm.xtext(step, call.args[1]) if step is not step_raw and len(call.args) > 1 else (src(args[1]) if len(args) > 1 else ""))
        if "self.dispatching_rule(" not in a0:
            chk.violation("R04.d", step, call, f"step dispatches `{a0}`, not the operation selected by the dispatching rule", loc=step.loc(call))
        elif "self.machine_chooser(" not in a1:
            chk.violation("R04.d", step, call, f"step dispatches on `{a1 or 'the default machine'}`, not on the machine the chooser selected", loc=step.loc(call))
        else:
            # the chooser must be asked about the selected operation
            mc = defs.of(args[1])[-1][1] if defs.of(args[1]) else None
            if step is not step_raw and len(call.args) > 1:
                mc = ctx.norm.xexpr(step, call.args[1])
                same = isinstance(mc, ast.Call) and len(mc.args) >= 2 and ast.unparse(mc.args[1]) == a0
            else:
                same = isinstance(mc, ast.Call) and len(mc.args) >= 2 and ast.unparse(mc.args[1]) == args[0]
            if same:
                chk.ok("R04.d", step.qualname, step.loc(call), "dispatch(rule(dispatcher), chooser(dispatcher, operation)) once")
            else:
                chk.violation("R04.d", step, call, "the machine chooser is not asked about the selected operation", loc=step.loc(call))


# ---------------------------------------------------------------- metadata
def metadata(ctx):
    chk, repo = ctx.chk, ctx.repo
    base = repo.find_class("BaseSolver")
    n = 0
    for cls in repo.subclasses(base.qualname):
        call = cls.methods.get("__call__")
        if call is None:
            continue
        call = ctx.norm.flat(call)
        n += 1
        writes = {}
        for m in own_nodes(call.node):
            if isinstance(m, ast.Assign) and isinstance(m.targets[0], ast.Subscript) and ast.unparse(m.targets[0].value).endswith("metadata"):
                k = m.targets[0].slice
                if isinstance(k, ast.Constant):
                    writes[k.value] = m
        sd = [
            m for m in own_nodes(call.node)
            if isinstance(m, ast.Call) and isinstance(m.func, ast.Attribute) and m.func.attr == "setdefault"
            and ast.unparse(m.func.value).endswith("metadata") and m.args and isinstance(m.args[0], ast.Constant)
            and m.args[0].value in ("elapsed_time", "solved_by")
        ]
        for m in sd:
            chk.violation(
                "R04.e", call, m,
                f"`{m.args[0].value}` is recorded with setdefault(): a schedule that already carries the key "
                "(a solver built on other solvers, a reused schedule) keeps the inner solver's value instead of this call's",
                loc=call.loc(m),
            )
        if sd:
            continue
        if not writes:
            # delegates (e.g. ORToolsSolver.__call__ -> solve which builds the metadata)
            _ortools_metadata(ctx, cls, call)
            continue
        # order of statements: clock read A, solve call, clock read B
        body = list(ast.walk(call.node))
        defs = ctx.flow.defs(call)
        el = writes.get("elapsed_time")
        if el is None:
            chk.violation("R04.e", call, None, "elapsed_time is not recorded in the schedule metadata")
        else:
            v = el.value
            if isinstance(v, ast.Name) and defs.of(v.id):
                v = defs.of(v.id)[-1][1]
            _elapsed(ctx, call, v)
        sb = writes.get("solved_by")
        if sb is None:
            chk.violation("R04.e", call, None, "solved_by is not recorded in the schedule metadata")
        else:
            xv = ctx.norm.xexpr(call, sb.value)
            t = ast.unparse(xv)
            if t in ("self.__class__.__name__", "type(self).__name__") or (isinstance(xv, ast.Constant) and xv.value == cls.name):
                chk.ok("R04.e", call.qualname, call.loc(sb), "solved_by = class name")
            elif isinstance(xv, ast.Constant) or t.endswith(".__name__") or t.endswith(".__qualname__"):
                chk.violation("R04.e", call, sb, f"solved_by is `{t}`, not the solver's class name", loc=call.loc(sb))
            else:
                raise AnalysisError(f"{call.loc(sb)}: value stored as solved_by (`{t[:60]}`) not recognised")
    chk.floor("R04.e", n, 1, "__call__ implementations")


def _order(fi):
    """node id -> position in a depth-first walk of the (possibly flattened)
    function: statement order even when inlined nodes carry foreign line
    numbers."""
    cache = getattr(fi, "_order_cache", None)
    if cache is None:
        cache = {}
        k = 0
        stack = [fi.node]
        while stack:
            n = stack.pop()
            cache[id(n)] = k
            # copies of a node (alias expansion deep-copies) keep its span
            span = (type(n).__name__, getattr(n, "lineno", None), getattr(n, "col_offset", None), getattr(n, "end_col_offset", None))
            if span[1] is not None:
                cache.setdefault(span, k)
            k += 1
            stack.extend(reversed(list(ast.iter_child_nodes(n))))
        try:
            fi._order_cache = cache
        except Exception:
            pass
    return cache


def _clock_order(fi, name_or_expr, defs):
    """Position of the clock read an operand denotes, or None."""
    e = name_or_expr
    if isinstance(e, ast.Name):
        ds = defs.of(e.id)
        if len(ds) == 1:
            e = ds[0][1]
            stmt = ds[0][2]
        else:
            return None
    else:
        stmt = e
    if isinstance(e, ast.Call) and (dotted(e.func) or "") in ("time.perf_counter", "time.time", "time.monotonic", "time.process_time", "perf_counter"):
        o = _order(fi)
        got = o.get(id(stmt))
        if got is None:
            got = o.get((type(stmt).__name__, getattr(stmt, "lineno", None), getattr(stmt, "col_offset", None), getattr(stmt, "end_col_offset", None)))
        return got
    return None


def _elapsed(ctx, fi, v):
    chk = ctx.chk
    defs = ctx.flow.defs(fi)
    # follow plain renamings of the difference (`a, b = (x, y)`, `z = y`) one
    # name at a time - the operands must stay names, their order is what counts
    for _ in range(4):
        if isinstance(v, ast.BinOp) or not isinstance(v, ast.Name):
            break
        ds = [d for d in defs.of(v.id) if d[0] in ("value", "unpack") and d[1] is not None]
        if len(ds) != 1:
            break
        nv = ds[0][1]
        if isinstance(nv, ast.Subscript) and isinstance(nv.value, ast.Tuple) and isinstance(nv.slice, ast.Constant) and isinstance(nv.slice.value, int):
            nv = nv.value.elts[nv.slice.value]
        v = nv
    if not (isinstance(v, ast.BinOp) and isinstance(v.op, ast.Sub)):
        raise AnalysisError(f"{fi.qualname}: elapsed_time expression not recognised ({ast.unparse(v)[:50]})")
    a, b = _clock_order(fi, v.left, defs), _clock_order(fi, v.right, defs)
    if a is None or b is None:
        raise AnalysisError(f"{fi.qualname}: clock reads of elapsed_time not recognised")
    solve_calls = [
        n for n in own_nodes(fi.node)
        if isinstance(n, ast.Call) and isinstance(n.func, ast.Attribute) and n.func.attr in ("solve", "Solve")
    ]
    if not solve_calls:
        raise AnalysisError(f"{fi.qualname}: solve call not found")
    s = _order(fi).get(id(solve_calls[0]))
    if s is None:
        raise AnalysisError(f"{fi.qualname}: solve call position unknown")
    if b < s < a:
        chk.ok("R04.e", fi.qualname, fi.loc(v), "elapsed_time = clock after solve - clock before solve")
    elif a < s < b:
        chk.violation(
            "R04.e", fi, v,
            "elapsed_time is (clock read before the solve) - (clock read after it): the recorded elapsed time is negative",
            loc=fi.loc(v),
        )
    else:
        chk.violation("R04.e", fi, v, "the two clock reads of elapsed_time do not bracket the solve call", loc=fi.loc(v))


def _ortools_metadata(ctx, cls, call):
    chk = ctx.chk
    solve = cls.methods.get("solve")
    if solve is None:
        return
    solve = ctx.norm.flat(solve)
    md = None
    for m in own_nodes(solve.node):
        if isinstance(m, ast.Dict) and any(isinstance(k, ast.Constant) and k.value == "elapsed_time" for k in m.keys):
            md = m
    if md is None:
        raise AnalysisError(f"{cls.qualname}: metadata construction not recognised")
    kv = {k.value: v for k, v in zip(md.keys, md.values) if isinstance(k, ast.Constant)}
    v = kv["elapsed_time"]
    defs = ctx.flow.defs(solve)
    if isinstance(v, ast.Name) and defs.of(v.id):
        v = defs.of(v.id)[-1][1]
    if not (isinstance(v, ast.BinOp) and isinstance(v.op, ast.Sub)):
        v = ctx.norm.xexpr(solve, kv["elapsed_time"])  # e.g. one element of a tuple returned by an inlined step
    _elapsed(ctx, solve, v)
    sb = kv.get("solved_by")
    if isinstance(sb, ast.Attribute) and isinstance(sb.value, ast.Name) and sb.value.id == "self":
        # a class-level constant of the solver class (`_solved_by = "ORToolsSolver"`)
        ca = ctx.repo.class_attr(cls, sb.attr)
        if isinstance(ca, ast.Constant):
            sb = ca
    if isinstance(sb, ast.Name) and isinstance(solve.module.assigns.get(sb.id), ast.Constant) and not ctx.flow.defs(solve).of(sb.id):
        sb = solve.module.assigns[sb.id]  # a module-level constant (`_SOLVED_BY = "ORToolsSolver"`)
    if isinstance(sb, ast.Constant) and sb.value == cls.name or (sb is not None and ast.unparse(sb) in ("self.__class__.__name__", "type(self).__name__")):
        chk.ok("R04.e", solve.qualname, solve.loc(md), "solved_by = class name")
    else:
        chk.violation("R04.e", solve, md, f"solved_by is `{ast.unparse(sb) if sb is not None else 'missing'}`, not `{cls.name}`", loc=solve.loc(md))


def per_dispatcher_caches(ctx):
    """R04.l - a scorer / rule object that remembers which dispatcher it last
    worked for (`if self._d is not dispatcher: ...; self._d = dispatcher`)
    forgets *everything* it fetched from the previous dispatcher on that
    branch: every attribute that holds an observer obtained through
    ``create_or_get_observer`` is wholly reset there (rebinding or
    ``clear()``); dropping a single key, or one of several attributes, leaves
    an observer of the old dispatcher in use."""
    chk, repo = ctx.chk, ctx.repo
    chk.rule("R04.l", "an object caching observers per dispatcher resets every such cache wholly when the dispatcher changes")
    from .common import modules_defining

    names = modules_defining(ctx, "job_shop_lib.dispatching.rules", lambda n: n.endswith(("_rule", "_score", "Scorer")))
    n = 0
    for c in sorted(repo.classes.values(), key=lambda k: k.qualname):
        if c.module.name not in names:
            continue
        call = repo.method(c, "__call__")
        if call is None or len(call.params) < 2:
            continue
        f = ctx.norm.flat(call, depth=3)
        me, dp = call.params[0], call.params[1]

        def self_attr(x):
            return x.attr if isinstance(x, ast.Attribute) and isinstance(x.value, ast.Name) and x.value.id == me else None

        defs = ctx.flow.defs(f)

        def root_attr(x, depth=0):
            """first attribute of self that the expression is reached through"""
            while isinstance(x, (ast.Attribute, ast.Subscript)):
                if isinstance(x, ast.Attribute) and isinstance(x.value, ast.Name) and x.value.id == me:
                    return x.attr
                x = x.value
            if isinstance(x, ast.Name) and depth < 3:
                ds = defs.of(x.id)
                if len(ds) == 1 and ds[0][0] == "value":
                    return root_attr(ds[0][1], depth + 1)
            return None

        # caches: <target> = <...create_or_get_observer(...)>, <target>[k] = <local holding one>
        fetched = set()
        for a in own_nodes(f.node):
            if isinstance(a, ast.Assign) and isinstance(a.value, ast.Call) and isinstance(a.value.func, ast.Attribute) and a.value.func.attr == "create_or_get_observer":
                for t in a.targets:
                    if isinstance(t, ast.Name):
                        fetched.add(t.id)
        caches = set()
        # ... in __call__ itself or in any method of the object it runs (a
        # helper with a nested function is not written out by the normaliser)
        from ..lifecycle import Lifecycle

        scan = [f] + [g for g, _via in Lifecycle(ctx).self_closure(call, c) if g is not call]
        for g in scan:
            gme = g.params[0] if g.params else me
            fetched_g = set(fetched) if g is f else {
                t.id for a in own_nodes(g.node)
                if isinstance(a, ast.Assign) and isinstance(a.value, ast.Call) and isinstance(a.value.func, ast.Attribute) and a.value.func.attr == "create_or_get_observer"
                for t in a.targets if isinstance(t, ast.Name)
            }
            for a in own_nodes(g.node):
                if not isinstance(a, ast.Assign):
                    continue
                direct = isinstance(a.value, ast.Call) and isinstance(a.value.func, ast.Attribute) and a.value.func.attr == "create_or_get_observer"
                via = isinstance(a.value, ast.Name) and a.value.id in fetched_g
                if not (direct or via):
                    continue
                for t in a.targets:
                    if isinstance(t, ast.Name):
                        continue
                    if g is f:
                        r = root_attr(t)
                    else:
                        x = t
                        r = None
                        while isinstance(x, (ast.Attribute, ast.Subscript)):
                            if isinstance(x, ast.Attribute) and isinstance(x.value, ast.Name) and x.value.id == gme:
                                r = x.attr
                                break
                            x = x.value
                    if r:
                        caches.add((r, ast.unparse(t).replace(gme + ".", me + ".", 1) if gme != me else ast.unparse(t)))
        # one record that holds the dispatcher together with the observers fetched
        # from it, always replaced as a whole: `self.<r> = Record(dispatcher, ...create_or_get_observer(...)...)`
        # under a test of `<self.<r>>.<field> is dispatcher` - tag and observers cannot get out of step
        for a in own_nodes(f.node):
            if not (isinstance(a, ast.Assign) and len(a.targets) == 1 and self_attr(a.targets[0]) and isinstance(a.value, ast.Call)):
                continue
            cargs = list(a.value.args) + [k.value for k in a.value.keywords]
            if not any(isinstance(x, ast.Name) and x.id == dp for x in cargs):
                continue
            if not any(isinstance(y, ast.Call) and isinstance(y.func, ast.Attribute) and y.func.attr == "create_or_get_observer" for x in cargs for y in ast.walk(x)):
                continue
            rec = self_attr(a.targets[0])
            tested = any(
                isinstance(t, ast.Compare) and len(t.ops) == 1 and isinstance(t.ops[0], (ast.Is, ast.IsNot))
                and any(isinstance(x, ast.Name) and x.id == dp for x in (t.left, t.comparators[0]))
                and any(isinstance(x, ast.Attribute) and root_attr(x.value) == rec for x in (t.left, t.comparators[0]))
                for t in own_nodes(f.node)
            )
            elsewhere = [
                x for g in scan for x in own_nodes(g.node)
                if isinstance(x, ast.Attribute) and isinstance(x.ctx, ast.Store) and isinstance(x.value, ast.Attribute) and x.value.attr == rec
            ]
            if tested and not elsewhere:
                n += 1
                chk.ok("R04.l", f"{c.qualname}.{rec}", f.loc(a), f"`self.{rec}` holds the dispatcher and its observers in one record that is replaced as a whole")
        if not caches:
            continue
        for st in own_nodes(f.node):
            if not (isinstance(st, ast.If) and isinstance(st.test, ast.Compare) and len(st.test.ops) == 1 and isinstance(st.test.ops[0], (ast.IsNot, ast.NotEq, ast.Is, ast.Eq))):
                continue
            sides = [st.test.left, st.test.comparators[0]]
            tag_expr = next((x for x in sides if root_attr(x) and not isinstance(x, ast.Name)), None)
            if tag_expr is None or not any(isinstance(x, ast.Name) and x.id == dp for x in sides):
                continue
            tag_root = root_attr(tag_expr)
            changed = st.body if isinstance(st.test.ops[0], (ast.IsNot, ast.NotEq)) else st.orelse
            body_nodes = [x for b_ in changed for x in ast.walk(b_)]
            # the branch must re-establish the tag: `self.<tag> = dispatcher`, or a new object for its root
            retag = any(
                isinstance(x, ast.Assign) and any(
                    (ast.unparse(t) == ast.unparse(tag_expr) and isinstance(x.value, ast.Name) and x.value.id == dp)
                    or (self_attr(t) == tag_root and any(isinstance(y, ast.Name) and y.id == dp for y in ast.walk(x.value)))
                    for t in x.targets
                )
                for x in body_nodes
            )
            if not retag:
                continue
            n += 1
            for attr, shown in sorted(caches):
                whole = any(
                    isinstance(x, ast.Assign) and any(self_attr(t) == attr or ast.unparse(t) == shown for t in x.targets) for x in body_nodes
                ) or any(
                    isinstance(x, ast.Call) and isinstance(x.func, ast.Attribute) and x.func.attr == "clear" and self_attr(x.func.value) == attr for x in body_nodes
                )
                if whole:
                    chk.ok("R04.l", f"{c.qualname}.{attr}", f.loc(st), f"`{shown}` reset when the dispatcher changes")
                    continue
                partial = [
                    x for x in body_nodes
                    if isinstance(x, ast.Call) and isinstance(x.func, ast.Attribute) and x.func.attr in ("pop", "discard", "remove") and self_attr(x.func.value) == attr
                    or isinstance(x, ast.Delete) and any(isinstance(t, ast.Subscript) and self_attr(t.value) == attr for t in x.targets)
                ]
                chk.violation(
                    "R04.l", f, partial[0] if partial else st,
                    f"when the dispatcher changes, `{shown}` (which holds an observer fetched from a dispatcher) is "
                    + ("only emptied for one key (`" + ast.unparse(partial[0])[:60] + "`)" if partial else "not reset")
                    + ": an observer subscribed to the previous dispatcher keeps being read, so the scores - and the operation "
                    "the rule selects - are computed from another dispatcher's state",
                    loc=f.loc(partial[0] if partial else st),
                )
    chk.floor("R04.l", n, 1, "dispatcher-changed branches in scorer objects")


# ---------------------------------------------------------------- registries
def registries(ctx):
    chk, repo = ctx.chk, ctx.repo
    fac = repo.find_function("dispatching_rule_factory")
    enum = repo.find_class("DispatchingRuleType")
    members = repo.enum_members(enum)
    dnode, reg = registry(ctx, fac, enum.name)
    rules = {}
    for m, valnode in members.items():
        if m not in reg:
            chk.violation("R04.f", fac, dnode, f"DispatchingRuleType.{m} has no entry in the registry", loc=fac.loc(dnode))
            continue
        q = repo.resolve(fac.module.name, dotted(reg[m]) or "")
        fi = repo.functions.get(q or "")
        if fi is None:
            raise AnalysisError(f"registry entry for {m} is not a package function")
        val = valnode.value if isinstance(valnode, ast.Constant) else "?"
        rules[val] = fi
        ok_names = {f"{val}_rule", f"{val}_operation_rule"}
        if fi.name in ok_names:
            chk.ok("R04.f", fac.qualname, fac.loc(reg[m]), f"{m} -> {fi.name}")
        else:
            chk.violation("R04.f", fac, reg[m], f"DispatchingRuleType.{m} (\"{val}\") is mapped to {fi.name}", loc=fac.loc(reg[m]))
    chk.floor("R04.f", len(members), 5, "dispatching rule types")
    # machine choosers
    mfac = repo.find_function("machine_chooser_factory")
    menum = repo.find_class("MachineChooserType")
    mm = repo.enum_members(menum)
    mnode, mreg = registry(ctx, mfac, menum.name)
    for m in mm:
        if m not in mreg:
            chk.violation("R04.f", mfac, mnode, f"MachineChooserType.{m} has no entry in the registry", loc=mfac.loc(mnode))
            continue
        lam = mreg[m]
        if isinstance(lam, ast.Name):
            # a named chooser function: every value it returns must be an
            # element of <operation>.machines (origin analysis over its body)
            g = mfac.module.functions.get(lam.id)
            if g is None:
                q = repo.resolve(mfac.module.name, lam.id)
                g = repo.functions.get(q) if q else None
            if g is not None and not isinstance(g.node, ast.Lambda) and len(g.params) == 2:
                opn = g.params[1]
                rets = [r for r in own_nodes(g.node) if isinstance(r, ast.Return) and r.value is not None]
                verdicts = []
                for r in rets:
                    for o in ctx.flow.origins(g, r.value, None):
                        core = o
                        while core[0] == "elem" and core[1][0] == "elem":
                            core = core[1]
                        verdicts.append(core[0] == "elem" and core[1][0] == "attr" and core[1][1] == opn and tuple(core[1][2]) == ("machines",))
                if rets and verdicts and all(verdicts):
                    chk.ok("R04.f", mfac.qualname, mfac.loc(lam), f"{m}: {g.name} returns elements of operation.machines only")
                    continue
                raise AnalysisError(f"machine chooser {m}: {g.name} - whether it always returns an element of operation.machines is not decided")
        if not isinstance(lam, ast.Lambda) or len(lam.args.args) != 2:
            raise AnalysisError(f"machine chooser {m}: not a two-argument lambda")
        op = lam.args.args[1].arg
        b = lam.body
        elem = False
        if isinstance(b, ast.Subscript) and ast.unparse(b.value) == f"{op}.machines":
            elem = True
        elif isinstance(b, ast.Call) and (dotted(b.func) or "") in ("random.choice", "min", "max") and b.args and ast.unparse(b.args[0]) == f"{op}.machines":
            elem = True
        kind_ok = True
        if m == "FIRST":
            kind_ok = isinstance(b, ast.Subscript) and isinstance(b.slice, ast.Constant) and b.slice.value == 0
        elif m == "RANDOM":
            kind_ok = isinstance(b, ast.Call) and (dotted(b.func) or "").startswith("random.")
        if not elem:
            chk.violation("R04.f", mfac, lam, f"machine chooser {m} returns `{ast.unparse(b)}`, which is not an element of operation.machines", loc=mfac.loc(lam))
        elif not kind_ok:
            chk.violation("R04.f", mfac, lam, f"machine chooser {m} is `{ast.unparse(b)}`: does not match its name", loc=mfac.loc(lam))
        else:
            chk.ok("R04.f", mfac.qualname, mfac.loc(lam), f"{m}: element of operation.machines")
    return rules


def _own_container(ctx, cls, attr) -> bool:
    """Every value the class assigns to ``self.<attr>`` is a container it
    creates itself ({} / [] / set() / dict() ...)."""
    from ..lifecycle import Lifecycle

    srcs = [v for _f, v in Lifecycle(ctx).attr_sources(cls, attr) if v is not None]
    if not srcs:
        return False
    for v in srcs:
        fresh = isinstance(v, (ast.Dict, ast.List, ast.Set)) and not getattr(v, "keys", None) and not getattr(v, "elts", None)
        fresh = fresh or (isinstance(v, ast.Call) and isinstance(v.func, ast.Name) and v.func.id in ("dict", "list", "set", "defaultdict", "OrderedDict") and not v.args)
        # a private record object the callable creates for itself: _State()
        if not fresh and isinstance(v, ast.Call) and isinstance(v.func, ast.Name):
            q = ctx.repo.resolve(cls.module.name, v.func.id)
            fresh = bool(q and q in ctx.repo.classes and v.func.id.startswith("_"))
        if not fresh:
            return False
    return True


def purity(ctx):
    """R04.g - rules, scoring functions and scorer objects do not mutate the
    dispatcher, the instance or any observer (they may rebind their own
    attributes)."""
    from ..dataflow import is_shared

    chk, repo = ctx.chk, ctx.repo
    from .common import modules_defining

    # the modules that define the exported rules, scoring functions and scorer objects
    names = modules_defining(
        ctx, "job_shop_lib.dispatching.rules",
        lambda n: n.endswith(("_rule", "_score", "Scorer")),
    )
    targets = []
    for mi in (repo.modules[n] for n in names):
        targets += [f for f in mi.functions.values()]
        for c in mi.classes.values():
            targets += [m for m in c.methods.values() if m.name == "__call__"]
        targets += [f for f in repo.functions.values() if f.module is mi and f.parent is not None and not isinstance(f.node, ast.Lambda)]
    n = 0
    for fi in sorted(set(targets), key=lambda f: f.qualname):
        n += 1
        bad = False
        for w in ctx.effects.closure_writes(fi, fi.cls, max_depth=3, stop=lambda t: t.name in ("create_or_get_observer", "__init__")):
            obj = w.obj
            if is_memo_fill(ctx, w.event):
                continue  # a correctly invalidated private memo
            if new_private_state(ctx, w) is not None and w.fi.cls is not None and w.fi.cls.name in ("Dispatcher", "Schedule"):
                # bookkeeping of the dispatcher / schedule that the pinned tree does not have, updated by a query
                # the rule calls: C05 owns that question (and refuses it); not a write by the rule itself
                continue
            if ctor_self_write(w):
                continue  # a private helper object initialising itself
            # rebinding an attribute of the callable object itself is its own state
            if isinstance(obj, ast.Name) and w.fi.cls is not None and w.fi.params and obj.id == w.fi.params[0] and w.fi.cls is fi.cls:
                continue
            # filling a container the callable object created for itself
            # (self._memo = {} ... self._memo[k] = v) is its own state as well
            if (
                isinstance(obj, ast.Attribute) and isinstance(obj.value, ast.Name) and w.fi.cls is not None and w.fi.params
                and obj.value.id == w.fi.params[0] and w.fi.cls is fi.cls and _own_container(ctx, fi.cls, obj.attr)
            ):
                continue
            # ... also through a local alias of that container / record
            if w.fi.cls is fi.cls and fi.cls is not None and w.fi.params:
                own = [
                    o for o in w.origins
                    if o[0] == "attr" and o[1] == w.fi.params[0] and o[2] and _own_container(ctx, fi.cls, o[2][0])
                ]
                if own and len(own) == len([o for o in w.origins if o[0] not in ("fresh",)]):
                    continue
            shared = [o for o in w.origins if is_shared(o) and o[0] not in ("unknown", "global")]
            if not shared:
                continue
            # a private helper that writes into one of its *parameters* is judged
            # by what its callers hand it: a fresh copy is the caller's own
            def _param_of(o):
                while o[0] == "elem":
                    o = o[1]
                return o[1] if o[0] == "param" else None

            pnames = {_param_of(o) for o in shared}
            if None not in pnames and w.fi.name.startswith("_") and not w.fi.name.startswith("__") and all(p_ in w.fi.params for p_ in pnames):
                from ..lifecycle import Lifecycle

                lc_ = Lifecycle(ctx)
                sites = 0
                dirty = False
                for g in ctx.repo.all_functions():
                    if isinstance(g.node, ast.Lambda):
                        continue
                    for ev_, t_, _rc in ctx.effects.calls(g, g.cls):
                        if t_ is not w.fi:
                            continue
                        sites += 1
                        for p_ in pnames:
                            arg = lc_._arg_expr(ev_, t_, t_.params.index(p_))
                            if arg is None:
                                dirty = True
                                continue
                            if any(is_shared(o2) and o2[0] not in ("unknown", "global") for o2 in ctx.flow.origins(g, arg, g.cls)):
                                dirty = True
                if sites and not dirty:
                    continue
            bad = True
            chk.violation(
                "R04.g", fi, w.event.node,
                f"{fi.name} mutates shared state (`{w.event.data.get('text')}`): a view of dispatcher/observer data is "
                "written in place, so later queries and the other rules see corrupted values",
                loc=w.loc, path=[*w.via, w.fi.qualname],
            )
            break
        if not bad:
            chk.ok("R04.g", fi.qualname, fi.loc(), "no write to shared state")
    chk.floor("R04.g", n, 10, "rule / scoring functions")


def run(ctx):
    chk, repo = ctx.chk, ctx.repo
    from .common import check_late_binding

    check_late_binding(ctx, "R04.k", ("job_shop_lib.dispatching.rules",), "the rule")
    from .common import check_str_enum_identity

    check_str_enum_identity(ctx, "R04.j", ("job_shop_lib.dispatching.rules",), "the rule")
    from .common import check_loop_variable_leaks

    check_loop_variable_leaks(ctx, "R04.i", ("job_shop_lib.dispatching.rules", "job_shop_lib._base_solver"), "the rule / solver")
    from .common import check_mutable_defaults

    check_mutable_defaults(ctx, "R04.h", ("job_shop_lib.dispatching.rules", "job_shop_lib._base_solver"), "the rule / solver")
    chk.rule("R04.g", "rules, scoring functions and scorers mutate nothing reachable from the dispatcher or an observer")
    for rid, txt in (
        ("R04.a", "every returned operation is an element of dispatcher.available_operations()"),
        ("R04.b", "direction and key of each documented rule match the criterion table"),
        ("R04.c", "tie-breaking threshold is computed over the candidates' scores"),
        ("R04.d", "solve loops until complete; step dispatches once: rule's operation, chooser's machine"),
        ("R04.e", "elapsed_time = clock after - clock before; solved_by = class name"),
        ("R04.f", "rule / machine-chooser registries total and name-consistent; choosers pick among operation.machines"),
    ):
        chk.rule(rid, txt)
    rules = registries(ctx)
    n = 0
    for val, fi in sorted(rules.items()):
        provenance(ctx, fi)
        criterion(ctx, val, fi)
        n += 1
    # closures of score_based_rule
    outer = repo.find_function("score_based_rule")
    for f in repo.functions.values():
        if f.parent is outer and not isinstance(f.node, ast.Lambda):
            provenance(ctx, f)
            sel = _selection(f)
            if sel is None:
                f = ctx.norm.flat(f)  # the arg-max may live in a shared private helper
                sel = _selection(f)
            if sel is None:
                raise AnalysisError(f"{f.qualname}: selection idiom not recognised")
            if sel[0] != "max" or _key_shape(sel[1], f) is None or _key_shape(sel[1], f)[2]:
                chk.violation("R04.b", f, sel[3] if sel else None, "score_based_rule does not select the highest score")
            else:
                chk.ok("R04.b", f.qualname, f.loc(), "argmax of scores[job_id]")
            n += 1
    # any other rule-shaped function of the rules modules (one Dispatcher
    # parameter, returns an Operation): same provenance obligation
    seen_rules = {f.qualname for f in rules.values()}
    for f in repo.all_functions():
        if (
            isinstance(f.node, ast.Lambda) or f.cls is not None or f.parent is not None or f.qualname in seen_rules
            or not f.module.name.startswith("job_shop_lib.dispatching.rules") or f.name.startswith("_")
        ):
            continue
        a = f.node.args
        if len(a.args) != 1 or a.vararg or a.kwarg or a.kwonlyargs:
            continue
        ann = ast.unparse(a.args[0].annotation) if a.args[0].annotation is not None else ""
        ret = ast.unparse(f.node.returns) if f.node.returns is not None else ""
        if ann.split(".")[-1] == "Dispatcher" and ret.split(".")[-1] == "Operation":
            provenance(ctx, f, what="rule-shaped function outside the registry: element of available_operations()")
            n += 1
    chk.floor("R04.a", n, 6, "rules")
    ctx.attempt(tie_breaker, ctx)
    nc = one_shot_captures(
        ctx, "R04.c", lambda f: f.module.name.startswith("job_shop_lib.dispatching.rules"),
        "from its second call on the rule applies none of its scoring functions",
    )
    chk.analysed["rule_closures_inspected"] = nc
    ctx.attempt(solver, ctx)
    ctx.attempt(metadata, ctx)
    ctx.attempt(purity, ctx)
    ctx.attempt(per_dispatcher_caches, ctx)
