"""C12 - reset makes everything indistinguishable from new.

R12.a  reset completeness: for every observer class, every attribute of
       ``self`` that update-reachable code rebinds or mutates in place is
       rebound or fully overwritten by reset-reachable code.
R12.b  reset-order independence: if reset-reachable code of observer A reads
       state of another observer B, then B was acquired before A subscribed
       itself (so B is earlier in the subscriber list and already reset), or
       B was handed to A from outside.
R12.c  dispatcher: every attribute written on the dispatch path is
       re-established by ``reset``; the initialising expressions of
       ``__init__`` and ``reset`` agree; likewise Schedule.add / reset.
R12.d  pristine copy: ``GraphUpdater.reset`` rebinds the graph from a deep
       copy of an attribute that is itself a deep copy taken at construction
       and is never written or mutated afterwards.
R12.f  no stale aliases: an observer attribute never keeps a container its
       owner *replaces* on reset (the schedule's list of machine lists, the
       dispatcher's tracking vectors) unless the observer's own reset re-reads
       it; nor one of its *own* containers (or a bound method of one,
       ``self.update = self.history.append``) that its reset replaces; nor
       does a ``functools``-memoised property anywhere in the package store
       such a container.  R12.a/R12.c additionally hold at path level: an attribute the
       update phase writes is written on every returning path of reset that is
       compatible with the update path's configuration (no early exits).
R12.g  a feature observer's own ``reset`` writes no attribute that
       ``initialize_features`` reads after the statement that rebuilds the
       features (``super().reset()`` / ``self.initialize_features()``).
R12.e  environments: ``reset`` calls ``dispatcher.reset()`` before building
       the observation; attributes touched by ``step`` are re-established;
       the multi environment rebuilds its inner environment with the full
       stored configuration.
"""

from __future__ import annotations

import ast

from ..lifecycle import Lifecycle
from ..repo import AnalysisError, own_nodes
from .common import DISPATCHER, OBSERVER
from .roles import schedule_attr

MANIFEST = {
    "text": (
        "Decides that every piece of state is re-established on reset, for "
        "every observer class in the DispatcherObserver cone, the dispatcher, "
        "the schedule and both environments: per-phase write sets are computed "
        "over the own-object call closure (callees that mutate an argument "
        "included) and W_update must be covered by rebinding/full-overwrite "
        "writes of reset; observers whose reset reads another observer must "
        "have acquired it before subscribing (constructor paths enumerated), so "
        "the result is independent of creation order; the graph updater "
        "restores from a never-mutated deep copy; environment reset resets the "
        "dispatcher before observing and the multi environment forwards its "
        "whole stored configuration; no observer keeps a reference to a container "
        "its owner replaces on reset; reset has no early exit that skips an "
        "attribute the update phase writes. A violated instance implies a second "
        "episode that differs from the first."
    ),
    "note": (
        "May-level write sets (branch correlations ignored). Not decided: that "
        "the re-established values equal a fresh object's values - the rules "
        "guarantee each attribute is re-derived from fresh sources, not what "
        "the derivation evaluates to."
    ),
    "technique": "typestate/lifecycle analysis: per-phase attribute write sets over the call closure + constructor path linearisation (acquire-before-subscribe)",
    "ref": "DESIGN.md §3 C12",
}
UNDECIDED = [
    "equality of the values after reset with those of a freshly constructed object (the rules establish that each attribute is re-derived from reset sources, not its value)",
]
ASSUMPTIONS = [
    "user-defined observers are outside the quantifier",
    "branch correlations are ignored: write sets are compared at may-level",
]

STRONG = ("rebind", "overwrite")


def observer_completeness(ctx, lc, cls, rule="R12.a"):
    chk, repo = ctx.chk, ctx.repo
    upd = repo.method(cls, "update")
    rst = repo.method(cls, "reset")
    if upd is None or rst is None:
        return None
    # abstract (docstring-only) methods are not analysed
    def is_abstract(m):
        return "abc.abstractmethod" in m.decorators or "abstractmethod" in m.decorators
    if is_abstract(upd) or is_abstract(rst):
        return None
    wu = lc.attr_writes(upd, cls)
    wr = lc.attr_writes(rst, cls)
    strong = {w.attr for w in wr if w.kind in STRONG}
    # an entry-wise rebinding (self.features[k] = fresh) of every key the
    # update touches is as good as rebinding the container
    entry = {w.attr for w in wr if w.kind == "entry"}
    missing = {}
    for w in wu:
        if w.attr in ("dispatcher",):
            continue
        if w.attr not in strong:
            missing.setdefault(w.attr, []).append(w)
    ok = True
    # per-key precision for the feature tables: zeroing with `exclude=K`
    # does not re-establish key K
    zero_calls = []
    for f, via in lc.self_closure(rst, cls):
        for n in own_nodes(f.node):
            if isinstance(n, ast.Call) and isinstance(n.func, ast.Attribute) and n.func.attr == "set_features_to_zero":
                ex = [k.value for k in n.keywords if k.arg == "exclude"] + list(n.args[:1])
                names = set()
                for e in ex:
                    for x in ast.walk(e):
                        if isinstance(x, ast.Attribute) and isinstance(x.value, ast.Name) and x.value.id == "FeatureType":
                            names.add(f"FeatureType.{x.attr}")
                zero_calls.append(names)
    if zero_calls and all(zero_calls):
        never_zeroed = set.intersection(*zero_calls)
        other_strong = {w.key for w in wr if w.attr == "features" and w.kind in ("rebind", "entry") and w.key}
        full_rebind = any(w.attr == "features" and w.kind == "rebind" for w in wr)
        for k in sorted(never_zeroed - other_strong):
            hit = [w for w in wu if w.attr == "features" and w.key == k]
            if hit and not full_rebind:
                ok = False
                chk.violation(
                    rule, f"{cls.qualname}.reset", hit[0].event.node,
                    f"{cls.name}.update writes `self.features[{k}]` ({hit[0].text}) but every zeroing on the reset path "
                    f"excludes {k} and nothing else rebinds it: after a reset the {k.split('.')[-1].lower()} features still "
                    "carry the previous episode",
                    loc=hit[0].loc,
                )
    for attr, ws in sorted(missing.items()):
        if attr in entry and all(x.kind in ("entry", "inplace") for x in ws):
            # DurationObserver idiom: zero + per-key rebinding.  With a
            # *computed* key (self.a[i] = v inside a loop) the entry-wise
            # restore only counts when no condition lets an iteration skip it
            partial = None
            for rw in wr:
                if rw.attr != attr or rw.kind != "entry":
                    continue
                key_names = set()
                if rw.key:
                    try:
                        key_names = {x.id for x in ast.walk(ast.parse(rw.key, mode="eval")) if isinstance(x, ast.Name)}
                    except SyntaxError:
                        key_names = set()
                local_names = set(ctx.flow.defs(rw.fi).params) | {n_ for n_ in key_names if ctx.flow.defs(rw.fi).of(n_)}
                if not (key_names & local_names):
                    continue  # a literal key (FeatureType.X, "name", 0)
                par = rw.fi.module.parents
                x, guarded = rw.event.node, None
                while x in par and x is not rw.fi.node:
                    p_ = par[x]
                    if isinstance(p_, (ast.If, ast.Try, ast.While)) and x not in getattr(p_, "orelse", []) or isinstance(p_, ast.If):
                        guarded = p_
                    if isinstance(p_, ast.For):
                        # an earlier `continue` / `break` in the loop body skips the store
                        for st_ in p_.body:
                            if st_ is x or any(y is x for y in ast.walk(st_)):
                                break
                            if any(isinstance(y, (ast.Continue, ast.Break)) for y in ast.walk(st_)):
                                guarded = st_
                    x = p_
                if guarded is not None:
                    partial = (rw, guarded)
            if partial is None:
                continue
            rw, g = partial
            ok = False
            chk.violation(
                rule, f"{cls.qualname}.reset", rw.event.node,
                f"{cls.name}.update changes entries of `self.{attr}` ({ws[0].text} in {ws[0].fi.name}) and reset only overwrites them "
                f"entry by entry (`{rw.text}` in {rw.fi.name}) under a condition (`{ast.unparse(g).splitlines()[0][:60]}`): the entries the "
                "condition skips keep the previous episode's values",
                loc=rw.loc,
            )
            continue
        w = ws[0]
        ok = False
        chk.violation(
            rule, f"{cls.qualname}.reset", w.event.node,
            f"{cls.name}.update changes `self.{attr}` ({w.text} in {w.fi.name}) but reset "
            f"({rst.qualname.split('.')[-2]}.reset) never rebinds or fully overwrites it: "
            "after a reset the observer still carries the previous episode",
            loc=w.loc, path=[*w.via, w.fi.qualname],
        )
    # restoring by alias: reset rebinds self.A to an object that is reachable
    # from another attribute (no copy) while update mutates self.A in place -
    # the "pristine" source is corrupted by the first episode after a reset
    inplace = {w.attr for w in wu if w.kind in ("inplace", "entry", "overwrite")}
    for w in wr:
        if w.kind != "rebind" or w.attr not in inplace:
            continue
        st = w.event.node
        val = getattr(st, "value", None)
        if val is None:
            continue
        for o in ctx.flow.origins(w.fi, val, cls):
            if o[0] == "attr" and o[1] == w.fi.params[0] and o[2] and o[2][0] != w.attr:
                ok = False
                chk.violation(
                    rule, f"{cls.qualname}.reset", st,
                    f"reset restores `self.{w.attr}` from `self.{'.'.join(o[2])}` without copying it, and update "
                    f"mutates `self.{w.attr}` in place: the stored initial state is overwritten during the next "
                    "episode, so the second reset restores a corrupted state",
                    loc=w.loc,
                )
                break
    # pristine sources: attributes that reset *reads* to re-establish another
    # attribute and does not itself re-establish.  They must keep their
    # construction-time value: update must not write them, and no attribute
    # that update mutates in place may alias them from the constructor on.
    selfname = rst.params[0] if rst.params else "self"
    pristine: dict[str, tuple] = {}
    for w in wr:
        if w.kind != "rebind":
            continue
        val = getattr(w.event.node, "value", None)
        if val is None:
            continue
        for x in ast.walk(val):
            if (
                isinstance(x, ast.Attribute) and isinstance(x.value, ast.Name) and x.value.id == w.fi.params[0]
                and x.attr not in strong and x.attr not in entry and x.attr != "dispatcher" and x.attr != w.attr
                and isinstance(x.ctx, ast.Load)
            ):
                # a method call self.m(...) is not a stored source
                if repo.method(cls, x.attr) is not None:
                    continue
                pristine.setdefault(x.attr, (w, x))
    for b, (w, x) in sorted(pristine.items()):
        hit = [u for u in wu if u.attr == b]
        if hit:
            ok = False
            chk.violation(
                rule, f"{cls.qualname}.reset", hit[0].event.node,
                f"reset restores `self.{w.attr}` from `self.{b}`, but update modifies `self.{b}` ({hit[0].text}): "
                "the stored initial state does not survive the first episode",
                loc=hit[0].loc,
            )
    init = repo.method(cls, "__init__")
    if pristine and init is not None:
        # the binding the constructed object ends up with: a later unconditional statement of the written-out
        # constructor that rebinds the same attribute (`super().__init__()` running initialize_features, which
        # takes its own copy) overrides an earlier one
        try:
            init_top = list(ctx.norm.flat(init, depth=3).node.body)
        except AnalysisError:
            init_top = []

        def _overridden(w):
            txt = ast.unparse(w.event.node)
            at = next((i for i, st in enumerate(init_top) if any(isinstance(x, ast.stmt) and ast.unparse(x) == txt for x in ast.walk(st))), None)
            if at is None:
                return False
            for st in init_top[at + 1:]:
                if isinstance(st, ast.Assign) and len(st.targets) == 1 and isinstance(st.targets[0], ast.Attribute) \
                        and isinstance(st.targets[0].value, ast.Name) and st.targets[0].value.id == "self" and st.targets[0].attr == w.attr \
                        and ast.unparse(st.value) != ast.unparse(getattr(w.event.node, "value", st.value)):
                    return True
                # ... or an unconditional call on the same object (`super().__init__(...)` running the class's own
                # `initialize_features`) whose steps, each an unconditional statement of its caller, rebind it
                if isinstance(st, ast.Expr) and isinstance(st.value, ast.Call) and isinstance(st.value.func, ast.Attribute):
                    rv = st.value.func.value
                    on_self = (isinstance(rv, ast.Name) and rv.id == "self") or (
                        isinstance(rv, ast.Call) and isinstance(rv.func, ast.Name) and rv.func.id == "super")
                    if on_self and _rebinds_unconditionally(st.value.func.attr, isinstance(rv, ast.Call), w, 0):
                        return True
            return False

        def _top_calls(f):
            for st in getattr(f.node, "body", []):
                if isinstance(st, ast.Expr) and isinstance(st.value, ast.Call) and isinstance(st.value.func, ast.Attribute):
                    rv = st.value.func.value
                    if isinstance(rv, ast.Name) and f.params and rv.id == f.params[0]:
                        yield st.value.func.attr, False
                    elif isinstance(rv, ast.Call) and isinstance(rv.func, ast.Name) and rv.func.id == "super":
                        yield st.value.func.attr, True

        def _rebinds_unconditionally(name, via_super, w, depth, _from=None):
            if depth > 3:
                return False
            start = cls if not via_super else None
            if via_super:
                owner = (_from or init).cls
                for q in (owner.mro[1:] if owner is not None else []):
                    k = repo.classes.get(q) if hasattr(repo, "classes") else None
                    if k is not None and name in k.methods:
                        start = k
                        break
                if start is None:
                    return False
                f = start.methods[name]
            else:
                f = repo.method(cls, name)
            if f is None or isinstance(f.node, ast.Lambda) or not f.params:
                return False
            me = f.params[0]
            for st in f.node.body:
                if isinstance(st, ast.Assign) and len(st.targets) == 1 and isinstance(st.targets[0], ast.Attribute) \
                        and isinstance(st.targets[0].value, ast.Name) and st.targets[0].value.id == me and st.targets[0].attr == w.attr:
                    return not any(
                        o[0] == "attr" and o[1] == me and o[2] and o[2][0] in pristine for o in ctx.flow.origins(f, st.value, cls))
            return any(_rebinds_unconditionally(n2, s2, w, depth + 1, f) for n2, s2 in _top_calls(f))

        for w in lc.attr_writes(init, cls):
            if w.kind != "rebind" or w.attr not in inplace or w.attr in pristine:
                continue
            val = getattr(w.event.node, "value", None)
            if val is None:
                continue
            if _overridden(w):
                continue
            for o in ctx.flow.origins(w.fi, val, cls):
                if o[0] == "attr" and o[1] == w.fi.params[0] and o[2] and o[2][0] in pristine:
                    ok = False
                    chk.violation(
                        rule, f"{cls.qualname}.__init__", w.event.node,
                        f"the constructor binds `self.{w.attr}` to the very object stored as `self.{o[2][0]}` (no copy); "
                        f"update mutates `self.{w.attr}` in place and reset restores from `self.{o[2][0]}`: the first "
                        "episode corrupts the stored initial state, so every reset restores garbage",
                        loc=w.loc,
                    )
                    break
    del selfname
    if ok:
        n_before = len(chk.findings)
        path_reset_cover(ctx, cls, upd, rst, rule, cls.name, skip=("dispatcher",))
        ok = len(chk.findings) == n_before
    if ok:
        chk.ok(rule, cls.qualname, rst.loc(), f"W_update={sorted({w.attr for w in wu})} ⊆ W_reset={sorted(strong | entry)}")
    return wu, wr


def run(ctx):
    chk, repo = ctx.chk, ctx.repo
    for rid, txt in (
        ("R12.a", "W_update(C) ⊆ W_reset(C) for every observer class C (rebinding or full overwrite required in reset)"),
        ("R12.b", "an observer whose reset reads another observer acquired it before subscribing itself (or was handed it)"),
        ("R12.c", "dispatcher/schedule: attributes written by dispatch/add are re-established by reset with the same initialising expressions as __init__"),
        ("R12.d", "GraphUpdater.reset restores a deep copy of a construction-time deep copy that nothing mutates"),
        ("R12.e", "environment reset: dispatcher.reset() before the observation; multi env forwards its full stored configuration"),
        ("R12.f", "no observer keeps a reference to an object that its owner replaces on reset (machine lists of the schedule, tracking vectors) unless its own reset re-reads it"),
    ):
        chk.rule(rid, txt)
    lc = Lifecycle(ctx)
    obs = repo.find_class(OBSERVER)
    disp = repo.find_class(DISPATCHER)
    cone = repo.subclasses(obs.qualname)
    if len(cone) < 15:
        raise AnalysisError(f"observer cone has only {len(cone)} classes (floor 15)")

    # ---------------------------------------------------------------- R12.a
    n = 0
    for c in cone:
        r = observer_completeness(ctx, lc, c)
        if r is not None:
            n += 1
    chk.floor("R12.a", n, 12, "concrete observer classes")

    # ---------------------------------------------------------------- R12.f
    ctx.attempt(stale_aliases, ctx, lc, cone, disp)
    from .common import mangled_overrides

    for c_, m_, b_ in mangled_overrides(ctx, ("job_shop_lib",)):
        chk.violation(
            "R12.a", m_, None,
            f"{c_.name}.{m_.name} is meant to override {b_.name}.{m_.name}, but names with two leading underscores are mangled per "
            f"class: code in {b_.name} that calls self.{m_.name}() runs {b_.name}'s own version, so this hook (and whatever state it "
            "re-establishes on reset) is never executed",
        )
    ctx.attempt(rebuild_before_features, ctx, lc, cone)
    ctx.attempt(_no_construction_snapshots, ctx, lc, cone)

    # ---------------------------------------------------------------- R12.b
    ctx.attempt(reset_order, ctx, lc, cone, obs, disp, "reset", "R12.b")

    # ---------------------------------------------------------------- R12.c
    ctx.attempt(dispatcher_reset, ctx, lc, disp, "R12.c")

    # ---------------------------------------------------------------- R12.d
    gu = repo.find_class("GraphUpdater")
    rst = gu.methods.get("reset")
    init = gu.methods.get("__init__")
    if rst is None or init is None:
        raise AnalysisError("GraphUpdater.reset/__init__ vanished")
    src_attr = None
    rst_raw, init_raw = rst, init
    rst, init = ctx.norm.flat(rst), ctx.norm.flat(init)  # private factories inlined
    for nd in own_nodes(rst.node):
        if isinstance(nd, ast.Assign) and any(isinstance(t, ast.Attribute) and t.attr == "job_shop_graph" for t in nd.targets):
            v = ctx.norm.xexpr(rst, nd.value)
            if isinstance(v, ast.Call) and ast.unparse(v.func) in ("deepcopy", "copy.deepcopy") and v.args and isinstance(v.args[0], ast.Attribute) and ast.unparse(v.args[0].value) == "self":
                src_attr = v.args[0].attr
                chk.ok("R12.d", rst.qualname, rst.loc(nd), f"rebinds from deepcopy(self.{src_attr})")
            elif isinstance(v, ast.Attribute) and ast.unparse(v.value) == "self":
                chk.violation(
                    "R12.d", rst, nd,
                    f"reset installs self.{v.attr} itself instead of a deep copy: the next episode mutates "
                    "the pristine graph, and the episode after that starts from a damaged one",
                    loc=rst.loc(nd),
                )
                src_attr = False
            elif (
                isinstance(v, ast.Call) and ast.unparse(v.func) in ("copy", "copy.copy") and len(v.args) == 1
                and isinstance(v.args[0], ast.Attribute) and ast.unparse(v.args[0].value) == "self"
            ):
                chk.violation(
                    "R12.d", rst, nd,
                    f"reset installs a shallow copy of self.{v.args[0].attr}: the copy shares the networkx graph, the node lists "
                    "and the removed-nodes flags with the pristine graph, so the next episode removes its nodes from the pristine "
                    "graph too and every later episode starts from a damaged one",
                    loc=rst.loc(nd),
                )
                src_attr = False
            else:
                raise AnalysisError(f"{rst.loc(nd)}: GraphUpdater.reset source not recognised")
    if src_attr is None:
        chk.violation("R12.d", rst, None, "GraphUpdater.reset does not rebind self.job_shop_graph")
    elif src_attr:
        took = False
        for nd in own_nodes(init.node):
            if isinstance(nd, ast.Assign) and any(isinstance(t, ast.Attribute) and t.attr == src_attr for t in nd.targets):
                v = ctx.norm.xexpr(init, nd.value)
                if isinstance(v, ast.Call) and ast.unparse(v.func) in ("deepcopy", "copy.deepcopy"):
                    took = True
                    chk.ok("R12.d", init.qualname, init.loc(nd), f"self.{src_attr} is a deep copy taken at construction")
                else:
                    chk.violation(
                        "R12.d", init, nd,
                        f"self.{src_attr} aliases the live graph instead of a deep copy: reset restores "
                        "whatever the first episode left",
                        loc=init.loc(nd),
                    )
                    took = True
        if not took:
            raise AnalysisError(f"GraphUpdater.__init__ never assigns self.{src_attr}")
        # never written / mutated afterwards, in any class of the cone
        for c in repo.subclasses(gu.qualname):
            for mname in ("update", "reset"):
                m = repo.method(c, mname)
                if m is None or "abstractmethod" in " ".join(m.decorators):
                    continue
                for w in lc.attr_writes(m, c):
                    if w.attr == src_attr:
                        if w.fi is not m:
                            # written by a shared step (`_use_graph(graph, as_initial=False)`): only if the
                            # written-out method - literal flags decided - still stores it
                            try:
                                mf = ctx.norm.flat(m, depth=3)
                                still = any(
                                    isinstance(x, (ast.Assign, ast.AugAssign, ast.AnnAssign)) and any(
                                        isinstance(t, ast.Attribute) and t.attr == src_attr and ast.unparse(t.value) == m.params[0]
                                        for t in (x.targets if isinstance(x, ast.Assign) else [x.target])
                                    )
                                    for x in own_nodes(mf.node)
                                )
                            except AnalysisError:
                                still = True
                            if not still:
                                continue
                        chk.violation(
                            "R12.d", f"{c.qualname}.{mname}", w.event.node,
                            f"the pristine copy self.{src_attr} is modified after construction ({w.text})",
                            loc=w.loc,
                        )

    # ---------------------------------------------------------------- R12.e
    ctx.attempt(environments, ctx, lc, disp)


# --------------------------------------------------------------------------
def reset_order(ctx, lc, cone, obs, disp, phase, rule):
    """For every observer class A: foreign-observer reads in the own-object
    closure of ``phase`` (reset/update) must go through observers acquired
    before A subscribed."""
    chk, repo = ctx.chk, ctx.repo
    sub = repo.need_method(disp, "subscribe")
    n_reads = 0
    for a in cone:
        m = repo.method(a, phase)
        if m is None or "abstractmethod" in " ".join(m.decorators):
            continue
        reads = lc.foreign_observer_reads(m, a, obs.qualname)
        if not reads:
            chk.ok(rule, a.qualname, m.loc(), f"{phase} reads no other observer")
            continue
        seen_sites = set()
        for f, node, bnames, via in reads:
            acq = lc.acquisition_of(f, node.value, a)
            sites = []
            if acq[0] == "given":
                continue
            if acq[0] == "acquire":
                sites.append(acq[1])
            elif acq[0] == "attr":
                for mf, val in lc.attr_sources(a, acq[1]):
                    if isinstance(val, ast.Constant) and val.value is None:
                        continue
                    r = lc.acquisition_of(mf, val, a)
                    if r[0] == "acquire":
                        sites.append(r[1])
                    elif r[0] == "given":
                        pass
                    else:
                        raise AnalysisError(f"{mf.loc(val)}: origin of observer reference self.{acq[1]} not recognised")
            else:
                raise AnalysisError(f"{f.loc(node)}: origin of observer reference `{ast.unparse(node.value)}` not recognised")
            for site in sites:
                if id(site) in seen_sites:
                    continue
                seen_sites.add(id(site))
                n_reads += 1
                verdict = _acquired_before_subscribe(ctx, a, site, sub, cone)
                bn = bnames[0].split(".")[-1]
                if verdict is True:
                    chk.ok(rule, a.qualname, f.loc(node), f"{bn} acquired before {a.name} subscribes")
                else:
                    chk.violation(
                        rule, f"{a.qualname}.{phase}", site,
                        f"{a.name}.{phase} reads {bn} (`{ast.unparse(node)[:60]}`), but {a.name} subscribes "
                        f"itself before it acquires {bn}: when {a.name} creates it, {bn} is later in the "
                        f"subscriber list and is {phase} after {a.name}, which therefore reads its state "
                        "from the previous episode" + ("" if phase == "reset" else " / previous step"),
                        loc=f.loc(site), path=verdict if isinstance(verdict, list) else [],
                    )
    return n_reads


def _no_construction_snapshots(ctx, lc, cone):
    """R12.a, another way to fail it: ``reset`` re-establishes an attribute, but
    from a value the constructor read off the dispatcher's *mutable* state and
    put aside (`self._initial_makespan = dispatcher.schedule.makespan()` ...
    `reset: self.current_makespan = self._initial_makespan`).  A freshly
    constructed observer reads the state as it is now (after the reset: empty);
    the snapshot is that of the moment the observer was attached."""
    chk, repo = ctx.chk, ctx.repo
    for c in cone:
        rst = repo.method(c, "reset")
        init = repo.method(c, "__init__")
        if rst is None or init is None or isinstance(rst.node, ast.Lambda) or rst.cls is None:
            continue
        if rst.cls is not c and c.methods.get("reset") is None and c.methods.get("__init__") is None:
            continue  # inherited unchanged: judged at the class that defines it
        try:
            rf = ctx.norm.flat(rst, depth=2)
        except AnalysisError:
            rf = rst
        me = rst.params[0] if rst.params else "self"
        for n in own_nodes(rf.node):
            if not (isinstance(n, ast.Assign) and len(n.targets) == 1 and isinstance(n.targets[0], ast.Attribute) and ast.unparse(n.targets[0].value) == me):
                continue
            v = n.value
            if not (isinstance(v, ast.Attribute) and ast.unparse(v.value) == me and v.attr != n.targets[0].attr):
                continue
            srcs = [(f, val) for f, val in lc.attr_sources(c, v.attr) if val is not None]
            if not srcs or any(f.name != "__init__" for f, _ in srcs):
                continue  # (also) written outside the constructor: not a construction-time snapshot
            for f, val in srcs:
                t = ctx.norm.xtext(f, val)
                live = ("dispatcher." in t or "dispatcher)" in t) and "schedule" in t and "(" in t
                if live:
                    chk.violation(
                        "R12.a", rst, n,
                        f"{c.name}.reset re-establishes `self.{n.targets[0].attr}` from `self.{v.attr}`, which the constructor set to `{t[:70]}` - the "
                        "dispatcher's state at the moment the observer was attached. A freshly constructed observer reads the state as it is "
                        "after the reset; an observer attached to a dispatcher that had already scheduled operations keeps that old value",
                        loc=rf.loc(n),
                    )
                    break


def _acquired_before_subscribe(ctx, a, site, sub, cone):
    """True if on every non-raising constructor path of class ``a`` the
    acquisition call ``site`` is executed before Dispatcher.subscribe(self).
    Otherwise a path description."""
    repo = ctx.repo
    cone_q = {c.qualname for c in cone}

    def acq_class(call):
        """Observer class a create_or_get_observer(B, ...) / B(...) call acquires."""
        f = call.func
        if isinstance(f, ast.Attribute) and f.attr == "create_or_get_observer" and call.args:
            return ast.unparse(call.args[0]), tuple(sorted((k.arg or "**", _kwtext(k.value)) for k in call.keywords))
        if isinstance(f, ast.Name):
            return f.id, tuple(sorted((k.arg or "**", _kwtext(k.value)) for k in call.keywords))
        return None, ()

    want_cls, want_kw = acq_class(site)
    # the acquisition may sit in a shared helper with several returns
    # (`if condition is None: return d.create_or_get_observer(T, **kw)` /
    # `return d.create_or_get_observer(T, condition=condition, **kw)`): any of
    # its acquisition calls of the same type expression is "the" acquisition
    site_fn = None
    for mi_ in repo.modules.values():
        if site in mi_.parents:
            site_fn = repo.enclosing_function(mi_, site)
            break

    def same_acquisition(call):
        if call is site:
            return True
        c, kw = acq_class(call)
        if c is not None and c == want_cls and kw == want_kw:
            return True
        if c is not None and c == want_cls and site_fn is not None and site_fn.cls is not None and site_fn.name != "__init__":
            fn2 = repo.enclosing_function(site_fn.module, call) if call in site_fn.module.parents else None
            return fn2 is site_fn
        return False

    def relevant(e):
        if e.kind == "raise":
            return True
        if e.kind != "call":
            return False
        return (
            e.node is site or sub in (e.data.get("targets") or [])
            or e.data.get("attr") == "create_or_get_observer"
            or (isinstance(e.node, ast.Call) and acq_class(e.node)[0] == want_cls)
        )

    def inline_filter(t):
        if t.name == "create_or_get_observer":
            return False
        if t.cls is not None and t.cls.qualname in cone_q and t.cls.qualname not in a.mro:
            return False
        return True

    eng = ctx.engine(relevant=relevant, max_depth=7, inline_filter=inline_filter)
    init = repo.method(a, "__init__")
    if init is None:
        raise AnalysisError(f"{a.qualname}: no constructor")
    paths = eng.paths(init, a)
    any_ok = False
    for p in paths:
        if p.outcome == "raise":
            continue
        i_sub = next((i for i, e in enumerate(p.events) if e.kind == "call" and sub in (e.data.get("targets") or [])), None)
        i_acq = next((i for i, e in enumerate(p.events) if e.kind == "call" and isinstance(e.node, ast.Call) and same_acquisition(e.node)), None)
        if i_sub is None:
            continue  # subscribe=False path: not in the subscriber list at all
        if i_acq is None:
            # optional dependency not acquired on this constructor path
            # (e.g. the feature is switched off): nothing to order
            continue
        if i_acq > i_sub:
            return p.describe()
        any_ok = True
    return True if any_ok else ["the dependency is never acquired before subscribing on any constructor path"]


def _kwtext(v):
    # local helper functions passed as condition are compared by name
    return ast.unparse(v)


def dispatcher_reset(ctx, lc, disp, rule):
    chk, repo = ctx.chk, ctx.repo
    sched = repo.find_class("Schedule")
    # Schedule: add vs reset
    s_add, s_rst, s_init = sched.methods.get("add"), sched.methods.get("reset"), sched.methods.get("__init__")
    if None in (s_add, s_rst, s_init):
        raise AnalysisError("Schedule.add/reset/__init__ vanished")
    wa = {w.attr for w in lc.attr_writes(s_add, sched)}
    wr = {w.attr for w in lc.attr_writes(s_rst, sched) if w.kind in STRONG}
    sched_ok = wa <= wr
    if sched_ok:
        chk.ok(rule, sched.qualname, s_rst.loc(), f"Schedule: W_add={sorted(wa)} ⊆ W_reset={sorted(wr)}")
    else:
        chk.violation(rule, s_rst, None, f"Schedule.reset does not re-establish {sorted(wa - wr)} written by add")
    # empty-schedule expression agreement between __init__ and reset
    e_init = [nd.value for nd in own_nodes(s_init.node) if isinstance(nd, ast.Assign) and isinstance(nd.targets[0], ast.Name) and nd.targets[0].id == "schedule"]
    e_rst = [nd.value for nd in own_nodes(s_rst.node) if isinstance(nd, ast.Assign) and isinstance(nd.targets[0], ast.Attribute) and nd.targets[0].attr in ("schedule", schedule_attr(ctx))]
    if not e_init:
        # the empty schedule may be stored directly (`self._schedule = <empty>`), not through a local
        e_init = [
            nd.value for nd in own_nodes(s_init.node)
            if isinstance(nd, ast.Assign) and isinstance(nd.targets[0], ast.Attribute) and nd.targets[0].attr in ("schedule", schedule_attr(ctx))
            and not (isinstance(nd.value, ast.Name) and nd.value.id in s_init.params)
        ]
    if e_init and e_rst:
        a = ctx.norm.xtext(s_init, e_init[0]).replace("self.instance", "instance")
        b = ctx.norm.xtext(s_rst, e_rst[0]).replace("self.instance", "instance")
        if a == b:
            chk.ok(rule, sched.qualname, s_rst.loc(), "empty schedule built by the same expression in __init__ and reset")
        else:
            chk.violation(rule, s_rst, e_rst[0], f"reset builds the empty schedule as `{b}` but the constructor as `{a}`", loc=s_rst.loc(e_rst[0]))
    else:
        raise AnalysisError("Schedule: empty-schedule expressions not recognised")

    dispatch = repo.need_method(disp, "dispatch")
    reset = repo.need_method(disp, "reset")
    init = repo.need_method(disp, "__init__")
    wd = lc.attr_writes(dispatch, disp)
    wr_all = lc.attr_writes(reset, disp)
    strong = {w.attr for w in wr_all if w.kind in STRONG}
    # self.schedule.reset() re-establishes `schedule` when Schedule is complete
    for nd in own_nodes(reset.node):
        if isinstance(nd, ast.Call) and isinstance(nd.func, ast.Attribute) and nd.func.attr == "reset" and ast.unparse(nd.func.value) == "self.schedule":
            if sched_ok:
                strong.add("schedule")
    bad = False
    for w in wd:
        if w.attr in ("subscribers",):
            continue
        if w.attr not in strong:
            bad = True
            chk.violation(
                rule, reset, w.event.node,
                f"dispatch changes `self.{w.attr}` ({w.text}) but Dispatcher.reset never re-establishes it",
                loc=w.loc,
            )
            break
    if not bad:
        n_before = len(chk.findings)
        path_reset_cover(ctx, disp, dispatch, reset, rule, "Dispatcher", skip=("subscribers",), also=(sched.qualname,))
        bad = len(chk.findings) != n_before
    if not bad:
        chk.ok(rule, reset.qualname, reset.loc(), f"W_dispatch={sorted({w.attr for w in wd})} ⊆ W_reset={sorted(strong)}")
    # initialising expressions agree
    def norm_init(s):
        return s.replace("self.instance", "instance")
    iv = {}
    # with the private steps of a template-method split written out
    try:
        init_f, reset_f = ctx.norm.flat(init, depth=3), ctx.norm.flat(reset, depth=3)
    except AnalysisError:
        init_f, reset_f = init, reset
    stored_params = {}
    for nd in own_nodes(init_f.node):
        tg = nd.targets if isinstance(nd, ast.Assign) else [nd.target] if isinstance(nd, ast.AnnAssign) and nd.value is not None else []
        for t in tg:
            if isinstance(t, ast.Attribute) and ast.unparse(t.value) == "self":
                iv[t.attr] = nd.value
                if isinstance(nd.value, ast.Name) and nd.value.id in init.params:
                    stored_params[t.attr] = nd.value.id
                elif isinstance(nd.value, ast.Attribute) and ast.unparse(nd.value.value) == "self" and nd.value.attr in stored_params:
                    stored_params[t.attr] = stored_params[nd.value.attr]  # a second home of the same argument
    for _pass in range(3):  # second homes, whatever order the statements are met in
        for nd in own_nodes(init_f.node):
            if isinstance(nd, (ast.Assign, ast.AnnAssign)) and nd.value is not None and isinstance(nd.value, ast.Attribute) \
                    and ast.unparse(nd.value.value) == "self" and nd.value.attr in stored_params:
                for t in (nd.targets if isinstance(nd, ast.Assign) else [nd.target]):
                    if isinstance(t, ast.Attribute) and ast.unparse(t.value) == "self":
                        stored_params.setdefault(t.attr, stored_params[nd.value.attr])
    # an attribute that only ever holds a constructor argument (`self.instance`, a copy of it kept
    # by a state record) reads as that argument - unless some other method assigns it
    import re as _re

    def _same_home(v):
        # re-assigned from another home of the same constructor argument: no change
        return isinstance(v, ast.Attribute) and ast.unparse(v.value) == "self" and v.attr in stored_params

    def _flat_or_raw(m_):
        try:
            return ctx.norm.flat(m_, depth=3)
        except Exception:
            return m_

    # judged on the written-out public methods (a private step stores whatever its caller hands it)
    reassigned = {
        t.attr for m0_ in list(disp.methods.values()) + list(disp.setters.values())
        if m0_ is not init and not isinstance(m0_.node, ast.Lambda) and not (m0_.name.startswith("_") and not m0_.name.startswith("__"))
        for m_ in [_flat_or_raw(m0_)]
        for x in own_nodes(m_.node) if isinstance(x, (ast.Assign, ast.AugAssign, ast.AnnAssign))
        for t in (x.targets if isinstance(x, ast.Assign) else [x.target])
        if isinstance(t, ast.Attribute) and ast.unparse(t.value) == "self"
        and not (isinstance(x, (ast.Assign, ast.AnnAssign)) and _same_home(x.value) and stored_params.get(t.attr) == stored_params.get(x.value.attr))
    }
    _base_norm = norm_init
    # a private copy of a constructor value (`self._a = list(x)`), never re-assigned and never
    # modified in place: a fresh copy of it (`list(self._a)`) equals a fresh copy of the value itself
    copy_homes = {}
    top = list(getattr(init_f.node, "body", []))
    for i_, st_ in enumerate(top):
        if not (isinstance(st_, ast.Assign) and len(st_.targets) == 1):
            continue
        t_, v_ = st_.targets[0], st_.value
        if not (isinstance(t_, ast.Attribute) and ast.unparse(t_.value) == "self" and t_.attr.startswith("_") and t_.attr not in reassigned):
            continue
        if not (isinstance(v_, ast.Call) and isinstance(v_.func, ast.Name) and v_.func.id in ("list", "tuple")
                and len(v_.args) == 1 and not v_.keywords and isinstance(v_.args[0], ast.Name)):
            continue
        x_ = v_.args[0].id
        if any(isinstance(n_, ast.Name) and n_.id == x_ and isinstance(n_.ctx, ast.Store) for s2 in top[i_ + 1:] for n_ in ast.walk(s2)):
            continue
        pat_ = r"(?<![A-Za-z0-9_.])self\." + _re.escape(t_.attr) + r"(?![A-Za-z0-9_])"
        touched = False
        for m0_ in list(disp.methods.values()) + list(disp.setters.values()):
            if isinstance(m0_.node, ast.Lambda):
                continue
            for n_ in ast.walk(m0_.node):
                if isinstance(n_, (ast.Subscript, ast.Attribute)) and isinstance(n_.ctx, (ast.Store, ast.Del)) and n_ is not t_ \
                        and _re.search(pat_, ast.unparse(n_.value)):
                    touched = True
                elif isinstance(n_, ast.AugAssign) and _re.search(pat_, ast.unparse(n_.target)):
                    touched = True
                elif isinstance(n_, ast.Call) and isinstance(n_.func, ast.Attribute) and _re.fullmatch(pat_, ast.unparse(n_.func.value)) \
                        and n_.func.attr not in ("copy", "index", "count"):
                    touched = True
        if not touched:
            copy_homes[t_.attr] = (v_.func.id, x_)

    def norm_init(s, _b=_base_norm):  # noqa: F811
        s = _b(s)
        for attr_, (fn_, x_) in copy_homes.items():
            s = _re.sub(r"(?<![A-Za-z0-9_.])(list|tuple)\(self\." + _re.escape(attr_) + r"\)", lambda m: f"{m.group(1)}({x_})", s)
        for attr_, par_ in stored_params.items():
            if attr_ not in reassigned:
                s = _re.sub(r"(?<![A-Za-z0-9_.])self\." + _re.escape(attr_) + r"(?![A-Za-z0-9_])", par_, s)
        return s

    n_cmp = 0
    for nd in own_nodes(reset_f.node):
        if isinstance(nd, ast.Assign):
            for t in nd.targets:
                if isinstance(t, ast.Attribute) and ast.unparse(t.value) == "self" and t.attr in iv:
                    # local aliases (`instance = self.instance`, also ones renamed apart while flattening) expanded
                    a, b = norm_init(ctx.norm.xtext(init_f, iv[t.attr])), norm_init(ctx.norm.xtext(reset_f, nd.value))
                    n_cmp += 1
                    if a == b or (a in ("{}", "dict()") and b in ("{}", "dict()")):
                        chk.ok(rule, reset.qualname, reset_f.loc(nd), f"self.{t.attr}: reset expression equals the constructor's")
                    else:
                        chk.violation(
                            rule, reset, nd,
                            f"reset re-initialises self.{t.attr} as `{b}` but the constructor as `{a}`: a reset "
                            "dispatcher differs from a fresh one",
                            loc=reset_f.loc(nd),
                        )
    if n_cmp < 3:
        # tolerated when reset delegates to a shared helper also used by __init__
        init_calls = {ast.unparse(nd.func) for nd in own_nodes(init.node) if isinstance(nd, ast.Call) and ast.unparse(nd.func).startswith("self._")}
        reset_calls = {ast.unparse(nd.func) for nd in own_nodes(reset.node) if isinstance(nd, ast.Call) and ast.unparse(nd.func).startswith("self._")}
        if not (init_calls & reset_calls):
            raise AnalysisError("Dispatcher.__init__/reset: initialising expressions could not be paired")
        chk.ok(rule, reset.qualname, reset.loc(), f"constructor and reset share {sorted(init_calls & reset_calls)}")


def environments(ctx, lc, disp):
    chk, repo = ctx.chk, ctx.repo
    rule = "R12.e"
    dreset = repo.need_method(disp, "reset")
    env = repo.find_class("SingleJobShopGraphEnv")
    rst, step = env.methods.get("reset"), env.methods.get("step")
    if rst is None or step is None:
        raise AnalysisError("SingleJobShopGraphEnv.reset/step vanished")
    eng = ctx.engine(
        relevant=lambda e: e.kind == "call" and (dreset in (e.data.get("targets") or []) or e.data.get("attr") in ("get_observation", "reset")),
        max_depth=2,
    )
    ok = True
    for p in eng.paths(rst, env):
        if p.outcome == "raise":
            continue
        i_d = next((i for i, e in enumerate(p.events) if e.kind == "call" and dreset in (e.data.get("targets") or [])), None)
        i_o = next((i for i, e in enumerate(p.events) if e.kind == "call" and e.data.get("attr") == "get_observation"), None)
        if i_d is None:
            ok = False
            chk.violation(rule, rst, None, "environment reset does not reset the dispatcher (and with it every observer)", path=p.describe())
        elif i_o is not None and i_o < i_d:
            ok = False
            chk.violation(rule, rst, p.events[i_o].node, "the observation is built before the dispatcher is reset", loc=p.events[i_o].loc)
    if ok:
        chk.ok(rule, rst.qualname, rst.loc(), "dispatcher.reset() precedes get_observation()")
    # attributes touched by step must be re-established by reset
    ws = lc.attr_writes(step, env)
    wr = lc.attr_writes(rst, env)
    strong = {w.attr for w in wr if w.kind in STRONG}
    for nd in own_nodes(rst.node):
        if isinstance(nd, ast.Call) and isinstance(nd.func, ast.Attribute) and nd.func.attr == "reset" and ast.unparse(nd.func.value) == "self.dispatcher":
            strong.add("dispatcher")
    bad = False
    for w in ws:
        if w.attr not in strong:
            bad = True
            chk.violation(rule, rst, w.event.node, f"step changes `self.{w.attr}` ({w.text}) but reset never re-establishes it", loc=w.loc)
    if not bad:
        chk.ok(rule, env.qualname, rst.loc(), f"W_step={sorted({w.attr for w in ws})} ⊆ W_reset={sorted(strong)}")
    # multi environment: full configuration forwarded (shared with C18)
    from .c18 import sibling_constructor_agreement

    sibling_constructor_agreement(ctx, rule)


# --------------------------------------------------------------------------
# path-level cover: an attribute that the update phase can write must be
# written on *every* returning path of reset that is compatible with the
# configuration under which the update wrote it.
def _entry_self(fr):
    """True if ``self`` of this (possibly inlined) frame is the object the
    entry method runs on."""
    while fr.parent is not None:
        p0 = fr.fi.params[0] if fr.fi.params else None
        b = fr.bindings.get(p0) if p0 else None
        q0 = fr.parent.fi.params[0] if fr.parent.fi.params else None
        if not (isinstance(b, ast.Name) and b.id == q0):
            return False
        fr = fr.parent
    return True


def _path_facts(ctx, cls, fn, depth=3, also=()):
    """[(attrs written, atoms about the entry object, path)] for the returning
    paths of ``fn``; writes inside a loop count once the loop is entered."""
    from .common import resolve_root, decompose

    lc_ = Lifecycle(ctx)

    def rel(e):
        return e.kind in ("write", "branch", "loop", "call")

    own = set(cls.mro) | {cls.qualname} | set(also)

    def inline_filter(t):
        # the object's own methods (and those of the named owned classes);
        # not the observers a dispatcher notifies, nor arbitrary collaborators
        return t.cls is None or t.cls.qualname in own

    eng = ctx.engine(relevant=rel, max_depth=depth, unroll=1, inline_filter=inline_filter)
    paths = eng.paths(fn, cls)
    selfname = fn.params[0]
    loop_writes: dict[int, set] = {}
    per_path = []
    for p in paths:
        stack, direct, entered = [], set(), set()
        atoms: dict[str, bool] = {}
        for ev in p.events:
            if ev.kind == "loop":
                ph = ev.data.get("phase")
                if ph == "enter":
                    stack.append(id(ev.node))
                    entered.add(id(ev.node))
                elif ph == "exit" and stack and stack[-1] == id(ev.node):
                    stack.pop()
            elif ev.kind == "write" and not ev.data.get("local"):
                root, chain, fr = resolve_root(ev)
                if root == selfname and chain and fr is not None and fr.parent is None and not str(chain[0]).endswith("()"):
                    a = chain[0]
                    direct.add(a)
                    for l in stack:
                        loop_writes.setdefault(l, set()).add(a)
                    # a flag set to a constant: the state the path leaves behind
                    val = getattr(ev.node, "value", None)
                    if len(chain) == 1 and ev.data.get("op") == "assign" and isinstance(val, ast.Constant) and isinstance(val.value, bool) and not stack:
                        atoms[f"=self.{a}"] = val.value
            elif ev.kind == "call":
                # a callee (not inlined) that mutates its receiver / an
                # argument reachable from an attribute of self:
                # self.graph.remove_node(n), helper(self.graph, ...)
                for t in ev.data.get("targets") or []:
                    if isinstance(t.node, ast.Lambda) or inline_filter(t):
                        continue
                    rc = eng._callee_recv(ev, t, ev.frame)
                    for i in lc_.mutated_params(t, rc):
                        arg = lc_._arg_expr(ev, t, i)
                        if arg is None:
                            continue
                        from ..paths import chain_of as _chain_of

                        r0, c0 = _chain_of(arg)
                        if r0 is None:
                            continue
                        root, chain, fr = resolve_root(ev, r0, c0)
                        if root == selfname and chain and fr is not None and fr.parent is None and not str(chain[0]).endswith("()"):
                            direct.add(chain[0])
                            for l in stack:
                                loop_writes.setdefault(l, set()).add(chain[0])
            elif ev.kind == "branch" and _entry_self(ev.frame):
                text = lambda n, _f=ev.fi: ctx.norm.xtext(_f, n)  # noqa: E731
                for a, v in decompose(ev.node, ev.data["taken"], text):
                    atoms[a] = v
        per_path.append((p, direct, entered, atoms))
    out = []
    for p, direct, entered, atoms in per_path:
        if p.outcome == "raise":
            continue
        attrs = set(direct)
        for l in entered:
            attrs |= loop_writes.get(l, set())
        out.append((attrs, atoms, p))
    return out


def path_reset_cover(ctx, cls, upd, rst, rule, label, skip=(), also=()):
    """Violation when some returning path of ``rst`` leaves an attribute
    untouched that a path of ``upd`` (compatible configuration) writes, while
    other paths of ``rst`` do write it (an early exit / one-sided branch)."""
    chk = ctx.chk
    try:
        uf = _path_facts(ctx, cls, upd, also=also)
        rf = _path_facts(ctx, cls, rst, also=also)
    except AnalysisError as e:
        chk.notes.append(f"path-level reset cover skipped for {cls.name}: {e}")
        return 0
    r_all = set().union(*[a for a, _, _ in rf]) if rf else set()
    n = 0
    for attr in sorted(r_all - set(skip)):
        writers = [(a, at, p) for a, at, p in uf if attr in a]
        if not writers:
            continue
        n += 1
        for rattrs, ratoms, rp in rf:
            if attr in rattrs:
                continue
            # a guard that inspects the attribute itself ("already empty")
            if any(f"self.{attr}" in t or f".{attr}" in t for t in ratoms):
                continue
            for _, uatoms, up in writers:
                # a reset path taken only when a flag has the value that this
                # update path just overwrote with the opposite is not reachable after it
                if any(("=" + t) in uatoms and uatoms["=" + t] != v for t, v in ratoms.items()):
                    continue
                if all(ratoms.get(t, v) == v for t, v in uatoms.items() if not t.startswith("=")):
                    from .common import path_atoms as _pa
                    from ..baseline_api import BASELINE_ATTRS as _BA
                    import re as _re2

                    inner_atoms = dict(ratoms)
                    if not inner_atoms:
                        try:
                            inner_atoms = _pa(ctx, rp.events)
                        except Exception:
                            inner_atoms = {}
                    owners_ = {cls.name} | {q_.rsplit(".", 1)[-1] for q_ in also}
                    known_ = set().union(*[set(_BA.get(o_, ())) for o_ in owners_])
                    new_state = sorted({
                        a_ for t_ in inner_atoms for a_ in _re2.findall(r"\.(_[A-Za-z][A-Za-z0-9_]*)", t_) if a_ not in known_
                    })
                    # the guard compares the attribute's own storage with a value (`<empty> == self.schedule._schedule`): "already there"
                    own_storage = _re2.compile(r"^self\." + _re2.escape(attr) + r"(\._[A-Za-z0-9_]+)?$")
                    if any(
                        v_ is True and " == " in t_ and any(own_storage.match(side.strip()) for side in t_.split(" == "))
                        for t_, v_ in inner_atoms.items()
                    ):
                        continue
                    # a dirty flag the update paths set themselves (`self._modified = True` where they mutate) is
                    # judged by the reachability test above: a writer that forgets it is a violation
                    flag_kept = any(("=" + t_) in ua_ for t_ in inner_atoms for _a, ua_, _p in writers)
                    if (not inner_atoms or new_state) and not flag_kept:
                        # the path leaves early under a condition on bookkeeping the pinned tree does not have
                        # (`if not self._makespan: return` in Schedule.reset), or under one that is not visible at
                        # all: whether it implies the attribute is already in its initial state is not decided.
                        # (A condition over pinned queries - `makespan() == 0` - is judged: it is no test of the attribute.)
                        raise AnalysisError(
                            f"{label}: a path of {rst.name} returns early without touching `self.{attr}`"
                            + (f" under a condition on `{new_state[0]}`, bookkeeping the pinned tree does not have" if new_state else " under a condition that is not visible at this level")
                            + "; whether the attribute is already in its initial state there is not decided"
                        )
                    conds = [f"{t} is {v}" for t, v in (ratoms or inner_atoms).items()] or ["(an early exit in an inlined callee)"]
                    last = rp.events[-1] if rp.events else None
                    chk.violation(
                        rule, f"{cls.qualname}.{rst.name}", last.node if last is not None else None,
                        f"{label}: a path of {rst.name} ({'; '.join(conds)[:160]}) returns without touching `self.{attr}`, which "
                        f"{upd.name} modifies and the other paths of {rst.name} re-establish: on that path the state of the "
                        "previous episode survives the reset",
                        loc=last.loc if last is not None else rst.loc(), path=rp.describe(),
                    )
                    return n
    return n


# --------------------------------------------------------------------------
def rebuild_before_features(ctx, lc, cone):
    """R12.g - in a feature observer's ``reset`` the state its features are
    computed from is re-established *before* the features are rebuilt: a
    statement of ``reset`` that comes after the one that triggers
    ``initialize_features`` (``super().reset()`` / ``self.initialize_features()``)
    must not write an attribute ``initialize_features`` reads - otherwise the
    feature matrices right after a reset show the previous episode."""
    from .common import self_attr_reads

    chk, repo = ctx.chk, ctx.repo
    chk.rule("R12.g", "a feature observer's reset re-establishes what initialize_features reads before it rebuilds the features")
    n = 0
    for c in cone:
        rst = c.methods.get("reset")  # the class's own reset
        init_f = repo.method(c, "initialize_features")
        if rst is None or init_f is None or not rst.params:
            continue
        reads = set()
        for f, _via in lc.self_closure(init_f, c):
            reads |= self_attr_reads(f)
        reads -= {"features", "dispatcher", "feature_sizes", "feature_dimensions"}
        me = rst.params[0]

        def triggers(st):
            for x in ast.walk(st):
                if isinstance(x, ast.Call) and isinstance(x.func, ast.Attribute):
                    if x.func.attr == "initialize_features":
                        return True
                    recv = x.func.value
                    is_super = isinstance(recv, ast.Call) and isinstance(recv.func, ast.Name) and recv.func.id == "super"
                    is_self = isinstance(recv, ast.Name) and recv.id == me
                    if is_super or is_self:
                        ts, _nm = ctx.res.callees(rst, x, c)
                        for t in ts:
                            if any(g is init_f or g.name == "initialize_features" for g, _v in lc.self_closure(t, c)):
                                return True
            return False

        body = [st for st in rst.node.body if not (isinstance(st, ast.Expr) and isinstance(st.value, ast.Constant))]
        idx = next((i for i, st in enumerate(body) if triggers(st)), None)
        if idx is None:
            continue
        n += 1
        bad = None
        for st in body[idx + 1:]:
            for x in ast.walk(st):
                if isinstance(x, ast.Attribute) and isinstance(x.value, ast.Name) and x.value.id == me and x.attr in reads and isinstance(x.ctx, (ast.Store, ast.Del)):
                    bad = (x.attr, st)
                if isinstance(x, ast.Call) and isinstance(x.func, ast.Attribute) and isinstance(x.func.value, ast.Name) and x.func.value.id == me:
                    ts, _nm = ctx.res.callees(rst, x, c)
                    for t in ts:
                        if t.name == "initialize_features":
                            continue
                        w = {a.attr for a in lc.attr_writes(t, c)} & reads
                        if w:
                            bad = (sorted(w)[0], st)
            if bad:
                break
        if bad:
            chk.violation(
                "R12.g", rst, bad[1],
                f"`{ast.unparse(bad[1])[:70]}` re-establishes `self.{bad[0]}` only after `{ast.unparse(body[idx])[:40]}` has rebuilt the "
                f"features from it: right after a reset the feature matrices are computed from the previous episode's `{bad[0]}`",
                loc=rst.loc(bad[1]),
            )
        else:
            chk.ok("R12.g", rst.qualname, rst.loc(), "state read by initialize_features is re-established before the features are rebuilt")
    if n == 0:
        raise AnalysisError("R12.g: no observer reset that rebuilds features found")


# --------------------------------------------------------------------------
def stale_aliases(ctx, lc, cone, disp):
    """R12.f - Schedule.reset and Dispatcher.reset *rebind* their containers
    (the list of machine lists, the three tracking vectors).  An observer that
    stores such a container in an attribute at construction keeps the object
    of the first episode: after a reset it reads the old episode's data.  The
    attribute must be re-read in the observer's own reset (or not be kept)."""
    from .roles import backing_attr

    chk, repo = ctx.chk, ctx.repo
    sched = repo.find_class("Schedule")
    # read expressions (suffixes) that denote an object the owner rebinds on reset
    rebound = set()
    s_rst = sched.methods.get("reset")
    if s_rst is not None:
        sb = backing_attr(sched, "schedule") or "schedule"
        if any(w.attr in ("schedule", sb) and w.kind == "rebind" for w in lc.attr_writes(s_rst, sched)):
            rebound.add(".schedule.schedule")
    d_rst = repo.need_method(disp, "reset")
    strong = {w.attr for w in lc.attr_writes(d_rst, disp) if w.kind == "rebind"}
    for prop in ("machine_next_available_time", "job_next_operation_index", "job_next_available_time"):
        if backing_attr(disp, prop) in strong:
            rebound.add("." + prop)
    chk.analysed["owner_rebound_components"] = sorted(rebound)
    n = 0
    for c in cone:
        rst = repo.method(c, "reset")
        reset_strong = {w.attr for w in lc.attr_writes(rst, c) if w.kind == "rebind"} if rst is not None else set()
        attrs = set()
        for q in c.mro:
            k = repo.classes.get(q)
            if k is None:
                continue
            for m in k.methods.values():
                for nd in own_nodes(m.node):
                    tgs = nd.targets if isinstance(nd, ast.Assign) else [nd.target] if isinstance(nd, ast.AnnAssign) and nd.value is not None else []
                    for t in tgs:
                        if isinstance(t, ast.Attribute) and isinstance(t.value, ast.Name) and m.params and t.value.id == m.params[0]:
                            attrs.add(t.attr)
        for attr in sorted(attrs):
            for mf, val in lc.attr_sources(c, attr):
                if val is None:
                    continue
                txt = ctx.norm.xtext(mf, val).replace(" ", "")
                hit = next((r for r in rebound if txt.endswith(r)), None)
                if hit is None:
                    continue
                n += 1
                if attr in reset_strong:
                    chk.ok("R12.f", c.qualname, mf.loc(val), f"self.{attr} = ...{hit} is re-read by reset")
                else:
                    chk.violation(
                        "R12.f", f"{c.qualname}.{mf.name}", val,
                        f"`self.{attr} = {ast.unparse(val)[:60]}` keeps the object behind `{hit[1:]}`, which its owner replaces by a new "
                        f"one on every reset, and {c.name}.reset never re-reads it: from the second episode on the observer "
                        "looks at the containers of the first episode",
                        loc=mf.loc(val),
                    )
    # the observer's own containers: an attribute that keeps one of them - or a
    # bound method of one (`self.update = self.history.append`) - while reset
    # replaces the container by a new object refers to the old one afterwards
    CONTAINER_METHODS = {
        "append", "extend", "insert", "add", "update", "pop", "popleft", "appendleft", "remove", "discard", "clear",
        "get", "setdefault", "__getitem__", "__setitem__", "__contains__", "index", "count", "items", "keys", "values",
    }
    for c in cone:
        rst = repo.method(c, "reset")
        if rst is None:
            continue
        own_rebound = {w.attr for w in lc.attr_writes(rst, c) if w.kind == "rebind"}
        if not own_rebound:
            continue
        seen_attrs = set()
        for q in c.mro:
            k = repo.classes.get(q)
            if k is None:
                continue
            for m in k.methods.values():
                for nd in own_nodes(m.node):
                    tgs = nd.targets if isinstance(nd, ast.Assign) else [nd.target] if isinstance(nd, ast.AnnAssign) and nd.value is not None else []
                    for t in tgs:
                        if isinstance(t, ast.Attribute) and isinstance(t.value, ast.Name) and m.params and t.value.id == m.params[0]:
                            seen_attrs.add(t.attr)
        for attr in sorted(seen_attrs - own_rebound):
            for mf, val in lc.attr_sources(c, attr):
                if val is None or mf.name == "reset":
                    continue
                x = ctx.norm.xexpr(mf, val)
                me = mf.params[0] if mf.params else "self"
                base = x
                via = None
                if isinstance(x, ast.Attribute) and isinstance(x.value, ast.Attribute) and x.attr in CONTAINER_METHODS:
                    base, via = x.value, x.attr
                if not (isinstance(base, ast.Attribute) and isinstance(base.value, ast.Name) and base.value.id == me and base.attr in own_rebound):
                    continue
                n += 1
                what = f"the bound method `{via}` of `self.{base.attr}`" if via else f"the object behind `self.{base.attr}`"
                chk.violation(
                    "R12.f", f"{c.qualname}.{mf.name}", val,
                    f"`self.{attr} = {ast.unparse(val)[:60]}` keeps {what}, which {c.name}.reset replaces by a new object "
                    f"without renewing `self.{attr}`: after a reset `self.{attr}` still works on the container of the previous episode",
                    loc=mf.loc(val),
                )
    # memoised properties anywhere in the package (functools caches): a value
    # computed once that holds a container some reset replaces goes stale the
    # same way (the Dispatcher's own memo is emptied on every state change and
    # is judged by C05)
    observer_rebound = set()
    for c in cone:
        rst = repo.method(c, "reset")
        if rst is not None:
            for w in lc.attr_writes(rst, c):
                if w.kind == "rebind" and not w.attr.startswith("_"):
                    observer_rebound.add("." + w.attr)
    FUNCTOOLS_CACHES = {"cached_property", "functools.cached_property", "functools.cache", "cache", "functools.lru_cache", "lru_cache"}
    for fi in repo.all_functions():
        if isinstance(fi.node, ast.Lambda) or not (set(fi.decorators) & FUNCTOOLS_CACHES):
            continue
        for x in own_nodes(fi.node):
            if not (isinstance(x, ast.Attribute) and isinstance(x.ctx, ast.Load)):
                continue
            txt = ctx.norm.xtext(fi, x).replace(" ", "")
            hit = next((r for r in sorted(rebound | observer_rebound) if txt.endswith(r) and txt != "self" + r), None)
            if hit is None:
                continue
            # the attribute must belong to an object that has such a reset
            owners = [c for c in cone if "." + x.attr in observer_rebound and ctx.types.is_a(fi.module, x.value, c.qualname)]
            if hit in observer_rebound and not owners:
                continue
            n += 1
            chk.violation(
                "R12.f", fi, x,
                f"the memoised `{fi.name}` stores `{ast.unparse(x)[:60]}`, an object its owner replaces by a new one on reset: "
                "computed once, the value keeps the container of the episode in which it was first used",
                loc=fi.loc(x),
            )
            break
    if n == 0:
        chk.ok("R12.f", "observers", "", f"no observer attribute aliases an owner-rebound component ({', '.join(sorted(rebound)) or 'none'})")
