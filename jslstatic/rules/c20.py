"""C20 - Gantt charts and animations show the schedule that was built.

R20.a  writer/reader order agreement: frames are written with a name that
       embeds the frame number and read back in an order that is the numeric
       order for *any* number of frames (a numeric sort key, or a reader that
       does not depend on name order).  A fixed pad width w with a keyless
       lexicographic ``sorted(os.listdir())`` is order-correct only below
       10**w frames.
R20.b  one bar per scheduled operation: the plotting loop visits every
       machine list and every scheduled operation once, draws one
       ``broken_barh`` with the single range (start, end - start) in the row
       derived from the machine index, and colours bar and legend patch of a
       job from the same colour value.
R20.c  frame loop: for the k-th record of the history - dispatch it (operation
       and machine of that record), plot the dispatcher's schedule, save with
       index k (from 1), in history order.
R20.d  no stale figures: ``GanttChartCreator.plot_gantt_chart`` plots the
       dispatcher's current schedule on every call.
R20.e  time axis: ends at the requested limit if given, else at the
       schedule's makespan; the last tick is that value.
R20.f  no function of these modules modifies the object of a mutable default
       argument (directly, through a local alias, or with ``+=``): the result
       of a call must not depend on earlier calls.
R20.g  no for-loop variable of these modules is read after its loop (a statement
       left one indentation level too shallow sees only the last element).
"""

from __future__ import annotations

import ast

from ..repo import AnalysisError, dotted, own_nodes
from .common import reorder_ops, source_pos

MANIFEST = {
    "text": (
        "Decides the structural clauses of C20: the frame writer/reader pair "
        "agrees on order and on file names (every name filter of the reader accepts every name the writer produces) for any number of frames (unbounded n, in particular "
        "n >= 100); the Gantt plot draws exactly one single-range bar per "
        "scheduled operation of every machine list, in the row of its machine "
        "index, with the job's colour shared by bar and legend; each frame k is "
        "produced by dispatching the k-th record (its operation on its machine) "
        "and plotting the dispatcher's schedule, saved under index k; the "
        "creator never returns a cached figure; the axis ends at the makespan "
        "or requested limit. Not decided: pixel/tick values."
        " Also decided: no function of these modules accumulates into a mutable default argument."
        " Also decided: no for-loop variable of these modules is read after its loop (statement left one indentation level too shallow)."
    ),
    "note": "matplotlib / imageio semantics are trusted.",
    "technique": "writer/reader format agreement (pad width vs sort key) + loop-shape and def-use matching + return-path must-call",
    "ref": "DESIGN.md §3 C20",
}
UNDECIDED = ["rendered geometry and tick values (matplotlib output)"]
ASSUMPTIONS = ["os.listdir order is arbitrary; sorted() without key is lexicographic on file names"]


def _format_as_fstring(fi, call):
    """``TEMPLATE.format(number=n)`` / ``"frame_{:02d}.png".format(n)`` with a
    constant template -> the equivalent f-string node, or None."""
    import string

    if not (isinstance(call, ast.Call) and isinstance(call.func, ast.Attribute) and call.func.attr == "format"):
        return None
    tmpl = _const_str(fi, call.func.value)
    if tmpl is None:
        return None
    kw = {k.arg: k.value for k in call.keywords if k.arg}
    values, auto = [], 0
    try:
        pieces = list(string.Formatter().parse(tmpl))
    except ValueError:
        return None
    for lit, field, spec, conv in pieces:
        if lit:
            values.append(ast.Constant(value=lit))
        if field is None:
            continue
        if conv or (spec and "{" in spec):
            return None
        if field == "":
            if auto >= len(call.args):
                return None
            v, auto = call.args[auto], auto + 1
        elif field.isdigit():
            if int(field) >= len(call.args):
                return None
            v = call.args[int(field)]
        elif field in kw:
            v = kw[field]
        else:
            return None
        values.append(ast.FormattedValue(value=v, conversion=-1, format_spec=ast.JoinedStr(values=[ast.Constant(value=spec)]) if spec else None))
    js = ast.JoinedStr(values=values)
    return ast.copy_location(js, call)


def _writer_fstrings(ctx, save):
    """The f-strings that make up the file name handed to savefig (a private
    one-expression path helper is expanded; ``str.format`` on a constant
    template counts as the f-string it abbreviates)."""
    out = []
    for n in own_nodes(save.node):
        if isinstance(n, ast.Call) and isinstance(n.func, ast.Attribute) and n.func.attr == "savefig" and n.args:
            x = ctx.norm.xexpr(save, n.args[0])
            out += [j for j in ast.walk(x) if isinstance(j, ast.JoinedStr)]
            for c in ast.walk(x):
                j = _format_as_fstring(save, c)
                if j is not None:
                    out.append(j)
            # the name may be built in a local first:  name = T.format(...); savefig(join(dir, name))
            for y in ast.walk(x):
                if isinstance(y, ast.Name):
                    for k_, v_, _s in ctx.flow.defs(save).of(y.id):
                        if k_ == "value" and v_ is not None:
                            out += [j for j in ast.walk(v_) if isinstance(j, ast.JoinedStr)]
                            j = _format_as_fstring(save, v_)
                            if j is not None:
                                out.append(j)
    if not out:
        out = [j for j in own_nodes(save.node) if isinstance(j, ast.JoinedStr)]
    return out


def _writer_names(save, fstrings=None):
    """File names `_save_frame` produces for a range of frame numbers,
    computed from the constant pieces and the format spec of its f-string."""
    for n in (fstrings if fstrings is not None else own_nodes(save.node)):
        if not isinstance(n, ast.JoinedStr):
            continue
        for i, v in enumerate(n.values):
            if isinstance(v, ast.FormattedValue) and isinstance(v.value, ast.Name) and v.value.id == save.params[2]:
                spec = ""
                if v.format_spec is not None:
                    if not all(isinstance(x, ast.Constant) for x in v.format_spec.values):
                        return None
                    spec = "".join(x.value for x in v.format_spec.values)
                pre = n.values[i - 1].value if i > 0 and isinstance(n.values[i - 1], ast.Constant) else ""
                suf = n.values[i + 1].value if i + 1 < len(n.values) and isinstance(n.values[i + 1], ast.Constant) else ""
                pre = str(pre).rsplit("/", 1)[-1]
                try:
                    return [pre + format(k, spec) + str(suf) for k in (1, 2, 9, 10, 42, 99, 100, 101, 999, 1000, 12345, 1234567)]
                except ValueError:
                    return None
    return None


_REPO: list = [None]  # set by run(): module look-up for names of inlined code


def _const_str(fi, e):
    """A constant string, directly or through a module-level name."""
    if isinstance(e, ast.Constant) and isinstance(e.value, str):
        return e.value
    if isinstance(e, ast.Name):
        # code inlined from another module resolves its globals there
        home = _REPO[0].modules.get(getattr(e, "_origin_mod", None) or "") if _REPO[0] is not None else None
        for st in (home or fi.module).tree.body:
            if isinstance(st, ast.Assign) and any(isinstance(t, ast.Name) and t.id == e.id for t in st.targets):
                return _const_str(fi, st.value)
            if isinstance(st, ast.AnnAssign) and isinstance(st.target, ast.Name) and st.target.id == e.id and st.value is not None:
                return _const_str(fi, st.value)
    if isinstance(e, ast.Call) and (dotted(e.func) or "") in ("re.compile",) and e.args:
        return _const_str(fi, e.args[0])
    if isinstance(e, ast.BinOp) and isinstance(e.op, ast.Add):
        # <variable prefix> + "constant rest": the writer's names are compared
        # without the same variable prefix (see _writer_names), so the
        # parameter part counts as empty
        def part(x):
            if isinstance(x, ast.Call) and (dotted(x.func) or "") == "re.escape" and x.args and isinstance(x.args[0], ast.Name) and x.args[0].id in fi.params:
                return ""
            if isinstance(x, ast.Name) and x.id in fi.params:
                return ""
            return _const_str(fi, x)

        l, r = part(e.left), part(e.right)
        if l is not None and r is not None:
            return l + r
    if isinstance(e, ast.Name) and not isinstance(fi.node, ast.Lambda):
        # a local bound once to such an expression
        ds = [n for n in own_nodes(fi.node) if isinstance(n, ast.Assign) and any(isinstance(t, ast.Name) and t.id == e.id for t in n.targets)]
        if len(ds) == 1 and ds[0].value is not e:
            return _const_str(fi, ds[0].value)
    if isinstance(e, ast.Call) and (dotted(e.func) or "") in ("os.path.join",) and e.args:
        return _const_str(fi, e.args[-1])
    return None


def _name_filters(ctx, save, load):
    """R20.a (names): every filter the reader applies to the directory
    listing accepts every name the writer can produce."""
    import fnmatch
    import re as _re

    chk = ctx.chk
    names = _writer_names(save, _writer_fstrings(ctx, save))
    if names is None:
        raise AnalysisError("_save_frame: file-name template not recognised")
    scope = [load]
    # helpers of the reader in the same module (sort key, predicates)
    for n in own_nodes(load.node):
        if isinstance(n, ast.Name) and n.id in load.module.functions and load.module.functions[n.id] is not load:
            scope.append(load.module.functions[n.id])
    n_filters = 0
    for fi in scope:
        for n in own_nodes(fi.node):
            if not isinstance(n, ast.Call):
                continue
            d = dotted(n.func) or ""
            pat = kind = None
            if d in ("fnmatch.filter", "fnmatch.fnmatch", "fnmatch.fnmatchcase") and len(n.args) == 2:
                pat, kind = _const_str(fi, n.args[1]), "fnmatch"
            elif d in ("glob.glob", "glob.iglob") and n.args:
                pat, kind = _const_str(fi, n.args[0]), "fnmatch"
                if pat is None and isinstance(n.args[0], ast.JoinedStr) and isinstance(n.args[0].values[-1], ast.Constant):
                    pat = str(n.args[0].values[-1].value)
                if pat is not None:
                    pat = pat.rsplit("/", 1)[-1]
            elif isinstance(n.func, ast.Attribute) and n.func.attr in ("glob", "rglob") and n.args and d not in ("glob.glob",):
                pat, kind = _const_str(fi, n.args[0]), "fnmatch"
            elif d in ("re.match", "re.fullmatch", "re.search") and n.args:
                pat, kind = _const_str(fi, n.args[0]), d.split(".")[1]
            elif isinstance(n.func, ast.Attribute) and n.func.attr in ("match", "fullmatch", "search") and isinstance(n.func.value, ast.Name):
                pat, kind = _const_str(fi, n.func.value), n.func.attr
                if pat is None:
                    continue
            elif isinstance(n.func, ast.Attribute) and n.func.attr in ("startswith", "endswith") and n.args:
                pat, kind = _const_str(fi, n.args[0]), n.func.attr
                if pat is None and isinstance(n.args[0], ast.Tuple):
                    continue
            else:
                continue
            if pat is None:
                raise AnalysisError(f"{fi.loc(n)}: frame-name filter with a non-constant pattern")
            n_filters += 1
            rejected = []
            for nm in names:
                if kind == "fnmatch":
                    ok = fnmatch.fnmatchcase(nm, pat)
                elif kind in ("match", "fullmatch", "search"):
                    try:
                        ok = getattr(_re, kind)(pat, nm) is not None
                    except _re.error as exc:
                        raise AnalysisError(f"{fi.loc(n)}: bad pattern {pat!r}: {exc}")
                elif kind == "startswith":
                    ok = nm.startswith(pat)
                else:
                    ok = nm.endswith(pat)
                if not ok:
                    rejected.append(nm)
            if rejected:
                chk.violation(
                    "R20.a", fi, n,
                    f"the reader keeps only names matching {pat!r} ({kind}), but _save_frame also writes "
                    f"{', '.join(rejected[:3])}: those frames are silently dropped from the animation",
                    loc=fi.loc(n),
                )
            else:
                chk.ok("R20.a", fi.qualname, fi.loc(n), f"name filter {pat!r} accepts every name the writer produces ({len(names)} widths probed)")
    if n_filters == 0:
        chk.ok("R20.a", load.qualname, load.loc(), "the reader applies no name filter to the frame directory")


def _by_role(ctx, module_suffix, pred, what, prefer=None):
    """The module-level function of the visualisation module that plays a
    role (recognised by what it calls), independent of its private name."""
    cands = []
    for fi in ctx.repo.all_functions():
        # module-level functions, and methods of private helper classes, of
        # the visualisation package (modules are renamed, split and merged;
        # the role is what identifies the function)
        own_cls = fi.cls is not None and not (fi.cls.name.startswith("_") and not fi.cls.bases)
        if isinstance(fi.node, ast.Lambda) or own_cls or not fi.module.name.startswith("job_shop_lib.visualization"):
            continue
        if any(pred(n) for n in own_nodes(fi.node)):
            cands.append(fi)
    # the anchored module is a tie-breaker only
    if len(cands) > 1 and not (prefer and any(f.name == prefer for f in cands)):
        there = [f for f in cands if f.module.name.endswith(module_suffix)]
        if there:
            cands = there
    if prefer:
        named = [f for f in cands if f.name == prefer]
        if named:
            return named[0]
    if len(cands) == 1:
        return cands[0]
    if not cands:
        raise AnalysisError(f"no function {what} found in *{module_suffix}")
    raise AnalysisError(f"{len(cands)} functions {what} in *{module_suffix}: {[f.name for f in cands]}")


def _calls_attr(*attrs):
    return lambda n: isinstance(n, ast.Call) and isinstance(n.func, ast.Attribute) and n.func.attr in attrs


def _num_const(fi, e):
    """Numeric value of a literal or of a module-level constant name."""
    if isinstance(e, ast.Constant) and isinstance(e.value, (int, float)) and not isinstance(e.value, bool):
        return e.value
    if isinstance(e, ast.Name):
        # code inlined from another module resolves its globals there
        home = _REPO[0].modules.get(getattr(e, "_origin_mod", None) or "") if _REPO[0] is not None else None
        v = getattr(home or fi.module, "assigns", {}).get(e.id)
        if v is not None:
            return _num_const(fi, v)
    return None


def _affine_in(fi, expr, var):
    """expr contains  <non-zero numeric constant> * var  (or var * constant):
    the value moves by a fixed step per unit of ``var`` - one row per machine."""
    for n in ast.walk(expr):
        if isinstance(n, ast.BinOp) and isinstance(n.op, ast.Mult):
            for a, b in ((n.left, n.right), (n.right, n.left)):
                if isinstance(a, ast.Name) and a.id == var:
                    k = _num_const(fi, b)
                    if k is not None and k != 0:
                        return True
    return False


def _count_with_step(fi, it):
    """zip(schedule.schedule, count(<start>, <non-zero constant step>))"""
    if not (isinstance(it, ast.Call) and isinstance(it.func, ast.Name) and it.func.id == "zip" and len(it.args) == 2):
        return False
    c = it.args[1]
    if not (isinstance(c, ast.Call) and ast.unparse(c.func).split(".")[-1] == "count" and len(c.args) == 2):
        return False
    k = _num_const(fi, c.args[1])
    return k is not None and k != 0


def _legend_from_same_table(ctx, pms_raw, sv) -> bool:
    """The legend is built after the bars, outside the plotting loop: in the
    flattened public plot function the bar's colour and the patch's colour
    are the same expression of the job id (`colors[<op>.job_id]` there,
    `colors[<j>]` for j over the plotted job ids here)."""
    import re

    tops = [f for f in ctx.repo.all_functions() if f.module is pms_raw.module and f.cls is None and not f.name.startswith("_") and not isinstance(f.node, ast.Lambda)]
    for top in tops:
        F = ctx.norm.flat(top, depth=4)
        bars = [n for n in own_nodes(F.node) if isinstance(n, ast.Call) and isinstance(n.func, ast.Attribute) and n.func.attr == "broken_barh"]
        pats = [n for n in own_nodes(F.node) if isinstance(n, ast.Call) and ast.unparse(n.func).split(".")[-1] == "Patch"]
        if len(bars) != 1 or len(pats) != 1:
            continue
        bc = next((k.value for k in bars[0].keywords if k.arg in ("facecolors", "facecolor", "color")), None)
        pc = next((k.value for k in pats[0].keywords if k.arg in ("facecolor", "color")), None)
        if bc is None or pc is None:
            continue
        # the variable the patch is built for: the target of the enclosing for / comprehension
        par = F.module.parents
        cur, var = par.get(pats[0]), None
        while cur is not None and cur is not F.node:
            if isinstance(cur, (ast.ListComp, ast.GeneratorExp)) and len(cur.generators) == 1 and isinstance(cur.generators[0].target, ast.Name):
                var = cur.generators[0].target.id
                break
            if isinstance(cur, ast.For) and isinstance(cur.target, ast.Name):
                var = cur.target.id
                break
            cur = par.get(cur)
        if var is None:
            continue
        # local aliases and one-expression accessors (`color = palette.colors[j]`, `palette.color(j)`) spelt out
        bc, pc = ctx.norm.xexpr(F, bc), ctx.norm.xexpr(F, pc)
        bt = re.sub(r"(?<![A-Za-z0-9_.])[A-Za-z_][A-Za-z0-9_]*\.job_id(?![A-Za-z0-9_])", "$J", ast.unparse(bc))
        pt = re.sub(r"(?<![A-Za-z0-9_.])" + re.escape(var) + r"(?![A-Za-z0-9_])", "$J", ast.unparse(pc))
        if "$J" in bt and bt == pt:
            return True
        # two tables built by the same helper from the same arguments (the helper inlined twice:
        # `colors` and `colors__i7`): equal when every definition of the one reads like the other's
        strip = lambda t: re.sub(r"__[a-z]\d+(?![A-Za-z0-9_])", "", t)  # noqa: E731
        if "$J" in bt and strip(bt) == strip(pt) and isinstance(bc, ast.Subscript) and isinstance(pc, ast.Subscript) \
                and isinstance(bc.value, ast.Name) and isinstance(pc.value, ast.Name):
            def defs_of(name):
                out = []
                for st in own_nodes(F.node):
                    if isinstance(st, ast.Assign) and len(st.targets) == 1 and isinstance(st.targets[0], ast.Name) and st.targets[0].id == name:
                        out.append(strip(ctx.norm.xtext(F, st.value)))
                return sorted(out)

            da, db = defs_of(bc.value.id), defs_of(pc.value.id)
            if da and da == db:
                return True
    return False


def _bar_in_flat(ctx, pms_raw):
    """The bar call judged on the fully flattened plotting loop (per-operation
    helper and geometry helpers inlined): {'row': bool, 'span': bool} or None.
    Used when the work is split differently between the loop function and the
    per-operation helper than the call-site rules expect."""
    F = ctx.norm.flat(pms_raw, depth=4)
    bars = [n for n in own_nodes(F.node) if isinstance(n, ast.Call) and isinstance(n.func, ast.Attribute) and n.func.attr == "broken_barh"]
    if len(bars) != 1:
        return None
    b = bars[0]
    loops = []
    cur = F.module.parents.get(b)
    while cur is not None and cur is not F.node:
        if isinstance(cur, ast.For):
            loops.append(cur)
        cur = F.module.parents.get(cur)
    if len(loops) != 2:
        return None
    inner, outer = loops
    mi = yvar = None
    it = ctx.norm.xexpr(F, outer.iter)
    if isinstance(outer.target, ast.Tuple) and len(outer.target.elts) == 2 and all(isinstance(e, ast.Name) for e in outer.target.elts):
        if isinstance(it, ast.Call) and isinstance(it.func, ast.Name) and it.func.id == "enumerate":
            mi = outer.target.elts[0].id
        elif _count_with_step(F, it):
            yvar = outer.target.elts[1].id
    if not isinstance(inner.target, ast.Name):
        return None
    sv = inner.target.id
    out = {"row": False, "span": False}
    yarg = ctx.norm.xexpr(F, b.args[1]) if len(b.args) > 1 else None
    if isinstance(yarg, ast.Tuple) and yarg.elts:
        y0 = yarg.elts[0]
        out["row"] = (yvar is not None and ast.unparse(y0) == yvar) or (mi is not None and _affine_in(F, y0, mi))
    xr = ctx.norm.xexpr(F, b.args[0]) if b.args else None
    if isinstance(xr, ast.List) and len(xr.elts) == 1 and isinstance(xr.elts[0], ast.Tuple) and len(xr.elts[0].elts) == 2:
        s0, d0 = (ast.unparse(e).replace(" ", "") for e in xr.elts[0].elts)
        out["span"] = s0 == f"{sv}.start_time" and d0 in (f"{sv}.end_time-{sv}.start_time", f"{sv}.operation.duration")
    return out


def _legend_labels(ctx):
    """R20.b (labels): the label of a legend entry is looked up with the job
    id whose colour the entry carries, never with a position in some
    enumeration (the jobs present in a partial schedule are not 0..k-1)."""
    chk, repo = ctx.chk, ctx.repo
    try:
        gl = repo.find_function("_get_job_label")
    except AnalysisError:
        return
    n_calls = 0
    for fi in repo.all_functions():
        if fi.module is not gl.module or isinstance(fi.node, ast.Lambda):
            continue
        for n in own_nodes(fi.node):
            if not (isinstance(n, ast.Call) and isinstance(n.func, ast.Name) and n.func.id == gl.name):
                continue
            arg = n.args[1] if len(n.args) > 1 else next((k.value for k in n.keywords if k.arg == gl.params[1]), None)
            if arg is None:
                continue
            n_calls += 1
            txt = ctx.norm.xtext(fi, arg)
            if "job_id" in txt:
                chk.ok("R20.b", fi.qualname, fi.loc(n), f"label looked up with `{txt}`")
                continue
            verdict = None
            if isinstance(arg, ast.Name):
                for loop in own_nodes(fi.node):
                    if not isinstance(loop, (ast.For, ast.comprehension)):
                        continue
                    it, tg = loop.iter, loop.target
                    is_enum = isinstance(it, ast.Call) and isinstance(it.func, ast.Name) and it.func.id == "enumerate"
                    is_range = isinstance(it, ast.Call) and isinstance(it.func, ast.Name) and it.func.id == "range"
                    if is_enum and isinstance(tg, ast.Tuple) and isinstance(tg.elts[0], ast.Name) and tg.elts[0].id == arg.id:
                        verdict = f"the position in `{ast.unparse(it)[:50]}`"
                    elif is_range and isinstance(tg, ast.Name) and tg.id == arg.id:
                        verdict = f"a counter over `{ast.unparse(it)[:50]}`"
            if verdict:
                chk.violation(
                    "R20.b", fi, n,
                    f"the legend label is looked up with `{arg.id}`, {verdict}, not with the job id of the entry: when "
                    "the jobs shown are not exactly 0..k-1 (a partial schedule), entries are labelled with another "
                    "job's name while keeping their own colour",
                    loc=fi.loc(n),
                )
            else:
                chk.ok("R20.b", fi.qualname, fi.loc(n), f"label looked up with `{txt}` (not a positional index)")
    chk.analysed["legend_label_lookups"] = n_calls


def _record_fields(ctx, fi, call):
    """{field: expression} for `Record(...)` with Record a NamedTuple /
    dataclass-like class of the package (annotated fields, no __init__)."""
    if not isinstance(call, ast.Call):
        return None
    q = ctx.repo.resolve(getattr(call.func, "_origin_mod", None) or fi.module.name, dotted(call.func) or "")
    cls = ctx.repo.classes.get(q or "")
    if cls is None or cls.methods.get("__init__") is not None:
        return None
    fields = [st.target.id for st in cls.node.body if isinstance(st, ast.AnnAssign) and isinstance(st.target, ast.Name)]
    if not fields or any(isinstance(a, ast.Starred) for a in call.args) or any(k.arg is None for k in call.keywords):
        return None
    out = dict(zip(fields, call.args))
    for k in call.keywords:
        if k.arg in fields:
            out[k.arg] = k.value
    return out


def _history_read_live(ctx, gc):
    """R20.d, second clause: create_gif / create_video animate the history the
    observer holds WHEN THEY ARE CALLED.  HistoryObserver.reset rebinds its list,
    so a list captured by the constructor is the first episode's for ever."""
    chk = ctx.chk
    init = gc.methods.get("__init__")
    for mname, callee in (("create_gif", "create_gantt_chart_gif"), ("create_video", "create_gantt_chart_video")):
        m = gc.methods.get(mname)
        if m is None:
            raise AnalysisError(f"GanttChartCreator.{mname} vanished")
        f = ctx.norm.flat(m, depth=2)
        calls = [n for n in own_nodes(f.node) if isinstance(n, ast.Call) and (dotted(n.func) or "").split(".")[-1] == callee]
        if len(calls) != 1:
            raise AnalysisError(f"GanttChartCreator.{mname}: the call of {callee} was not found exactly once")
        c = calls[0]
        arg, captured = None, None
        for k in c.keywords:
            if k.arg == "schedule_history":
                arg = k.value
            elif k.arg is None and isinstance(ctx.norm.xexpr(f, k.value), ast.Dict):
                # **<dict display> (possibly returned by a one-expression helper)
                dsp = ctx.norm.xexpr(f, k.value)
                for kk, vv in zip(dsp.keys, dsp.values):
                    if isinstance(kk, ast.Constant) and kk.value == "schedule_history":
                        arg = vv
            elif k.arg is None and isinstance(k.value, ast.Call) and isinstance(k.value.func, ast.Attribute) and k.value.func.attr == "_asdict" and not k.value.args:
                # **<record>._asdict(): the record built here (a property / local) or stored by the constructor
                rec = ctx.norm.xexpr(f, k.value.func.value)
                flds = _record_fields(ctx, f, rec)
                if flds is None and isinstance(rec, ast.Attribute) and ast.unparse(rec.value) == "self" and init is not None:
                    fin = ctx.norm.flat(init, depth=2)
                    for st in own_nodes(fin.node):
                        if isinstance(st, ast.Assign) and any(isinstance(t, ast.Attribute) and t.attr == rec.attr and ast.unparse(t.value) == "self" for t in st.targets):
                            flds = _record_fields(ctx, fin, st.value)
                            if flds is not None and "schedule_history" in flds:
                                captured = (rec.attr, st)
                if flds is not None and "schedule_history" in flds:
                    arg = flds["schedule_history"]
        if arg is None:
            raise AnalysisError(f"GanttChartCreator.{mname}: the schedule_history argument of {callee} was not found")
        txt = ast.unparse(arg) if captured else ctx.norm.xtext(f, arg)
        if captured is None and isinstance(arg, ast.Attribute) and ast.unparse(arg.value) == "self" and txt == ast.unparse(arg) and init is not None:
            # a plain attribute: where does the constructor get it from?
            fin = ctx.norm.flat(init, depth=2)
            for st in own_nodes(fin.node):
                if isinstance(st, ast.Assign) and any(isinstance(t, ast.Attribute) and t.attr == arg.attr and ast.unparse(t.value) == "self" for t in st.targets):
                    if ctx.norm.xtext(fin, st.value).endswith("history_observer.history") or ctx.norm.xtext(fin, st.value).endswith(".history"):
                        captured = (arg.attr, st)
        if captured is not None:
            chk.violation(
                "R20.d", m, c,
                f"{mname} animates `self.{captured[0]}`, which the constructor filled from the history observer's list once: "
                "HistoryObserver.reset rebinds that list, so after dispatcher.reset() the frames are those of the first episode, "
                "not the first k operations of the recorded history",
                loc=f.loc(c),
            )
        elif txt == "self.history_observer.history":
            chk.ok("R20.d", m.qualname, f.loc(c), "animates the history the observer holds at call time")
        else:
            raise AnalysisError(f"GanttChartCreator.{mname}: schedule_history is `{txt[:60]}`, not the observer's history read at call time; not decided")


def run(ctx):
    chk, repo = ctx.chk, ctx.repo
    _REPO[0] = repo
    from .common import check_loop_variable_leaks

    check_loop_variable_leaks(ctx, "R20.g", ("job_shop_lib.visualization",), "the visualisation")
    from .common import check_mutable_defaults

    check_mutable_defaults(ctx, "R20.f", ("job_shop_lib.visualization",), "the visualisation")
    for rid, txt in (
        ("R20.a", "frame writer/reader order agreement for any number of frames"),
        ("R20.b", "one single-range broken_barh per scheduled operation; row from machine index; same colour for bar and legend"),
        ("R20.c", "frame k = dispatch record k (operation, machine), plot dispatcher.schedule, save with index k from 1"),
        ("R20.d", "GanttChartCreator.plot_gantt_chart plots the current schedule on every call (no cached figure)"),
        ("R20.e", "x axis ends at xlim if given else at the makespan; last tick is that value"),
    ):
        chk.rule(rid, txt)
    GIFMOD, PLOTMOD = "_gantt_chart_video_and_gif_creation", "_plot_gantt_chart"
    save_raw = _by_role(ctx, GIFMOD, _calls_attr("savefig"), "that saves a figure (savefig)", prefer="_save_frame")
    save = ctx.norm.flat(save_raw)  # a private path helper is inlined
    load = _by_role(ctx, GIFMOD, _calls_attr("imread"), "that reads the frame images (imread)", prefer="_load_images")

    # ---------------------------------------------------------------- R20.a
    fmt = None
    for n in _writer_fstrings(ctx, save):
        if isinstance(n, ast.JoinedStr):
            for v in n.values:
                if isinstance(v, ast.FormattedValue) and isinstance(v.value, ast.Name) and v.value.id == save.params[2]:
                    spec = ast.unparse(v.format_spec)[2:-1] if v.format_spec is not None else ""
                    fmt = spec
    if fmt is None:
        raise AnalysisError("_save_frame: frame number not found in the file name")
    width = None
    if fmt and fmt[0] == "0" and fmt.rstrip("d")[1:].isdigit():
        width = int(fmt.rstrip("d")[1:])
    sorts = [n for n in own_nodes(load.node) if isinstance(n, ast.Call) and isinstance(n.func, ast.Name) and n.func.id == "sorted"]
    listing = [n for n in own_nodes(load.node) if isinstance(n, ast.Call) and (dotted(n.func) or "") in ("os.listdir", "os.scandir", "glob.glob")]
    inplace = [
        n for n in own_nodes(load.node)
        if isinstance(n, ast.Call) and isinstance(n.func, ast.Attribute) and n.func.attr == "sort" and isinstance(n.func.value, ast.Name)
    ]
    if listing and not sorts and inplace:
        sorts = inplace
    if not listing:
        # reader enumerates frame numbers itself - order is explicit
        chk.ok("R20.a", load.qualname, load.loc(), "reader does not depend on directory listing order")
    elif not sorts:
        chk.violation("R20.a", load, listing[0], "frames are loaded in os.listdir() order, which is arbitrary", loc=load.loc(listing[0]))
    else:
        s = sorts[0]
        key = next((k.value for k in s.keywords if k.arg == "key"), None)

        def numbered_tuples(e, depth=0):
            """what is sorted are (frame number, name) tuples: a keyless sort is numeric"""
            if depth > 4 or e is None:
                return False
            if isinstance(e, ast.Name):
                return any(k_ == "value" and numbered_tuples(v_, depth + 1) for k_, v_, _s in ctx.flow.defs(load).of(e.id))
            if isinstance(e, (ast.GeneratorExp, ast.ListComp)):
                elt = e.elt
                if isinstance(elt, ast.Name) and len(e.generators) == 1 and isinstance(e.generators[0].target, ast.Name) and e.generators[0].target.id == elt.id:
                    return numbered_tuples(e.generators[0].iter, depth + 1)
                if isinstance(elt, ast.Tuple) and elt.elts:
                    first = elt.elts[0]
                    if isinstance(first, ast.Call) and isinstance(first.func, ast.Name):
                        if first.func.id in ("int", "float"):
                            return True
                        h = load.module.functions.get(first.func.id)
                        if h is not None:
                            return any(isinstance(n, ast.Call) and isinstance(n.func, ast.Name) and n.func.id == "int" for n in own_nodes(h.node))
                return False
            if isinstance(e, ast.Call) and isinstance(e.func, ast.Name) and e.func.id in ("list", "tuple", "iter") and e.args:
                return numbered_tuples(e.args[0], depth + 1)
            return False

        if key is None and isinstance(s.func, ast.Name) and s.args and numbered_tuples(s.args[0]):
            chk.ok("R20.a", load.qualname, load.loc(s), "frames sorted as (numeric index, name) tuples")
        elif key is None:
            bound = f"10**{width}" if width else "10"
            chk.violation(
                "R20.a", load, s,
                f"frames are written as `frame_{{n:{fmt}}}` and read back with a keyless lexicographic sorted(): "
                f"the order is numeric only below {bound} frames (frame_{10 ** (width or 1)} sorts before "
                f"frame_{(10 ** (width or 1)) // 10 + 1}), and the number of frames is unbounded",
                loc=load.loc(s),
            )
        else:
            kt = ast.unparse(key)
            numeric = "int(" in kt or "float(" in kt
            if not numeric:
                # any spelling of a one-argument key function (lambda, def, method
                # of a private helper class, attrgetter ...) normalised to a lambda
                from .common import key_lambda

                lam = key_lambda(load, key, cls=load.cls, repo=repo)
                if lam is not None:
                    bt = ast.unparse(lam.body)
                    numeric = "int(" in bt or "float(" in bt
            if not numeric:
                # key through a helper function?
                if isinstance(key, ast.Name):
                    try:
                        h = repo.find_function(key.id)
                        numeric = any(isinstance(n, ast.Call) and isinstance(n.func, ast.Name) and n.func.id == "int" for n in own_nodes(h.node))
                    except AnalysisError:
                        numeric = False
            if numeric:
                chk.ok("R20.a", load.qualname, load.loc(s), "frames sorted by their numeric index")
            else:
                chk.violation("R20.a", load, s, f"frames are sorted by `{kt}`, which is not their numeric index", loc=load.loc(s))

    ctx.attempt(_name_filters, ctx, save, load)
    ctx.attempt(_legend_labels, ctx)

    # ---------------------------------------------------------------- R20.b
    try:
        pso = _by_role(ctx, PLOTMOD, _calls_attr("broken_barh"), "that draws a bar (broken_barh)", prefer="_plot_scheduled_operation")
    except AnalysisError:
        pso = None
    # every bar call draws the single range of one operation
    batched = False
    for f in repo.all_functions():
        if isinstance(f.node, ast.Lambda) or not f.module.name.startswith("job_shop_lib.visualization"):
            continue
        for n in own_nodes(f.node):
            if isinstance(n, ast.Call) and ast.unparse(n.func).endswith("broken_barh"):
                xr = n.args[0] if n.args else None
                if not (isinstance(xr, ast.List) and len(xr.elts) == 1):
                    batched = True
                    chk.violation(
                        "R20.b", f, n,
                        f"broken_barh is called with `{ast.unparse(xr) if xr is not None else '?'}`, a collection of ranges "
                        "built elsewhere, instead of the single range of one scheduled operation: bars are batched or "
                        "merged, so the chart no longer has exactly one bar per operation",
                        loc=f.loc(n),
                    )
    if batched:
        pso = None
    if pso is not None and sum(1 for n in own_nodes(pso.node) if isinstance(n, ast.For)) >= 2:
        # the bar is drawn inside the machine/operation loops themselves
        # (per-operation helper inlined): handled by the helper-less branch
        inlined_into, pso = pso, None
    else:
        inlined_into = None
    if pso is not None:
        _pso_name = pso.name
        pms = _by_role(
            ctx, PLOTMOD,
            lambda n: isinstance(n, ast.Call) and isinstance(n.func, ast.Name) and n.func.id == _pso_name,
            "that calls the bar-drawing helper", prefer="_plot_machine_schedules",
        )
    elif inlined_into is not None:
        pms = inlined_into
    else:
        pms = _by_role(
            ctx, PLOTMOD, lambda n: isinstance(n, ast.Call) and ast.unparse(n.func) == "Patch",
            "that builds the legend patches", prefer="_plot_machine_schedules",
        )
    PSO = pso.name if pso is not None else "_plot_scheduled_operation"
    # other private helpers of the loop function (legend bookkeeping etc.) are
    # inlined; the bar-drawing helper stays a call because R20.b judges its call site
    pms_raw = pms
    if pso is not None:
        pms = ctx.norm.flat(pms, keep=(pso.qualname,))
    if pso is None:
        # the per-operation helper is gone: judge the bar calls wherever they are
        mod = pms.module
        bars = [
            (f, n) for f in repo.all_functions() if f.module is mod
            for n in own_nodes(f.node) if isinstance(n, ast.Call) and ast.unparse(n.func).endswith("broken_barh")
        ]
        if not bars:
            chk.violation("R20.b", pms, None, "no broken_barh call left: nothing is drawn for the scheduled operations")
        for f, n in bars:
            xr = n.args[0] if n.args else None
            single = isinstance(xr, ast.List) and len(xr.elts) == 1
            if not single:
                chk.violation(
                    "R20.b", f, n,
                    f"broken_barh is called with `{ast.unparse(xr) if xr is not None else '?'}`, a collection of ranges "
                    "built elsewhere, instead of the single range of one scheduled operation: bars are batched or "
                    "merged, so the chart no longer has exactly one bar per operation",
                    loc=f.loc(n),
                )
        if bars and not any(i["rule"] == "R20.b" and i["verdict"] != "holds" for i in chk.instances):
            raise AnalysisError("_plot_scheduled_operation vanished and the new bar-drawing shape is not recognised")
        pso = None
    fors = sorted([n for n in own_nodes(pms.node) if isinstance(n, ast.For)], key=source_pos(pms.node))
    ok = True
    if pso is None:
        fors = []
        ok = False
    mi = ms = yvar = None
    if pso is not None:
        if len(fors) != 2 or not isinstance(fors[0].target, ast.Tuple) or len(fors[0].target.elts) != 2:
            raise AnalysisError("_plot_machine_schedules: machine loop not recognised")
        it0 = ctx.norm.xtext(pms, fors[0].iter).replace(" ", "")
        # the schedule may be a field of a private chart object
        it0 = it0.replace("(self.schedule.", "(schedule.")
        t0, t1 = (e.id if isinstance(e, ast.Name) else None for e in fors[0].target.elts)
        if it0 == "enumerate(schedule.schedule)":
            mi, ms = t0, t1
        elif it0.startswith("zip(schedule.schedule,") and _count_with_step(pms, ctx.norm.xexpr(pms, fors[0].iter)):
            ms, yvar = t0, t1
        else:
            raise AnalysisError(f"_plot_machine_schedules: machine loop over `{it0[:60]}` not recognised")
    if pso is None:
        pass
    elif ast.unparse(fors[1].iter) != ms or not isinstance(fors[1].target, ast.Name):
        ok = False
        chk.violation("R20.b", pms, fors[1], f"bars are drawn over `{ast.unparse(fors[1].iter)}`, not over every scheduled operation of the machine", loc=pms.loc(fors[1]))
    else:
        sv = fors[1].target.id
        calls = [st for st in fors[1].body if isinstance(st, ast.Expr) and isinstance(st.value, ast.Call) and ast.unparse(st.value.func) == PSO]
        nested = [n for n in ast.walk(fors[1]) if isinstance(n, ast.Call) and ast.unparse(n.func) in (PSO, "ax.broken_barh")]
        early = False
        for st in fors[1].body:
            if calls and st is calls[0]:
                break
            if any(isinstance(x, (ast.Continue, ast.Break, ast.Return)) for x in ast.walk(st)):
                early = True
        if len(calls) != 1 or len(nested) != 1 or early:
            ok = False
            chk.violation(
                "R20.b", pms, fors[1],
                "a bar is not drawn exactly once, unconditionally, for every scheduled operation (bars merged, "
                "skipped or batched): the chart no longer has one bar per operation",
                loc=pms.loc(fors[1]),
            )
        else:
            c = calls[0].value
            args = [ast.unparse(a) for a in c.args]
            if len(args) < 4 or args[1] != sv:
                ok = False
                chk.violation("R20.b", pms, c, "the bar is not drawn for the loop's scheduled operation", loc=pms.loc(c))
            else:
                defs = ctx.flow.defs(pms)
                yt = ctx.norm.xtext(pms, c.args[2]).replace(" ", "")
                row_ok = (yvar is not None and yt == yvar) or (mi is not None and _affine_in(pms, ctx.norm.xexpr(pms, c.args[2]), mi))
                if not row_ok and (_bar_in_flat(ctx, pms_raw) or {}).get("row"):
                    row_ok = True  # the row is computed from the machine index inside the per-operation helper
                if not row_ok:
                    ok = False
                    chk.violation("R20.b", pms, c, f"the bar's row `{yt}` is not derived from the machine index", loc=pms.loc(c))
                ct = ctx.norm.xtext(pms, c.args[3])
                if f"{sv}.job_id" not in ct:
                    ok = False
                    chk.violation("R20.b", pms, c, f"the bar colour `{ct}` does not depend on the operation's job", loc=pms.loc(c))
                # legend patch uses the same colour variable, keyed by job id
                patches = [n for n in ast.walk(fors[1]) if isinstance(n, ast.Call) and ast.unparse(n.func) == "Patch"]
                if not patches and _legend_from_same_table(ctx, pms_raw, sv):
                    patches = None
                if patches is None:
                    pass
                elif not patches or not any(
                    k.arg == "facecolor" and (ast.unparse(k.value) == args[3] or ctx.norm.xtext(pms, k.value) == ct) for k in patches[0].keywords
                ):
                    ok = False
                    chk.violation("R20.b", pms, patches[0] if patches else None, "the legend patch of a job is not coloured with the colour of its bars")
    bb = [n for n in own_nodes(pso.node) if isinstance(n, ast.Call) and ast.unparse(n.func).endswith("broken_barh")] if pso is not None else []
    if pso is None:
        pass
    elif len(bb) != 1:
        ok = False
        chk.violation("R20.b", pso, None, "_plot_scheduled_operation does not draw exactly one broken_barh")
    else:
        b = bb[0]
        # the bar is drawn unconditionally: no early exit before it and no
        # enclosing condition (a zero-duration operation still gets its bar)
        pp = source_pos(pso.node)
        early = [n for n in own_nodes(pso.node) if isinstance(n, (ast.Return, ast.Raise, ast.Continue, ast.Break)) and pp(n) < pp(b)]
        cur, conds = pso.module.parents.get(b), []
        while cur is not None and cur is not pso.node:
            if isinstance(cur, (ast.If, ast.While, ast.For, ast.Try)):
                conds.append(cur)
            cur = pso.module.parents.get(cur)
        if early or conds:
            ok = False
            w = (early or conds)[0]
            chk.violation(
                "R20.b", pso, w,
                f"the bar of a scheduled operation is drawn only conditionally (`{ast.unparse(w)[:60]}` comes first): some scheduled "
                "operations (e.g. those of zero duration) get no bar, so the chart no longer has one bar per operation",
                loc=pso.loc(w),
            )
        xr = b.args[0] if b.args else None
        defs = ctx.flow.defs(pso)

        def ex(e):
            if isinstance(e, ast.Name):
                d = defs.of(e.id)
                if len(d) == 1:
                    return ex(d[0][1])
            return e

        good = False
        if isinstance(xr, ast.List) and len(xr.elts) == 1 and isinstance(xr.elts[0], ast.Tuple) and len(xr.elts[0].elts) == 2:
            s0, d0 = xr.elts[0].elts
            st = ast.unparse(ex(s0))
            dt = ast.unparse(ex(d0)).replace(" ", "")
            sop = pso.params[1]
            # start_time, end_time come from a tuple assignment
            tup = [n for n in own_nodes(pso.node) if isinstance(n, ast.Assign) and isinstance(n.targets[0], ast.Tuple)]
            names = {}
            for t in tup:
                for a, v in zip(t.targets[0].elts, t.value.elts if isinstance(t.value, ast.Tuple) else []):
                    names[ast.unparse(a)] = ast.unparse(v)
            st = names.get(st, st)
            dt2 = dt
            for k, v in names.items():
                dt2 = dt2.replace(k, v)
            if st == f"{sop}.start_time" and dt2 in (f"{sop}.end_time-{sop}.start_time", f"{sop}.operation.duration"):
                good = True
            # the same through local aliases, however they were introduced
            xs, xd = ctx.norm.xtext(pso, s0).replace(" ", ""), ctx.norm.xtext(pso, d0).replace(" ", "")
            if xs == f"{sop}.start_time" and xd in (f"{sop}.end_time-{sop}.start_time", f"{sop}.operation.duration"):
                good = True
        if good:
            fc = next((ast.unparse(k.value) for k in b.keywords if k.arg == "facecolors"), None)
            if fc != pso.params[3]:
                ok = False
                chk.violation("R20.b", pso, b, "the bar is not filled with the colour passed for its job", loc=pso.loc(b))
        elif (_bar_in_flat(ctx, pms_raw) or {}).get("span"):
            pass  # (start, end - start) of the loop's operation, assembled by a geometry helper
        else:
            ok = False
            chk.violation("R20.b", pso, b, "the bar does not span exactly (start_time, end_time - start_time) of its operation as a single range", loc=pso.loc(b))
        yarg = b.args[1] if len(b.args) > 1 else None
        if not (isinstance(yarg, ast.Tuple) and ast.unparse(yarg.elts[0]) == pso.params[2]) and not (_bar_in_flat(ctx, pms_raw) or {}).get("row"):
            ok = False
            chk.violation("R20.b", pso, b, "the bar is not drawn in the row passed for its machine", loc=pso.loc(b))
    if ok:
        chk.ok("R20.b", pms.qualname, pms.loc(), "one single-range bar per scheduled operation, row by machine index, job colour shared with legend")

    # ---------------------------------------------------------------- R20.c
    frames_raw = repo.find_function("create_gantt_chart_frames")
    frames = ctx.norm.flat(frames_raw, depth=3)  # private steps (_save_frame, replay preparation) inlined
    _p = source_pos(frames.node)

    def calls_in(node, attr):
        return [c for c in ast.walk(node) if isinstance(c, ast.Call) and isinstance(c.func, ast.Attribute) and c.func.attr == attr]

    loops = [n for n in own_nodes(frames.node) if isinstance(n, ast.For) and calls_in(n, "dispatch") and calls_in(n, "savefig")]
    # innermost such loop
    loops = [lp for lp in loops if not any(o is not lp and o in list(ast.walk(lp)) for o in loops)]
    if len(loops) != 1:
        raise AnalysisError("create_gantt_chart_frames: frame loop (dispatch + savefig) not recognised")
    lp = loops[0]
    okc = True
    # every non-raising path reaches the frame loop: an early `return` before
    # it (frames "already there", a cache of rendered directories ...) lets
    # whatever files are on disk stand for this history's frames
    early = []
    blk, anc = None, lp
    while anc is not frames.node:
        par = frames.module.parents.get(anc)
        if par is None:
            break
        for fld in ("body", "orelse", "finalbody"):
            b_ = getattr(par, fld, None)
            if isinstance(b_, list) and any(x is anc for x in b_):
                for st_ in b_[: [i for i, x in enumerate(b_) if x is anc][0]]:
                    for x in ast.walk(st_):
                        if isinstance(x, ast.Return) and not isinstance(st_, (ast.FunctionDef, ast.ClassDef)):
                            early.append((st_, x))
        if isinstance(par, ast.If) and any(x is anc for x in par.orelse) and any(isinstance(x, ast.Return) for y in par.body for x in ast.walk(y)):
            # guard clauses are turned into if/else by the normaliser: `if c: return` + rest
            early.append((par, next(x for y in par.body for x in ast.walk(y) if isinstance(x, ast.Return))))
        anc = par
    for st_, ret_ in early:
        test_txt = ast.unparse(st_.test) if isinstance(st_, ast.If) else ""
        hist_names = {p_ for p_ in frames_raw.params if "history" in p_}
        if isinstance(st_, ast.If) and any(h in test_txt for h in hist_names) and ("not " in test_txt or "len(" in test_txt and "== 0" in test_txt) and "(" not in test_txt.replace("len(", "").replace("not (", ""):
            continue  # an empty history has no frames
        okc = False
        chk.violation(
            "R20.c", frames_raw, ret_,
            f"create_gantt_chart_frames can return before producing any frame (`{test_txt[:70] or ast.unparse(st_)[:70]}`): the files already in "
            "the frames directory - possibly those of another history of the same length - are then taken for this history's frames",
            loc=frames.loc(ret_),
        )
        break
    itx = ctx.norm.xexpr(frames, lp.iter)
    is_enum = isinstance(itx, ast.Call) and isinstance(itx.func, ast.Name) and itx.func.id == "enumerate" and itx.args
    counter_form = None
    if not is_enum and isinstance(lp.target, ast.Name):
        # an explicit frame counter:  n = K; for rec in history: ...save(n)...; n += 1
        incs = [st for st in lp.body if isinstance(st, ast.AugAssign) and isinstance(st.target, ast.Name) and isinstance(st.op, ast.Add)
                and isinstance(st.value, ast.Constant) and st.value.value == 1]
        svf_ = calls_in(lp, "savefig")
        if len(incs) == 1 and svf_ and _p(incs[0]) > _p(svf_[0]):
            cname = incs[0].target.id
            init = [d for d in ctx.flow.defs(frames).of(cname) if d[0] == "value" and isinstance(d[1], ast.Constant)]
            others = [d for d in ctx.flow.defs(frames).of(cname) if not (d[0] == "value" and isinstance(d[1], ast.Constant)) and d[0] != "aug"]
            if len(init) == 1 and not others:
                counter_form = (cname, init[0][1])
    if counter_form is not None:
        itx = ast.Call(func=ast.Name(id="enumerate", ctx=ast.Load()), args=[lp.iter], keywords=[ast.keyword(arg="start", value=counter_form[1])])
        is_enum = True
    if not (is_enum and (counter_form is not None or (isinstance(lp.target, ast.Tuple) and len(lp.target.elts) == 2 and all(isinstance(e, ast.Name) for e in lp.target.elts)))):
        reord = list(reorder_ops(itx))
        if reord:
            okc = False
            chk.violation("R20.c", frames_raw, lp.iter, f"frames are produced over `{ast.unparse(lp.iter)}`, not over the recorded history in order", loc=frames.loc(lp))
        else:
            raise AnalysisError("create_gantt_chart_frames: the frame loop does not enumerate the history")
    else:
        start = next((k.value for k in itx.keywords if k.arg == "start"), itx.args[1] if len(itx.args) > 1 else None)
        hist = itx.args[0]
        if counter_form is not None:
            iv, rec = counter_form[0], lp.target.id
        else:
            iv, rec = lp.target.elts[0].id, lp.target.elts[1].id
        hist_text = ast.unparse(hist)
        reord = list(reorder_ops(hist)) or (isinstance(hist, ast.Subscript) and isinstance(hist.slice, ast.Slice))
        if not reord and isinstance(hist, ast.Name):
            # ... or the history was re-ordered on the way to the loop
            # (`history = sorted(history, key=...)`): a dispatch history is a
            # sequence in its own right - any sort other than the identity
            # replays another history.  (A sort in place counts as well.)
            for kind_, value_, _st in ctx.flow.defs(frames).of(hist.id):
                if kind_ == "value" and value_ is not None:
                    for node_, what_ in reorder_ops(value_):
                        args_ = getattr(node_, "args", [])
                        if args_ and isinstance(args_[0], ast.Name) and args_[0].id == hist.id:
                            reord = [(node_, what_)]
                            hist_text = ast.unparse(value_)[:80]
            for x_ in own_nodes(frames.node):
                if isinstance(x_, ast.Call) and isinstance(x_.func, ast.Attribute) and x_.func.attr in ("sort", "reverse") and isinstance(x_.func.value, ast.Name) and x_.func.value.id == hist.id:
                    reord = reord or [(x_, f".{x_.func.attr}()")]
                    hist_text = ast.unparse(x_)[:80]
        if reord:
            okc = False
            chk.violation("R20.c", frames_raw, lp.iter, f"frames are produced over `{hist_text}`, not over the recorded history in order", loc=frames.loc(lp))
        elif not (isinstance(start, ast.Constant) and start.value == 1):
            okc = False
            chk.violation(
                "R20.c", frames_raw, lp.iter,
                f"frames are numbered by `{ast.unparse(lp.iter)}`: the k-th frame is not saved under index k", loc=frames.loc(lp))
        else:
            disp = calls_in(lp, "dispatch")
            svf = calls_in(lp, "savefig")
            # the plot: the call (other than dispatch) that is handed <D>.schedule
            drecv = ctx.norm.xtext(frames, disp[0].func.value) if disp else ""
            plot = [
                c for st in lp.body for c in ast.walk(st)
                if isinstance(c, ast.Call) and c.args and ctx.norm.xtext(frames, c.args[0]) == f"{drecv}.schedule"
            ]
            if len(disp) != 1 or len(plot) != 1 or len(svf) != 1:
                okc = False
                if len(disp) == 1 and not plot:
                    chk.violation("R20.c", frames_raw, lp, "the frame does not plot the dispatcher's schedule", loc=frames.loc(lp))
                else:
                    chk.violation("R20.c", frames_raw, lp, "each frame is not produced by exactly one dispatch, one plot and one save", loc=frames.loc(lp))
            else:
                if not (_p(disp[0]) < _p(plot[0]) < _p(svf[0])):
                    okc = False
                    chk.violation("R20.c", frames_raw, plot[0], "the frame is plotted before its operation is dispatched (frame k shows k-1 operations)", loc=frames.loc(plot[0]))
                dargs = [ctx.norm.xtext(frames, a) for a in disp[0].args] + [ctx.norm.xtext(frames, k.value) for k in disp[0].keywords]
                if dargs != [f"{rec}.operation", f"{rec}.machine_id"]:
                    okc = False
                    chk.violation("R20.c", frames_raw, disp[0], f"frame {iv} does not dispatch ({rec}.operation, {rec}.machine_id) of the k-th record", loc=frames.loc(disp[0]))
                # saved under its own index: the file name's formatted number is the loop index
                name_arg = ctx.norm.xexpr(frames, svf[0].args[0]) if svf[0].args else None
                fstrs = [j_ for j_ in ast.walk(name_arg) if isinstance(j_, ast.JoinedStr)] if name_arg is not None else []
                if name_arg is not None:
                    # str.format on a constant template / a name built in a local first
                    for c_ in ast.walk(name_arg):
                        j_ = _format_as_fstring(frames, c_)
                        if j_ is not None:
                            fstrs.append(j_)
                        if isinstance(c_, ast.Name):
                            for k_, v_, _s in ctx.flow.defs(frames).of(c_.id):
                                if k_ == "value" and v_ is not None:
                                    fstrs += [y for y in ast.walk(v_) if isinstance(y, ast.JoinedStr)]
                                    j2 = _format_as_fstring(frames, v_)
                                    if j2 is not None:
                                        fstrs.append(j2)
                idx_ok = any(
                    isinstance(v, ast.FormattedValue) and isinstance(v.value, ast.Name) and ctx.norm.xtext(frames, v.value) == iv
                    for j_ in fstrs for v in j_.values
                )
                if not idx_ok:
                    okc = False
                    chk.violation("R20.c", frames_raw, svf[0], "the frame is not saved under its own index", loc=frames.loc(svf[0]))
                # a conditional matters when it controls a frame-producing call or
                # leaves the iteration early; `if verbose: print(...)` does neither
                frame_calls = {id(disp[0]), id(plot[0]), id(svf[0])}

                def _controls(n):
                    if isinstance(n, (ast.Break, ast.Continue)):
                        return True
                    return any(id(x) in frame_calls or isinstance(x, (ast.Break, ast.Continue, ast.Return, ast.Raise)) for x in ast.walk(n))

                skipping = [
                    n for st in lp.body for n in ast.walk(st)
                    if isinstance(n, (ast.If, ast.Break, ast.Continue)) and "plot_current_time" not in ast.unparse(n) and _controls(n)
                ]
                if skipping:
                    okc = False
                    chk.violation("R20.c", frames_raw, lp, "frames are produced conditionally: some steps of the history have no frame", loc=frames.loc(lp))
    # the horizon handed to the plot is the makespan of the whole history: the
    # maximum end time / a schedule's makespan(), never the end of one record
    # (dispatch order is not completion order)
    if okc:
        for c in plot:
            for a in c.args[1:2]:
                defs_ = ctx.flow.defs(frames)
                exprs = [a] + ([d[1] for d in defs_.of(a.id) if d[1] is not None] if isinstance(a, ast.Name) else [])
                # follow one more level (names bound from a tuple of branch values)
                more = []
                for e in exprs:
                    for x in ast.walk(e):
                        if isinstance(x, ast.Name) and x.id != getattr(a, "id", None):
                            more += [d[1] for d in defs_.of(x.id) if d[1] is not None]
                for e in exprs + more:
                    for x in ast.walk(e):
                        if (
                            isinstance(x, ast.Attribute) and x.attr == "end_time" and isinstance(x.value, ast.Subscript)
                            and isinstance(x.value.slice, (ast.Constant, ast.UnaryOp))
                        ):
                            okc = False
                            chk.violation(
                                "R20.c", frames_raw, x,
                                f"the time horizon of the frames is `{ast.unparse(x)}`, the end of one record of the history: the "
                                "last dispatched operation need not be the one that finishes last, so the axis ends before the "
                                "makespan and bars are cut off",
                                loc=frames.loc(x),
                            )
                            break
                    if not okc:
                        break
    if okc:
        chk.ok("R20.c", frames_raw.qualname, frames.loc(lp), "frame k: dispatch record k, plot dispatcher.schedule, save as k")
    # the solver branch must replay on a reset dispatcher with the observer detached
    unsub = {ctx.norm.xtext(frames, c.func.value) for c in calls_in(frames.node, "unsubscribe")}
    resets = {ctx.norm.xtext(frames, c.func.value) for c in calls_in(frames.node, "reset") if not c.args}
    if unsub & resets:
        chk.ok("R20.c", frames_raw.qualname, frames.loc(), "solver history replayed on a reset dispatcher")
    else:
        chk.violation("R20.c", frames_raw, None, "the solver's history is replayed without resetting the dispatcher / detaching the history observer")

    # ---------------------------------------------------------------- R20.d
    gc = repo.find_class("GanttChartCreator")
    pg = gc.methods.get("plot_gantt_chart")
    if pg is None:
        raise AnalysisError("GanttChartCreator.plot_gantt_chart vanished")
    eng = ctx.engine(relevant=lambda e: False, max_depth=0)
    n = 0
    bad = False
    for p in eng.paths(pg, gc):
        if p.outcome != "return":
            continue
        n += 1
        calls = [
            e for e in p.events
            if e.kind == "call" and ctx.norm.xtext(pg, e.node.func if isinstance(e.node, ast.Call) else e.node) == "self.partial_gantt_chart_plotter"
        ]
        # the schedule read at call time: the creator's `schedule` property or the dispatcher's attribute it returns
        live = ("self.schedule", "self.dispatcher.schedule")
        if len(calls) != 1 or not calls[0].node.args or ctx.norm.xtext(pg, calls[0].node.args[0]) not in live:
            bad = True
            chk.violation(
                "R20.d", pg, p.events[-1].node,
                "plot_gantt_chart can return without plotting the dispatcher's current schedule (cached figure): after "
                "a reset or further dispatches the chart shows an earlier schedule",
                loc=p.events[-1].loc, path=p.describe(),
            )
            break
    if not bad and n:
        chk.ok("R20.d", pg.qualname, pg.loc(), f"{n} return paths plot self.schedule")
    ctx.attempt(_history_read_live, ctx, gc)
    sch = gc.methods.get("schedule")
    if sch is not None and "dispatcher.schedule" not in ast.unparse(sch.node):
        chk.violation("R20.d", sch, None, "GanttChartCreator.schedule is not the dispatcher's live schedule")

    # ---------------------------------------------------------------- R20.e
    # the function that decides the x limit: its flattened body (private
    # helpers inlined) both reads the makespan and calls set_xlim; the
    # smallest such function is taken
    cands = []
    for fi in repo.all_functions():
        if isinstance(fi.node, ast.Lambda) or fi.cls is not None or not fi.module.name.startswith("job_shop_lib.visualization"):
            continue
        ff = ctx.norm.flat(fi, depth=3)
        calls = {n.func.attr for n in own_nodes(ff.node) if isinstance(n, ast.Call) and isinstance(n.func, ast.Attribute)}
        if "set_xlim" in calls and "makespan" in calls:
            cands.append((len(list(ast.walk(ff.node))), fi.qualname, fi, ff))
    if not cands:
        raise AnalysisError("no function of the plot module both reads the makespan and sets the x limits")
    cands.sort(key=lambda c: (c[0], c[1]))
    ca_raw, ca = cands[0][2], cands[0][3]
    nodes = list(own_nodes(ca.node))
    src = ast.unparse(ca.node).replace(" ", "")
    oke = True
    setx = [n for n in nodes if isinstance(n, ast.Call) and ast.unparse(n.func) == "ax.set_xlim" and len(n.args) == 2]
    if len(setx) != 1 or ast.unparse(setx[0].args[0]) != "0":
        raise AnalysisError("_configure_axes: set_xlim(0, limit) not found")
    lim = setx[0].args[1]
    lt = ctx.norm.xtext(ca, lim).replace(" ", "")
    dflt = lt in ("xlimifxlimisnotNoneelseschedule.makespan()", "schedule.makespan()ifxlimisNoneelsexlim")
    if not dflt and isinstance(lim, ast.Name):
        for n in nodes:
            if isinstance(n, ast.Assign) and ast.unparse(n.targets[0]) == lim.id:
                v = ctx.norm.xtext(ca, n.value).replace(" ", "")
                par = ca.module.parents.get(n)
                if v in ("xlimifxlimisnotNoneelseschedule.makespan()", "schedule.makespan()ifxlimisNoneelsexlim"):
                    dflt = True
                elif isinstance(par, ast.If) and ast.unparse(par.test).replace(" ", "") == f"{lim.id}isNone" and v == "schedule.makespan()" and not par.orelse:
                    dflt = True
    if not dflt:
        oke = False
        chk.violation("R20.e", ca_raw, lim, f"the x limit `{lt[:60]}` is not `xlim if given else the schedule's makespan`", loc=ca.loc(setx[0]))
    lv = ast.unparse(lim)
    # the tick list: what is handed to set_xticks (through plain aliases)
    sxt = [n for n in nodes if isinstance(n, ast.Call) and isinstance(n.func, ast.Attribute) and n.func.attr == "set_xticks" and n.args]
    tick_names = set()
    cdefs = ctx.flow.defs(ca)
    for c in sxt:
        a = c.args[0]
        for _ in range(4):
            if isinstance(a, ast.Name):
                tick_names.add(a.id)
                ds = [d for d in cdefs.of(a.id) if d[0] == "value"]
                if len(ds) == 1 and isinstance(ds[0][1], ast.Name):
                    a = ds[0][1]
                    continue
            break
    last_tick = False
    for T in tick_names:
        differs = f"{T}[-1]!={lv}" in src or f"{lv}!={T}[-1]" in src or f"not{T}[-1]=={lv}" in src or f"not{lv}=={T}[-1]" in src
        if differs and (f"{T}.append({lv})" in src or f"{T}[-1]={lv}" in src):
            last_tick = True
    if not last_tick:
        oke = False
        chk.violation("R20.e", ca_raw, None, "the last tick is not forced to the axis limit")
    # no tick other than the limit is added by hand: set_xticks widens the view
    # to show every tick, so a tick beyond a requested xlim moves the axis end
    for n in nodes:
        if not (isinstance(n, ast.Call) and isinstance(n.func, ast.Attribute) and isinstance(n.func.value, ast.Name) and n.func.value.id in tick_names):
            continue
        added = None
        if n.func.attr == "append" and n.args:
            added = n.args[0]
        elif n.func.attr == "insert" and len(n.args) == 2:
            added = n.args[1]
        elif n.func.attr == "extend" and n.args:
            added = n.args[0]
        if added is not None and ast.unparse(added) != lv and ctx.norm.xtext(ca, added).replace(" ", "") != lt:
            oke = False
            chk.violation(
                "R20.e", ca_raw, n,
                f"the tick `{ast.unparse(added)}` is added besides the axis limit `{lv}`: matplotlib widens the view to show "
                "every tick, so with a requested limit below that value the time axis no longer ends at the limit",
                loc=ca.loc(n),
            )
    if oke:
        chk.ok("R20.e", ca_raw.qualname, ca_raw.loc(), "axis [0, xlim or makespan], last tick at the limit")
