"""C07 - ready-operation filters prune soundly.

R07.a  sub-list shape: every registered filter returns an order-preserving,
       duplicate-free selection of its ``operations`` argument (abstract
       interpretation over all paths, domain in jslstatic/sublist.py).
R07.b  the composite applies every filter to the previous filter's output
       and returns the last output (a fold, nothing skipped).
R07.c  the registry maps every ReadyOperationsFilterType member to the
       filter of the same name.
R07.d  available_operations() applies the installed filter to the raw ready
       list and returns its result (the raw list itself without a filter).
R07.e  purity: a filter (and everything it calls) mutates neither the list
       it is given - which *is* the cached raw ready list - nor anything
       reachable from the dispatcher.
R07.g  a filter reasons about the list it is given: filter code does not call
       the dispatcher's ready/available-operation queries
       (raw_ready_operations, available_operations, current_time, ...).
R07.f  per-machine tables: an entry stored under machine ``m`` inside
       ``for m in <op>.machines`` is computed from ``m`` (or guarded by a
       test on ``m``) - start and end times are per machine, so a value
       hoisted out of the machine loop fills the table with another
       machine's time.
R07.h  no function of these modules modifies the object of a mutable default
       argument (directly, through a local alias, or with ``+=``): the result
       of a call must not depend on earlier calls.
R07.i  no for-loop variable of these modules is read after its loop (a statement
       left one indentation level too shallow sees only the last element).
R07.j  no str-Enum value (FeatureType, ...Type) is tested by identity: plain strings
       are accepted for these enums and are equal, not identical, to the member.
R07.k  no closure created in a loop of these modules keeps the loop variable by
       reference (late binding) - every kept closure would see the last value.
"""

from __future__ import annotations

import ast

from ..dataflow import is_shared
from ..repo import AnalysisError, FuncInfo, dotted, own_nodes
from ..sublist import SubInterp, apps, is_sub
from .common import ctor_self_write, is_memo_fill, new_private_state

MANIFEST = {
    "text": (
        "Decides the structural half of C07 for all inputs: each registered "
        "filter, on every path, returns an order-preserving duplicate-free "
        "selection of its input (same order, no duplicates, no foreign "
        "operations, empty maps to empty) - proved by abstract interpretation "
        "of the filter bodies, hence for every state and list; the composite is "
        "a left fold over all its filters; the registry is total and "
        "name-consistent; available_operations applies the installed filter to "
        "the raw ready list; filters are side-effect free on their inputs; the "
        "per-machine tables the filters build are filled from the machine they "
        "are indexed by; filter code never consults the dispatcher's own ready/available-operation queries. "
        "Not decided: non-emptiness and the exactness of each documented "
        "criterion, which depend on start-time values."
        " Also decided: no function of these modules accumulates into a mutable default argument."
        " Also decided: no for-loop variable of these modules is read after its loop (statement left one indentation level too shallow)."
        " Also decided: no str-Enum value is tested by identity (plain strings are accepted for these enums)."
        " Also decided: no closure created in a loop keeps the loop variable by reference (late binding)."
        ' Also decided: in the dominance test a start exactly at the earliest completion on that machine counts as dominated.'
    ),
    "note": (
        "User-supplied filters are outside the quantifier. The sub-list proof "
        "covers the shapes enumerated in jslstatic/sublist.py (append of the "
        "loop element at most once per iteration, comprehensions, slices, "
        "copies, singleton literals, helper functions); an unrecognised shape "
        "is ANALYSIS-ERROR."
    ),
    "technique": "abstract interpretation over enumerated statement paths (sub-sequence domain) + effect closure + registry table check",
    "ref": "DESIGN.md §3 C07",
}

UNDECIDED = [
    "a filter never returns an empty list for a non-empty input (depends on start-time values)",
    "each filter keeps exactly the operations meeting its documented criterion (value-level)",
]
ASSUMPTIONS = [
    "user-supplied filter callables are outside the quantifier of a static check over the library",
]


def registry(ctx, factory: FuncInfo, enum_name: str):
    """(member name -> value node) pairs of the dict literal keyed by members
    of ``enum_name`` inside ``factory``."""
    for n in own_nodes(factory.node):
        if isinstance(n, ast.Dict) and n.keys and all(
            isinstance(k, ast.Attribute)
            and isinstance(k.value, ast.Name)
            and k.value.id == enum_name
            for k in n.keys
        ):
            return n, {k.attr: v for k, v in zip(n.keys, n.values)}
    # a module-level table the factory reads (hoisted out of the function)
    used = {n.id for n in own_nodes(factory.node) if isinstance(n, ast.Name)}
    # ... also through a look-up function of the module the factory calls
    for nm in list(used):
        g = factory.module.functions.get(nm)
        if g is not None and not isinstance(g.node, ast.Lambda) and g is not factory:
            used |= {n.id for n in own_nodes(g.node) if isinstance(n, ast.Name)}
    for name, val in getattr(factory.module, "assigns", {}).items():
        if name in used and isinstance(val, ast.Dict) and val.keys and all(
            isinstance(k, ast.Attribute) and isinstance(k.value, ast.Name) and k.value.id == enum_name for k in val.keys
        ):
            return val, {k.attr: v for k, v in zip(val.keys, val.values)}
    # a private function of the module that returns the table
    for fn in factory.module.functions.values():
        if isinstance(fn.node, ast.Lambda) or fn.name not in used:
            continue
        for n in own_nodes(fn.node):
            if isinstance(n, ast.Return) and isinstance(n.value, ast.Dict) and n.value.keys and all(
                isinstance(k, ast.Attribute) and isinstance(k.value, ast.Name) and k.value.id == enum_name for k in n.value.keys
            ):
                return n.value, {k.attr: v for k, v in zip(n.value.keys, n.value.values)}
    # a match statement / if-elif chain on the enum members that returns the entry
    def member(e):
        if isinstance(e, ast.Attribute) and isinstance(e.value, ast.Name) and e.value.id == enum_name:
            return e.attr
        return None

    def single_return(body):
        body = [x for x in body if not (isinstance(x, ast.Expr) and isinstance(x.value, ast.Constant))]
        if len(body) == 1 and isinstance(body[0], ast.Return) and body[0].value is not None:
            return body[0].value
        return None

    for n in own_nodes(factory.node):
        table = {}
        if isinstance(n, ast.Match):
            for case in n.cases:
                pats = case.pattern.patterns if isinstance(case.pattern, ast.MatchOr) else [case.pattern]
                ms = [member(p.value) if isinstance(p, ast.MatchValue) else None for p in pats]
                v = single_return(case.body)
                if all(ms) and v is not None and case.guard is None:
                    for m in ms:
                        table[m] = v
        elif isinstance(n, ast.If):
            cur = n
            while isinstance(cur, ast.If):
                t = cur.test
                m = None
                if isinstance(t, ast.Compare) and len(t.ops) == 1 and isinstance(t.ops[0], (ast.Eq, ast.Is)):
                    m = member(t.comparators[0]) or member(t.left)
                v = single_return(cur.body)
                if m is None or v is None:
                    break
                table[m] = v
                cur = cur.orelse[0] if len(cur.orelse) == 1 else None
        if len(table) >= 2:
            d = ast.Dict(
                keys=[ast.Attribute(value=ast.Name(id=enum_name, ctx=ast.Load()), attr=k, ctx=ast.Load()) for k in table],
                values=list(table.values()))
            ast.copy_location(d, n)
            return d, table
    raise AnalysisError(f"{factory.qualname}: registry keyed by {enum_name} not found")


def run(ctx):
    chk = ctx.chk
    from .common import check_late_binding, modules_defining

    scope = modules_defining(
        ctx, "job_shop_lib.dispatching",
        lambda n: n.startswith("filter_") or n in ("ready_operations_filter_factory", "create_composite_operation_filter"),
    )
    check_late_binding(ctx, "R07.k", scope, "the filter")
    from .common import check_str_enum_identity

    check_str_enum_identity(ctx, "R07.j", scope, "the filter")
    from .common import check_loop_variable_leaks

    check_loop_variable_leaks(ctx, "R07.i", scope, "the filter")
    from .common import check_mutable_defaults

    check_mutable_defaults(ctx, "R07.h", scope, "the filter")
    repo = ctx.repo
    chk.rule("R07.a", "every registered filter returns an order-preserving duplicate-free selection of its `operations` argument on every path")
    chk.rule("R07.b", "the composite filter folds: each filter is applied to the previous output, none skipped, last output returned")
    chk.rule("R07.c", "registry total over ReadyOperationsFilterType and name-consistent (member value X <-> filter_X)")
    chk.rule("R07.d", "available_operations applies the installed filter to raw_ready_operations() and returns its result")
    chk.rule("R07.e", "filters and their callees mutate neither their input list nor dispatcher-reachable state")

    factory = repo.find_function("ready_operations_filter_factory")
    enum = repo.find_class("ReadyOperationsFilterType")
    members = repo.enum_members(enum)
    dnode, reg = registry(ctx, factory, enum.name)

    # ---------------------------------------------------------------- R07.c
    filters: dict[str, FuncInfo] = {}
    for m, valnode in members.items():
        if m not in reg:
            chk.violation(
                "R07.c", factory, dnode,
                f"ReadyOperationsFilterType.{m} has no entry in the registry: "
                "the factory rejects a documented filter name",
            )
            continue
        v = reg[m]
        q = repo.resolve(factory.module.name, dotted(v) or "")
        fi = repo.functions.get(q or "")
        if fi is None:
            raise AnalysisError(f"registry entry for {m} is not a package function: {ast.unparse(v)}")
        filters[m] = fi
        want = "filter_" + (valnode.value if isinstance(valnode, ast.Constant) else "?")
        if fi.name != want:
            chk.violation(
                "R07.c", factory, v,
                f"ReadyOperationsFilterType.{m} (\"{getattr(valnode, 'value', '?')}\") is mapped to "
                f"{fi.name}, expected {want}",
                loc=factory.loc(v),
            )
        else:
            chk.ok("R07.c", factory.qualname, factory.loc(v), f"{m} -> {fi.name}")
    chk.floor("R07.c", len(members), 4, "enum members")

    # ---------------------------------------------------------------- R07.a
    all_filters = dict(filters)
    # filters exported but not registered are checked too
    for mi in repo.modules.values():
        for name, fi in mi.functions.items():
            if name.startswith("filter_") and fi not in all_filters.values():
                all_filters[name] = fi
    n_paths = 0
    for key, fi in sorted(all_filters.items(), key=lambda kv: kv[1].qualname):
        params = fi.params
        # (dispatcher, operations) plus, possibly, optional extras with defaults
        a_ = fi.node.args
        n_required = len(a_.posonlyargs + a_.args) - len(a_.defaults) + sum(1 for d in a_.kw_defaults if d is None)
        if len(a_.posonlyargs + a_.args) < 2 or n_required != 2:
            raise AnalysisError(f"{fi.qualname}: filter signature is not (dispatcher, operations)")
        it = SubInterp(ctx, fi, {params[1]: ("SRC", 0)})
        res = it.run()
        n_paths += it.n_paths
        if not res:
            raise AnalysisError(f"{fi.qualname}: no return paths")
        bad = False
        for val, node, path in res:
            if val[0] in ("BAD", "PERM"):
                bad = True
                chk.violation(
                    "R07.a", fi, val[2],
                    f"returned list is not a sub-list of the input: {val[1]}",
                    loc=fi.loc(val[2]), path=path.describe(),
                )
            elif not is_sub(val):
                why = val[1] if val[0] == "UNKNOWN" else f"abstract value {val[0]}"
                raise AnalysisError(
                    f"{fi.loc(node)}: {fi.name} returns a value of unrecognised shape "
                    f"({why}): {ast.unparse(node)[:80]}"
                )
        if not bad:
            chk.ok("R07.a", fi.qualname, fi.loc(), f"{len(res)} return paths, all sub-lists")
    chk.analysed["filter_paths"] = n_paths
    chk.floor("R07.a", chk.count("R07.a"), 4, "filters")

    # ---------------------------------------------------------------- R07.e
    eff = ctx.effects
    incremental_07: dict[str, set] = {}
    for key, fi in sorted(all_filters.items(), key=lambda kv: kv[1].qualname):
        ws = eff.closure_writes(fi, None, max_depth=5)
        closure = eff.closure(fi, None, max_depth=5)
        flagged = False
        for w in ws:
            if is_memo_fill(ctx, w.event):
                continue  # a correctly invalidated private memo (filled by a query the filter calls)
            if ctor_self_write(w):
                continue  # a private helper object initialising itself
            shared = [o for o in w.origins if is_shared(o) and o[0] != "unknown"]
            if not shared:
                continue
            nps = new_private_state(ctx, w)
            if nps is not None:
                incremental_07.setdefault(fi.name, set()).add(f"{w.fi.cls.name}.{nps}")
                continue
            flagged = True
            chk.violation(
                "R07.e", fi, w.event.node,
                f"mutates shared state ({_fmt(shared)}) in {w.fi.name}: {w.event.data.get('text')}",
                loc=w.loc, path=[*w.via, w.fi.qualname],
            )
        if not flagged:
            chk.ok("R07.e", fi.qualname, fi.loc(), f"closure of {len(closure)} functions is write-free on shared objects")
    chk.floor("R07.e", chk.count("R07.e"), 4, "filters")
    if incremental_07:
        def _refuse_07():
            f_, attrs_ = sorted(incremental_07.items())[0]
            raise AnalysisError(
                f"{f_} (through the queries it calls) updates bookkeeping the pinned tree does not have ({', '.join(sorted(attrs_))}); whether "
                "that state is kept consistent - so that the filter's answer depends on the dispatcher state only - is not decided by this analysis"
            )

        ctx.attempt(_refuse_07)

    # ---------------------------------------------------------------- R07.g
    chk.rule("R07.g", "a filter reasons about the list it is given: it does not consult the dispatcher's own ready/available-operation queries")
    FORBIDDEN = ("raw_ready_operations", "available_operations", "current_time", "available_machines", "available_jobs")
    for key, fi in sorted(all_filters.items(), key=lambda kv: kv[1].qualname):
        hit = None
        # filter code = the filter, its helper functions, and whatever API the
        # pinned tree does not have (a query added for the filter's benefit);
        # the pinned dispatcher methods themselves are not filter code
        from ..baseline_api import PUBLIC_CALLABLES

        seen, work = set(), [(fi, fi.cls, 0)]
        while work:
            f, rc, d = work.pop(0)
            if f.qualname in seen or isinstance(f.node, ast.Lambda) and f.parent is None:
                continue
            seen.add(f.qualname)
            for n in own_nodes(f.node):
                if isinstance(n, ast.Call) and isinstance(n.func, ast.Attribute) and n.func.attr in FORBIDDEN and hit is None:
                    hit = (f, n)
            if d >= 3:
                continue
            for ev, t, trc in ctx.effects.calls(f, rc):
                if t.cls is not None:
                    k = f"{t.cls.name}.{t.name}"
                    pinned = k in PUBLIC_CALLABLES or t.name.startswith("__") or (
                        t.name.startswith("_") and f.cls is None  # a private method called from outside its class: not ours to judge
                    ) or any(f"{b.rsplit('.', 1)[-1]}.{t.name}" in PUBLIC_CALLABLES for b in t.cls.mro[1:])
                    if pinned:
                        continue
                work.append((t, trc, d + 1))
        if hit is None:
            chk.ok("R07.g", fi.qualname, fi.loc(), "uses only its `operations` argument and the dispatcher's tracking state")
        else:
            f, n = hit
            chk.violation(
                "R07.g", fi, n,
                f"{fi.name} consults `{ast.unparse(n)[:60]}`: its reference (e.g. the current time) is taken from operations that "
                "are not in the list it filters, so on a sub-list - a later stage of a composite - the kept set no longer "
                "contains the earliest operation of *that* list and the result can be empty for a non-empty input",
                loc=f.loc(n),
            )

    # ---------------------------------------------------------------- R07.m
    ctx.attempt(_dominance_tie, ctx, all_filters)

    # ---------------------------------------------------------------- R07.f
    chk.rule("R07.f", "an entry stored under machine m of a per-machine table built inside `for m in <op>.machines` is computed from m (start/end times are per machine)")
    n_tab = 0
    fmod = factory.module if factory.module.functions.get("filter_dominated_operations") else next(
        (mi for mi in repo.modules.values() if "filter_dominated_operations" in mi.functions), factory.module)
    for fi in fmod.functions.values():
        # generators that yield (operation, machine, ...) are written out into
        # the loops that consume them, so that what is stored is seen next to
        # the `for m in <op>.machines` it belongs to
        try:
            ff = ctx.norm.flat(fi, depth=3)
        except AnalysisError:
            ff = fi
        n_tab += _per_machine_tables(ctx, ff)
    chk.analysed["per_machine_table_stores"] = n_tab
    if n_tab == 0:
        chk.ok("R07.f", fmod.name, "", "no per-machine table is filled in a machine loop in the filter module")

    # ---------------------------------------------------------------- R07.b
    comp_factory = repo.find_function("create_composite_operation_filter")
    inner = [
        f for f in repo.functions.values()
        if f.parent is comp_factory and not isinstance(f.node, ast.Lambda)
    ]
    if len(inner) != 1:
        raise AnalysisError("composite filter: expected exactly one inner function")
    inner = inner[0]
    # the list the inner function iterates must hold one filter per requested name
    flist_ok, flist_name, why = _filter_list(ctx, comp_factory)
    if not flist_ok:
        chk.violation("R07.b", comp_factory, None, why)
    ip = inner.params

    def filter_call(call, env, interp):
        f = call.func
        if isinstance(f, ast.Name) and len(call.args) == 2:
            # callee is the loop variable over the filter list
            for n in own_nodes(inner.node):
                if isinstance(n, ast.For) and isinstance(n.target, ast.Name) and n.target.id == f.id:
                    if any(isinstance(x, ast.Name) and x.id == flist_name for x in ast.walk(n.iter)):
                        return call.args[1]
        return None

    for n in own_nodes(inner.node):
        if (
            isinstance(n, ast.For)
            and any(isinstance(x, ast.Name) and x.id == flist_name for x in ast.walk(n.iter))
            and not (isinstance(n.iter, ast.Name) and n.iter.id == flist_name)
        ):
            flist_ok = False
            chk.violation(
                "R07.b", inner, n.iter,
                f"the composite iterates over `{ast.unparse(n.iter)}` instead of the whole filter "
                "list in order: filters are skipped or reordered",
                loc=inner.loc(n),
            )

    # the fold written with functools.reduce:
    #   reduce(lambda acc, f: f(dispatcher, acc), <filter list>, operations)
    rets = [n for n in own_nodes(inner.node) if isinstance(n, ast.Return) and n.value is not None]
    if len(rets) == 1:
        rv = ctx.norm.xexpr(inner, rets[0].value)
        if isinstance(rv, ast.Call) and ast.unparse(rv.func).split(".")[-1] == "reduce" and len(rv.args) == 3 and isinstance(rv.args[0], ast.Name):
            # the step written as a nested def with a single return
            for d in ast.walk(inner.node):
                if isinstance(d, ast.FunctionDef) and d is not inner.node and d.name == rv.args[0].id:
                    body = [x for x in d.body if not (isinstance(x, ast.Expr) and isinstance(x.value, ast.Constant))]
                    a = d.args
                    if len(body) == 1 and isinstance(body[0], ast.Return) and body[0].value is not None and len(a.args) == 2 and not (a.vararg or a.kwarg or a.kwonlyargs or a.defaults):
                        lam = ast.Lambda(args=ast.arguments(posonlyargs=[], args=list(a.args), kwonlyargs=[], kw_defaults=[], defaults=[]), body=body[0].value)
                        rv = ast.Call(func=rv.func, args=[ast.copy_location(lam, d)] + list(rv.args[1:]), keywords=[])
                        ast.copy_location(rv, rets[0].value)
                        rets = [r for r in rets]  # the nested def's own return is not the composite's
        if (
            isinstance(rv, ast.Call) and ast.unparse(rv.func).split(".")[-1] == "reduce" and len(rv.args) == 3
            and isinstance(rv.args[0], ast.Lambda) and len(rv.args[0].args.args) == 2
        ):
            lam, seq, init = rv.args
            acc, fvar = (a.arg for a in lam.args.args)
            body = lam.body
            good = (
                isinstance(body, ast.Call) and isinstance(body.func, ast.Name) and body.func.id == fvar and len(body.args) == 2
                and ast.unparse(body.args[0]) == ip[0] and ast.unparse(body.args[1]) == acc
                and isinstance(seq, ast.Name) and seq.id == flist_name and ast.unparse(init) == ip[1]
            )
            if good:
                chk.ok("R07.b", inner.qualname, inner.loc(), f"left fold (functools.reduce) over `{flist_name}` starting from the given list")
                chk.floor("R07.b", 2, 2, "composite paths")
            else:
                chk.violation(
                    "R07.b", inner, rv,
                    f"the composite folds with `{ast.unparse(rv)[:90]}`: not `f(dispatcher, previous output)` over the whole filter "
                    "list starting from the given operations",
                    loc=inner.loc(rets[0]),
                )
            return _after_composite(ctx, repo, chk)
    it = SubInterp(ctx, inner, {ip[1]: ("SRC", 0)}, filter_call=filter_call)
    res = it.run()
    bad = False
    for val, node, path in res:
        iters = sum(
            1 for e in path.events
            if e.kind == "loop" and e.data.get("phase") == "iter"
            and isinstance(e.node, ast.For)
            and any(isinstance(x, ast.Name) and x.id == flist_name for x in ast.walk(e.node.iter))
        )
        if val[0] in ("BAD", "PERM"):
            bad = True
            chk.violation("R07.b", inner, val[2], f"composite result is not a sub-list: {val[1]}", loc=inner.loc(val[2]))
        elif not is_sub(val):
            raise AnalysisError(f"{inner.loc(node)}: composite returns unrecognised value")
        elif apps(val) != iters:
            bad = True
            chk.violation(
                "R07.b", inner, node,
                f"on a path with {iters} filters the returned list went through {apps(val)} "
                "of them: a filter is skipped or applied to the original list instead of "
                "the previous output",
                loc=inner.loc(node), path=path.describe(),
            )
    if not bad and flist_ok:
        chk.ok("R07.b", inner.qualname, inner.loc(), f"{len(res)} paths: fold over `{flist_name}`")
    chk.floor("R07.b", len(res), 2, "composite paths")

    ctx.attempt(_after_composite, ctx, repo, chk)


def _after_composite(ctx, repo, chk):
    # ---------------------------------------------------------------- R07.d
    disp = repo.find_class("Dispatcher")
    avail = repo.need_method(disp, "available_operations")

    def src_call(call):
        f = call.func
        return isinstance(f, ast.Attribute) and f.attr == "raw_ready_operations" and isinstance(f.value, ast.Name) and f.value.id == "self"

    def filt_call(call, env, interp):
        f = call.func
        if isinstance(f, ast.Name):
            f = ctx.norm.xexpr(avail, f)  # `flt = self.ready_operations_filter` ... `flt(self, ops)`
        if (
            isinstance(f, ast.Attribute) and f.attr == "ready_operations_filter"
            and isinstance(f.value, ast.Name) and f.value.id == "self" and len(call.args) == 2
        ):
            return call.args[1]
        return None

    it = SubInterp(ctx, avail, {}, filter_call=filt_call, src_call=src_call)
    res = it.run()
    if any(v_[0] in ("BAD", "PERM", "UNKNOWN") or not is_sub(v_) for v_, _n, _p in res):
        # a step shared with a sibling query and steered by a literal flag (`self._ready_operations(apply_filter=True)`):
        # judge the written-out form, in which the flag has decided its branches
        try:
            avail_f = ctx.norm.flat(avail, depth=3)
            if ast.dump(avail_f.node) != ast.dump(avail.node):
                res_f = SubInterp(ctx, avail_f, {}, filter_call=filt_call, src_call=src_call).run()
                if res_f and all(is_sub(v_) for v_, _n, _p in res_f):
                    avail, res = avail_f, res_f
        except AnalysisError:
            pass
    bad = False
    for val, node, path in res:
        # which branch of `self.ready_operations_filter is not None` are we on?
        has_filter = None
        for e in path.events:
            if e.kind == "branch" and ("ready_operations_filter" in e.data.get("text", "") or "ready_operations_filter" in ctx.norm.xtext(avail, e.node)):
                t = e.node
                neg = isinstance(t, ast.Compare) and isinstance(t.ops[0], (ast.Is, ast.Eq))
                isnot = isinstance(t, ast.Compare) and isinstance(t.ops[0], (ast.IsNot, ast.NotEq))
                if isnot:
                    has_filter = e.data["taken"]
                elif neg:
                    has_filter = not e.data["taken"]
                else:
                    has_filter = e.data["taken"]
        if val[0] in ("BAD", "PERM"):
            bad = True
            chk.violation("R07.d", avail, val[2], f"available_operations: {val[1]}", loc=avail.loc(val[2]))
            continue
        if not is_sub(val):
            raise AnalysisError(f"{avail.loc(node)}: available_operations returns a value not derived from raw_ready_operations()")
        if has_filter is None:
            raise AnalysisError(f"{avail.loc(node)}: branch on the installed filter not recognised")
        want = 1 if has_filter else 0
        if apps(val) != want:
            bad = True
            chk.violation(
                "R07.d", avail, node,
                ("the installed filter is not applied to the returned list" if has_filter
                 else "a filter is applied although none is installed"),
                loc=avail.loc(node), path=path.describe(),
            )
    if not bad:
        chk.ok("R07.d", avail.qualname, avail.loc(), f"{len(res)} paths")
    chk.floor("R07.d", len(res), 2, "available_operations paths")


def _dominance_tie(ctx, all_filters):
    """R07.m - the dominance test: an operation that would start on a machine
    exactly when the earliest competitor there completes IS dominated ("starts
    before the earliest completion" fails), so the comparison between a start
    time and the entry `T[m]` of the per-machine completion table must put the
    tie on the dominated side: `start >= T[m]` (dominated) / `start < T[m]`
    (kept).  `T[m]` is recognised structurally: a subscript by the variable of
    an enclosing loop / comprehension over `<operation>.machines`."""
    chk = ctx.chk
    chk.rule("R07.m", "dominance: start >= earliest completion on that machine is dominated (a tie counts as dominated)")
    dom = all_filters.get("dominated_operations") or next((f for k, f in all_filters.items() if "dominated" in f.name), None)
    if dom is None:
        return
    fd = ctx.norm.flat(dom, depth=3)
    units = [fd]
    seen = {dom.qualname}
    for g, rc, via in ctx.effects.closure(dom, dom.cls, max_depth=2):
        if g.qualname in seen or isinstance(g.node, ast.Lambda) or g.cls is not None:
            continue
        seen.add(g.qualname)
        units.append(g)

    def machine_vars(f, node):
        """variables of enclosing loops / comprehension clauses that walk `<x>.machines`"""
        out = set()

        def walks_machines(it):
            return any(isinstance(x, ast.Attribute) and x.attr == "machines" for x in ast.walk(it))

        cur = f.module.parents.get(node)
        child = node
        while cur is not None:
            if isinstance(cur, ast.For) and walks_machines(cur.iter):
                out |= {x.id for x in ast.walk(cur.target) if isinstance(x, ast.Name)}
            if isinstance(cur, (ast.GeneratorExp, ast.ListComp, ast.SetComp)):
                for gen in cur.generators:
                    if walks_machines(gen.iter):
                        out |= {x.id for x in ast.walk(gen.target) if isinstance(x, ast.Name)}
            if cur is f.node:
                break
            child, cur = cur, f.module.parents.get(cur)
        return out

    # a helper that is handed the machine id:  _is_dominated_on(d, op, m, table)  called for m in op.machines
    machine_params: dict[str, set] = {}
    for f in units:
        for call in own_nodes(f.node):
            if not (isinstance(call, ast.Call) and isinstance(call.func, ast.Name)):
                continue
            g = next((u for u in units if u is not f and u.name == call.func.id and u is not fd), None)
            if g is None:
                continue
            mv_site = machine_vars(f, call)
            for p_, a_ in list(zip(g.params, call.args)) + [(k.arg, k.value) for k in call.keywords if k.arg]:
                if isinstance(a_, ast.Name) and a_.id in mv_site:
                    machine_params.setdefault(g.qualname, set()).add(p_)

    n_cmp = 0
    for f in units:
        for c in own_nodes(f.node):
            if not (isinstance(c, ast.Compare) and len(c.ops) == 1 and isinstance(c.ops[0], (ast.Lt, ast.LtE, ast.Gt, ast.GtE))):
                continue
            mv = machine_vars(f, c) | machine_params.get(f.qualname, set())
            if not mv:
                continue

            def is_entry(e):
                return isinstance(e, ast.Subscript) and isinstance(e.slice, ast.Name) and e.slice.id in mv and isinstance(e.value, (ast.Name, ast.Attribute))

            l, r = c.left, c.comparators[0]
            if is_entry(l) == is_entry(r):
                continue
            # the running-minimum update `if v < T[m]: T[m] = v` is not the dominance test
            par = f.module.parents.get(c)
            if isinstance(par, ast.If) and any(
                isinstance(st, ast.Assign) and any(ast.unparse(t) == ast.unparse(l if is_entry(l) else r) for t in st.targets) for st in par.body
            ):
                continue
            n_cmp += 1
            op = c.ops[0]
            if is_entry(l):  # normalise to  start OP T[m]
                op = {ast.Lt: ast.Gt, ast.LtE: ast.GtE, ast.Gt: ast.Lt, ast.GtE: ast.LtE}[type(op)]()
            if isinstance(op, (ast.GtE, ast.Lt)):
                chk.ok("R07.m", dom.qualname, f.loc(c), f"`{ast.unparse(c)}`: a tie is dominated")
            else:
                chk.violation(
                    "R07.m", dom, c,
                    f"the dominance test `{ast.unparse(c)}` treats an operation that would start exactly at the earliest completion "
                    "on that machine as not dominated: it is kept although it does not start before that completion",
                    loc=f.loc(c),
                )
    if n_cmp == 0:
        raise AnalysisError("filter_dominated_operations: comparison of a start time with the per-machine earliest completion not found")


def _per_machine_tables(ctx, fi: FuncInfo) -> int:
    """Stores ``T[m] = V`` whose index is the loop variable of an enclosing
    ``for m in X.machines``: V (without T[m] itself) or a guard between the
    loop and the store must depend on m, unless V is a constant."""
    chk = ctx.chk
    defs = ctx.flow.defs(fi)
    parents = fi.module.parents
    n = 0

    def mentions(e, name, depth=0, skip=None):
        for x in ast.walk(e):
            if skip is not None and isinstance(x, ast.Subscript) and ast.unparse(x) == skip:
                continue
            if isinstance(x, ast.Name):
                if x.id == name:
                    # the occurrence inside the skipped T[m] does not count
                    par = parents.get(x)
                    if skip is not None and isinstance(par, ast.Subscript) and ast.unparse(par) == skip:
                        continue
                    return True
                if depth < 5:
                    for d in defs.of(x.id):
                        if d[0] == "value" and d[1] is not e and mentions(d[1], name, depth + 1, skip):
                            return True
        return False

    for st in own_nodes(fi.node):
        if not isinstance(st, (ast.Assign, ast.AugAssign)):
            continue
        tg = st.targets[0] if isinstance(st, ast.Assign) else st.target
        if not (isinstance(tg, ast.Subscript) and isinstance(tg.slice, ast.Name) and isinstance(tg.value, ast.Name)):
            continue
        m = tg.slice.id
        # enclosing for m in <...>.machines
        cur, loop, guards = parents.get(st), None, []
        while cur is not None and cur is not fi.node:
            if isinstance(cur, ast.For) and any(isinstance(x, ast.Name) and x.id == m for x in ast.walk(cur.target)):
                loop = cur
                break
            if isinstance(cur, (ast.If, ast.While)):
                guards.append(cur.test)
            cur = parents.get(cur)
        if loop is None:
            continue
        # the loop walks machine ids: `for m in <op>.machines`, or pairs
        # (operation, m) produced by a helper / zip / product over them
        machine_loop = (isinstance(loop.iter, ast.Attribute) and loop.iter.attr == "machines") or (
            isinstance(loop.target, ast.Tuple) and "machine" in m.lower())
        if not machine_loop:
            continue
        n += 1
        v = st.value
        if isinstance(v, ast.Constant) and not guards:
            chk.violation(
                "R07.f", fi, st,
                f"every machine of the operation gets the constant `{ast.unparse(v)}` unconditionally: the table no "
                "longer depends on when the operation can start on that machine",
                loc=fi.loc(st),
            )
            continue
        skip = ast.unparse(tg)
        # a guard that only compares with the entry being replaced (`if v < T[m]:`,
        # the running-minimum idiom) says nothing about where v comes from
        dep = (not isinstance(v, ast.Constant) and mentions(v, m, skip=skip)) or any(mentions(g, m, skip=skip) for g in guards)
        if dep:
            chk.ok("R07.f", fi.qualname, fi.loc(st), f"`{skip}` is computed from `{m}`")
        else:
            chk.violation(
                "R07.f", fi, st,
                f"`{skip}` is filled with `{ast.unparse(v)[:70]}`, which does not depend on machine `{m}`: start and end "
                "times differ per machine (each machine has its own next-available time), so the per-machine table "
                "holds values of other machines and the filter prunes/keeps the wrong operations",
                loc=fi.loc(st),
            )
    return n


def _fmt(origins):
    out = []
    for o in list(origins)[:3]:
        if o[0] == "param":
            out.append(f"parameter {o[1]}")
        elif o[0] == "attr":
            out.append(f"{o[1]}.{'.'.join(o[2])}")
        elif o[0] == "cached":
            out.append(f"cached result of {o[1].split('.')[-1]}")
        elif o[0] == "elem":
            out.append("element of " + _fmt([o[1]]))
        else:
            out.append(str(o[0]))
    return ", ".join(out)


def _filter_list(ctx, comp_factory: FuncInfo):
    """The composite's filter list must be built from *every* requested name."""
    p = comp_factory.params[0]
    for n in own_nodes(comp_factory.node):
        if isinstance(n, ast.Assign) and len(n.targets) == 1 and isinstance(n.targets[0], ast.Name):
            v = n.value
            if isinstance(v, ast.ListComp) and len(v.generators) == 1:
                g = v.generators[0]
                if isinstance(g.iter, ast.Name) and g.iter.id == p:
                    if g.ifs:
                        return False, n.targets[0].id, "the composite drops some of the requested filters (conditional comprehension)"
                    return True, n.targets[0].id, ""
                if isinstance(g.iter, ast.Subscript) and isinstance(g.iter.value, ast.Name) and g.iter.value.id == p:
                    return False, n.targets[0].id, "the composite iterates over a slice of the requested filters"
            one_shot = (
                isinstance(v, ast.GeneratorExp)
                or (isinstance(v, ast.Call) and dotted(v.func) in ("map", "filter", "iter", "zip", "reversed"))
            )
            if one_shot and any(isinstance(x, ast.Name) and x.id == p for x in ast.walk(v)):
                return False, n.targets[0].id, (
                    f"the filter list is a one-shot iterator (`{ast.unparse(v)[:60]}`) consumed by the first call "
                    "of the composite: every later call applies no filter at all"
                )
            if isinstance(v, ast.Call) and dotted(v.func) in ("list", "tuple") and v.args and isinstance(v.args[0], ast.GeneratorExp):
                g = v.args[0].generators[0]
                if isinstance(g.iter, ast.Name) and g.iter.id == p and not g.ifs:
                    return True, n.targets[0].id, ""
            if isinstance(v, ast.Call) and dotted(v.func) == "list" and v.args and isinstance(v.args[0], ast.Call):
                c = v.args[0]
                if dotted(c.func) == "map" and len(c.args) == 2 and isinstance(c.args[1], ast.Name) and c.args[1].id == p:
                    return True, n.targets[0].id, ""
    raise AnalysisError(f"{comp_factory.qualname}: construction of the filter list not recognised")
