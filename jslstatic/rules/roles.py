"""Names found by the role they play, not by their (private) spelling.

A rename of a private attribute or helper is a behaviour-preserving edit; a
rule that anchors on the private name would answer it with a false alarm or
an ANALYSIS-ERROR.  Public names (properties, methods, classes) are stable
anchors; private ones are derived from them here.
"""

from __future__ import annotations

import ast

from ..repo import AnalysisError, own_nodes
from .common import DISPATCHER


def backing_attr(cls, prop_name: str) -> str | None:
    """``X`` when the public property/method ``prop_name`` of ``cls`` is
    ``return self.X`` (possibly ``return self.X.copy()`` / ``list(self.X)``)."""
    m = cls.methods.get(prop_name)
    if m is None:
        return None
    for r in own_nodes(m.node):
        if isinstance(r, ast.Return) and r.value is not None:
            v = r.value
            if isinstance(v, ast.Call) and isinstance(v.func, ast.Attribute) and v.func.attr == "copy" and not v.args:
                v = v.func.value
            if isinstance(v, ast.Call) and isinstance(v.func, ast.Name) and v.func.id in ("list", "tuple") and len(v.args) == 1:
                v = v.args[0]
            if isinstance(v, ast.Attribute) and isinstance(v.value, ast.Name) and v.value.id == m.params[0]:
                return v.attr
    return None


def dispatcher_roles(ctx) -> dict:
    """mach_free / job_index / job_free: the private lists behind the public
    properties machine_next_available_time / job_next_operation_index /
    job_next_available_time; cache: the dict the memoising decorator uses."""
    got = getattr(ctx, "_dispatcher_roles", None)
    if got is not None:
        return got
    repo = ctx.repo
    disp = repo.find_class(DISPATCHER)
    roles = {}
    for key, prop in (
        ("mach_free", "machine_next_available_time"),
        ("job_index", "job_next_operation_index"),
        ("job_free", "job_next_available_time"),
    ):
        a = backing_attr(disp, prop)
        if a is None:
            raise AnalysisError(f"Dispatcher.{prop}: backing attribute not recognised")
        roles[key] = a
    # the memoising decorator(s): module-level functions used as decorators on
    # Dispatcher methods whose inner wrapper stores into a dict attribute of
    # `self`; that attribute is the memo
    cache = None
    decos = []
    used = {d for m in disp.methods.values() for d in m.decorators}
    for name in sorted(used):
        d = disp.module.functions.get(name)
        if d is None:
            # imported from a helper module of the package
            q = repo.resolve(disp.module.name, name)
            d = repo.functions.get(q) if q else None
        if d is None:
            continue
        stores = [
            t.value.attr
            for n in ast.walk(d.node) if isinstance(n, ast.Assign)
            for t in n.targets
            if isinstance(t, ast.Subscript) and isinstance(t.value, ast.Attribute) and isinstance(t.value.value, ast.Name) and t.value.value.id == "self"
        ]
        if stores and any(isinstance(x, ast.FunctionDef) and x is not d.node for x in ast.walk(d.node)):
            decos.append(name)  # the name it is used under (may be an import alias)
            cache = stores[0]
    if cache is None:
        raise AnalysisError("the dispatcher's memoisation dict was not recognised in its cache decorator")
    roles["cache"] = cache
    roles["cache_decorators"] = list(decos)
    ctx._dispatcher_roles = roles
    return roles


def schedule_attr(ctx) -> str:
    """The private list behind the public ``Schedule.schedule`` property."""
    sched = ctx.repo.find_class("Schedule")
    return backing_attr(sched, "schedule") or "schedule"


def machine_id_attr(ctx) -> str:
    """The private field behind ``ScheduledOperation.machine_id``."""
    sop = ctx.repo.find_class("ScheduledOperation")
    return backing_attr(sop, "machine_id") or "machine_id"


def node_counter_attr(ctx) -> str:
    """The id counter of JobShopGraph: the attribute its constructor sets to an
    integer constant and that is then advanced in place (``+=``)."""
    g = ctx.repo.find_class("JobShopGraph")
    init, addn = g.methods.get("__init__"), g.methods.get("add_node")
    if init is None or addn is None:
        raise AnalysisError("JobShopGraph.__init__/add_node vanished")
    zeros = {
        t.attr for n in own_nodes(init.node) if isinstance(n, (ast.Assign, ast.AnnAssign)) and n.value is not None
        and isinstance(n.value, ast.Constant) and isinstance(n.value.value, int) and not isinstance(n.value.value, bool)
        for t in (n.targets if isinstance(n, ast.Assign) else [n.target])
        if isinstance(t, ast.Attribute) and isinstance(t.value, ast.Name) and t.value.id == "self"
    }
    cands = set()
    for f in [addn] + [m for m in g.methods.values() if m is not addn and m is not init]:
        for n in own_nodes(f.node):
            t = n.target if isinstance(n, ast.AugAssign) else n.targets[0] if isinstance(n, ast.Assign) and len(n.targets) == 1 else None
            if isinstance(t, ast.Attribute) and isinstance(t.value, ast.Name) and t.value.id == "self" and t.attr in zeros:
                cands.add(t.attr)
    if len(cands) != 1:
        raise AnalysisError(f"JobShopGraph: node id counter not recognised ({sorted(cands)})")
    return cands.pop()
