"""C14 - serialisation and views (structural clauses).

R14.a  instances are never modified: outside the constructors/numbering of
       ``JobShopInstance``/``Operation`` nothing in the package stores to an
       attribute of an instance or operation, nor mutates (directly, through
       local aliases, ndarray views, observer feature tables, or by passing
       it to a function that mutates that parameter) ``instance.jobs``,
       ``operation.machines`` or any cached derived view.
R14.b  writer/reader key agreement: keys of ``JobShopInstance.to_dict`` are
       parameter names of ``from_matrices`` (called as ``from_matrices(**d)``)
       and carry the matching value; keys of ``Schedule.to_dict`` are the
       parameters of ``Schedule.from_dict``; keys read by the benchmark loader
       are keys ``to_dict`` writes.
R14.c  never a hang: every iteration of the ``while`` in
       ``Schedule.from_job_sequences`` either dispatches at least once or
       raises ValidationError.
R14.d  numbering: ``set_operation_attributes`` assigns job_id / position from
       the enumeration indices and a running operation id starting at 0 that
       grows by one per operation, in job-major order.
R14.f  the instance's derived views are not accumulated with a numpy ufunc
       read-modify-write through a non-scalar index (``a[ids] = np.maximum(
       a[ids], d)`` keeps one write per repeated id).
R14.e  ``Schedule.to_dict`` emits each machine's job ids in list order: no
       reordering operator other than a stable sort on start_time[, end_time]
       (the identity on dispatcher-built lists).
R14.g  no function of these modules modifies the object of a mutable default
       argument (directly, through a local alias, or with ``+=``): the result
       of a call must not depend on earlier calls.
R14.i  integer-valued views of the instance (job durations, loads, maxima ...)
       are not computed from its float32, NaN-padded ``*_array`` views.
R14.h  no for-loop variable of these modules is read after its loop (a statement
       left one indentation level too shallow sees only the last element).
"""

from __future__ import annotations

import ast

from ..dataflow import is_shared
from ..lifecycle import Lifecycle
from ..repo import AnalysisError, FuncInfo, dotted, own_nodes
from .common import reorder_ops, source_pos, step_of

MANIFEST = {
    "text": (
        "Decides the immutability, key-agreement and termination clauses of "
        "C14: a package-wide typed sweep of every write site shows that no "
        "dispatcher, solver, observer, graph builder, environment or view "
        "helper stores into an instance/operation or mutates instance.jobs, "
        "operation.machines or a cached derived view - followed through local "
        "aliases, ndarray views, feature tables that alias a view, and "
        "parameters of mutating callees; the dictionary writers and readers "
        "agree on their keys; each pass of from_job_sequences' loop dispatches "
        "or raises, so it cannot hang; operation ids are dense in job-major "
        "order; Schedule.to_dict emits each machine list in list order (no "
        "reordering). Not decided: the values of the derived views and round-trip "
        "equality."
        " Also decided: no function of these modules accumulates into a mutable default argument."
        " Also decided: no for-loop variable of these modules is read after its loop (statement left one indentation level too shallow)."
        " Also decided: no attribute of any object is bound to instance data in one method and modified in place through that attribute in another; the Taillard reader builds one job per line (pooled numbers cut by computed bounds are reported); no per-job / per-operation view is accumulated over operations_by_machine."
        " Also decided: the dictionary writer / reader pair and the Operation constructor do not reorder or de-duplicate machine lists; a key-by-key reader of a schedule's embedded instance reads every key to_dict writes."
    ),
    "note": "Transformation.__call__ renaming an instance that apply returned unchanged is reported as an observation (outside C14's list of actors). Alias model as in C05.",
    "technique": "typed who-may-write sweep with interprocedural alias analysis + dictionary key agreement + loop progress (must-dispatch-or-raise) path check",
    "ref": "DESIGN.md §3 C14",
}
UNDECIDED = [
    "values of the derived views equal their definitions; to_dict/from_dict and Taillard round trips reproduce equal objects (values)",
    "job sequences are rejected exactly when cyclic (the loop's progress clause is decided; exactness of rejection is value-level)",
]
ASSUMPTIONS = ["no reflection (setattr/__dict__) on the analysed classes - checked in C05"]

INSTANCE_DATA = {"jobs", "machines", "metadata"}
BUILDERS = {
    "JobShopInstance.__init__", "JobShopInstance.set_operation_attributes", "JobShopInstance.from_matrices",
    "JobShopInstance.from_taillard_file", "Operation.__init__",
}


def _cached_views(ctx, inst):
    return {m.qualname for m in inst.methods.values() if any(d.endswith("cached_property") for d in m.decorators)}


def _unwrap(o):
    while o[0] == "elem":
        o = o[1]
    if o[0] == "attrof":
        return _unwrap(o[1])
    return o


def _integer_views_not_from_float_arrays(ctx):
    """R14.i - the padded ``*_array`` views are float32 (24-bit mantissa) and
    NaN-padded; an integer-valued view (job durations, total duration, loads,
    maxima, counts) computed *from* them is rounded above 2**24 and no longer
    equals its definition.  No property of the instance other than the array
    views themselves reads an array view."""
    chk, repo = ctx.chk, ctx.repo
    chk.rule("R14.i", "integer-valued views of the instance are not derived from its float32 NaN-padded *_array views")
    inst = repo.find_class("JobShopInstance")
    n = 0
    bad = False
    for name, m in sorted(inst.methods.items()):
        if name.endswith("_array") or name.startswith("__") or not m.params:
            continue
        n += 1
        me = m.params[0]
        for x in own_nodes(m.node):
            if isinstance(x, ast.Attribute) and isinstance(x.value, ast.Name) and x.value.id == me and x.attr.endswith("_array") and isinstance(x.ctx, ast.Load):
                pt = inst.methods.get(x.attr)
                if pt is None:
                    continue
                bad = True
                chk.violation(
                    "R14.i", m, x,
                    f"`{name}` is computed from `self.{x.attr}`, a float32 (NaN-padded) view: sums and values above 2**24 are rounded, "
                    "so the integer view no longer equals its definition for long durations",
                    loc=m.loc(x),
                )
                break
    if not bad:
        chk.ok("R14.i", inst.qualname, "", f"{n} non-array members, none reads a float32 array view")


def run(ctx):
    chk, repo = ctx.chk, ctx.repo
    ctx.attempt(_integer_views_not_from_float_arrays, ctx)
    from .common import check_loop_variable_leaks

    check_loop_variable_leaks(ctx, "R14.h", ("job_shop_lib._schedule", "job_shop_lib._job_shop_instance", "job_shop_lib._operation", "job_shop_lib._scheduled_operation", "job_shop_lib.benchmarking"), "the data-structure / serialisation")
    from .common import check_mutable_defaults

    check_mutable_defaults(ctx, "R14.g", ("job_shop_lib._schedule", "job_shop_lib._job_shop_instance", "job_shop_lib._operation", "job_shop_lib._scheduled_operation", "job_shop_lib.benchmarking"), "the data-structure / serialisation")
    for rid, txt in (
        ("R14.a", "no write to an instance/operation attribute, instance.jobs, operation.machines or a cached derived view outside the instance's own constructors"),
        ("R14.f", "no derived view of the instance is accumulated with `a[ids] = f(a[ids], ...)` over an id list that can contain repeats"),
        ("R14.e", "Schedule.to_dict emits each machine's job ids in list order (no reordering other than a stable chronological sort)"),
        ("R14.b", "dictionary writers and readers agree on keys (to_dict <-> from_matrices / from_dict / benchmark loader)"),
        ("R14.c", "each iteration of from_job_sequences' loop dispatches at least once or raises ValidationError"),
        ("R14.d", "set_operation_attributes: job_id/position from enumeration, operation_id dense from 0 in job-major order"),
    ):
        chk.rule(rid, txt)
    inst = repo.find_class("JobShopInstance")
    op = repo.find_class("Operation")
    views = _cached_views(ctx, inst)
    chk.analysed["cached_views"] = sorted(v.split(".")[-1] for v in views)
    if len(views) < 10:
        raise AnalysisError(f"only {len(views)} cached views found on JobShopInstance (floor 10)")
    lc = Lifecycle(ctx)
    eff, flow = ctx.effects, ctx.flow

    def is_builder(fi: FuncInfo):
        top = fi
        while top.parent is not None:
            top = top.parent
        key = f"{top.cls.name}.{top.name}" if top.cls else top.name
        return key in BUILDERS

    def protected(fi, obj, rc):
        """Why the object denoted by ``obj`` is instance data, or None."""
        for o in flow.origins(fi, obj, rc):
            b = _unwrap(o)
            if b[0] == "cached" and b[1] in views:
                return f"the cached view instance.{b[1].split('.')[-1]}"
        # instance.jobs / operation.machines through aliases
        seen = set()

        def expand(e, depth=0):
            if depth > 6:
                return
            yield e
            if isinstance(e, ast.Name) and e.id not in seen:
                seen.add(e.id)
                for kind, value, _ in flow.defs(fi).of(e.id):
                    if kind in ("value", "elem", "unpack"):
                        yield from expand(value, depth + 1)
            elif isinstance(e, (ast.Attribute, ast.Subscript)):
                yield from expand(e.value, depth + 1)
            elif isinstance(e, ast.Call):
                f = e.func
                if isinstance(f, ast.Attribute) and f.attr in ("reshape", "ravel", "view", "squeeze", "transpose"):
                    yield from expand(f.value, depth + 1)
                elif isinstance(f, ast.Name) and f.id in ("reversed", "enumerate", "iter", "zip") and e.args:
                    for a in e.args:
                        yield from expand(a, depth + 1)

        for e in expand(obj):
            if isinstance(e, ast.Attribute) and e.attr in INSTANCE_DATA:
                cls = ctx.res.classes_of(fi, e.value, rc)
                if e.attr in ("jobs", "metadata") and any(repo.is_subclass(c, inst.qualname) for c in cls):
                    return f"instance.{e.attr}"
                if e.attr == "machines" and any(repo.is_subclass(c, op.qualname) for c in cls):
                    return "operation.machines"
        return None

    # ---------------------------------------------------------------- R14.a
    try:
        transformation = repo.find_class("Transformation")
    except AnalysisError:
        transformation = None
    n_sites = 0
    n_funcs = 0
    param_mutators: dict[str, set[int]] = {}
    for fi in repo.all_functions():
        if isinstance(fi.node, ast.Lambda):
            continue
        n_funcs += 1
        rc = fi.cls
        if not is_builder(fi):
            mp = lc.mutated_params(fi, rc)
            if mp:
                param_mutators[fi.qualname] = mp
        for ev in eff.events(fi, rc):
            if ev.kind != "write":
                continue
            d = ev.data
            tgt = d.get("target")
            if d.get("op") == "loopvar":
                continue
            n_sites += 1
            if is_builder(fi):
                continue
            # (1) attribute store on an instance / operation
            if isinstance(tgt, ast.Attribute) and d.get("op") in ("assign", "augassign", "del"):
                if isinstance(tgt.value, ast.Name) and fi.params and tgt.value.id == fi.params[0] and (fi.is_classmethod or fi.name in ("__init_subclass__", "__class_getitem__")):
                    continue  # `cls.<x> = ...`: an attribute of the class object, not of an instance
                cls = ctx.res.classes_of(fi, tgt.value, rc)
                hit = [c for c in cls if repo.is_subclass(c, inst.qualname) or repo.is_subclass(c, op.qualname)]
                if hit and not (isinstance(tgt.value, ast.Name) and ctx.res._is_self(fi, tgt.value) and fi.cls is not None and fi.cls.qualname in (inst.qualname, op.qualname) and fi.name in ("__init__",)):
                    kind = "instance" if repo.is_subclass(hit[0], inst.qualname) else "operation"
                    if transformation is not None and fi.cls is not None and repo.is_subclass(fi.cls.qualname, transformation.qualname):
                        chk.notes.append(f"observation: {fi.loc(ev.node)} {fi.qualname} stores `{ast.unparse(tgt)}` on an {kind} (transformations are outside C14's list of actors)")
                        continue
                    if isinstance(tgt.value, ast.Name) and ctx.res._is_self(fi, tgt.value) and tgt.attr in ("__dict__",):
                        continue
                    # an object the function has just created itself (a copy being
                    # filled in) is nobody else's yet
                    origins = ctx.flow.origins(fi, tgt.value, rc)
                    if origins and all(o[0] in ("fresh", "freshattr", "elemfresh") for o in origins):
                        continue
                    chk.violation(
                        "R14.a", fi, ev.node,
                        f"`{d.get('text')}` stores to attribute `{tgt.attr}` of the {kind} it was given: the caller's "
                        f"{kind} is modified",
                        loc=ev.loc,
                    )
                    continue
            obj = eff.mutated_object(ev)
            if obj is None:
                continue
            why = protected(fi, obj, rc)
            if why:
                chk.violation(
                    "R14.a", fi, ev.node,
                    f"`{d.get('text')}` mutates {why} in place: the instance handed to {fi.name} is modified "
                    "(every other user of the instance and its cached views sees the change)",
                    loc=ev.loc,
                )
    # (2) instance data passed to a function that mutates that parameter
    for fi in repo.all_functions():
        if isinstance(fi.node, ast.Lambda) or is_builder(fi):
            continue
        for ev, t, trc in eff.calls(fi, fi.cls):
            idxs = param_mutators.get(t.qualname)
            if not idxs:
                continue
            for i in idxs:
                arg = lc._arg_expr(ev, t, i)
                if arg is None:
                    continue
                why = protected(fi, arg, fi.cls)
                if why:
                    chk.violation(
                        "R14.a", fi, ev.node,
                        f"passes {why} to {t.name}, which mutates its parameter `{t.params[i]}` in place: the "
                        "instance's data / cached view is modified",
                        loc=fi.loc(ev.node),
                    )
    # (3) feature tables must not alias a cached view (they are zeroed and
    #     updated in place)
    fo = repo.find_class("FeatureObserver")
    n_feat = 0
    for c in repo.subclasses(fo.qualname):
        for m in c.methods.values():
            for n in own_nodes(m.node):
                vals = []
                if isinstance(n, ast.Assign):
                    for t in n.targets:
                        if isinstance(t, ast.Subscript) and ast.unparse(t.value) == "self.features":
                            vals.append(n.value)
                        elif isinstance(t, ast.Attribute) and t.attr == "features" and ast.unparse(t.value) == "self":
                            if isinstance(n.value, ast.DictComp):
                                vals.append(n.value.value)
                            elif isinstance(n.value, ast.Dict):
                                vals += list(n.value.values)
                for v in vals:
                    n_feat += 1
                    for o in flow.origins(m, v, c):
                        b = _unwrap(o)
                        if b[0] == "cached" and b[1] in views:
                            chk.violation(
                                "R14.a", m, n,
                                f"a feature table is bound to (a view of) the cached instance.{b[1].split('.')[-1]} "
                                "without copying: the in-place feature updates and the zeroing on reset overwrite "
                                "the instance's own array",
                                loc=m.loc(n),
                            )
    # (4) an attribute of any object bound to a cached view / instance data
    #     without a copy, and modified in place through that attribute by
    #     some method of the class (two sites that each look fine alone)
    n_fields = 0
    for c in repo.classes.values():
        if c.qualname in (inst.qualname, op.qualname):
            continue
        bound: dict[str, tuple] = {}
        for m in c.methods.values():
            if not m.params:
                continue
            me = m.params[0]
            for n in own_nodes(m.node):
                if isinstance(n, ast.Assign):
                    pairs = [(t, n.value) for t in n.targets]
                elif isinstance(n, ast.AnnAssign) and n.value is not None:
                    pairs = [(n.target, n.value)]
                else:
                    continue
                for t, v in pairs:
                    if not (isinstance(t, ast.Attribute) and isinstance(t.value, ast.Name) and t.value.id == me):
                        continue
                    n_fields += 1
                    why = protected(m, v, c)
                    if why:
                        bound.setdefault(t.attr, (why, m, n))
        if not bound:
            continue
        for k2 in [c] + repo.subclasses(c.qualname, strict=True):
            for m in k2.methods.values():
                if not m.params:
                    continue
                for ev in eff.events(m, k2):
                    if ev.kind != "write" or ev.data.get("op") == "loopvar":
                        continue
                    obj = eff.mutated_object(ev)
                    if obj is None:
                        continue
                    for o in flow.origins(m, obj, k2):
                        b = _unwrap(o)
                        if b[0] == "attr" and b[1] == m.params[0] and b[2] and b[2][0] in bound:
                            why, m0, n0 = bound[b[2][0]]
                            chk.violation(
                                "R14.a", m, ev.node,
                                f"`{ev.data.get('text')}` modifies `self.{b[2][0]}` in place, and {m0.name} binds that attribute "
                                f"to {why} without copying ({m0.loc(n0)}): the instance's own data is overwritten and every "
                                "later user of the instance (a second dispatcher, the next episode) sees the change",
                                loc=ev.loc,
                            )
                            break
    chk.analysed["attribute_bindings_swept"] = n_fields
    chk.analysed["write_sites_swept"] = n_sites
    chk.analysed["functions_swept"] = n_funcs
    chk.analysed["feature_table_bindings"] = n_feat
    if n_sites < 150:
        raise AnalysisError(f"only {n_sites} write sites swept (floor 150)")
    if not any(i["rule"] == "R14.a" for i in chk.instances):
        chk.ok("R14.a", "package", "", f"{n_sites} write sites in {n_funcs} functions, {n_feat} feature-table bindings: none touches instance data")
    # positive control: the matcher must see the numbering writes
    soa = inst.methods.get("set_operation_attributes")
    if soa is None or not any(
        e.kind == "write" and isinstance(e.data.get("target"), ast.Attribute) and e.data["target"].attr == "operation_id"
        for e in eff.events(soa, inst)
    ):
        raise AnalysisError("positive control failed: set_operation_attributes' stores not recognised as writes to operations")

    # ---------------------------------------------------------------- R14.b
    ctx.attempt(_keys, ctx, inst)
    # ---------------------------------------------------------------- R14.c
    ctx.attempt(_no_hang, ctx)
    # ---------------------------------------------------------------- R14.d
    ctx.attempt(_numbering, ctx, soa)
    from .common import check_per_machine_double_count

    ctx.attempt(check_per_machine_double_count, ctx, "R14.k", (inst.module.name,), "the instance's derived views")
    ctx.attempt(_machine_lists_kept, ctx, inst, op)
    # ---------------------------------------------------------------- R14.j
    ctx.attempt(_taillard_reader, ctx, inst, op)


def _machine_lists_kept(ctx, inst, op):
    """R14.l - the dictionary writer / reader pair and the Operation
    constructor keep the machine alternatives of an operation as given: no
    sort, no set(), no reversal on the way (an operation's `machines` list is
    ordered content: `[2, 0]` and `[0, 2]` are different operations for
    equality, and the round trip must reproduce the same operations)."""
    chk = ctx.chk
    chk.rule("R14.l", "from_matrices / to_dict / the matrix views / Operation.__init__ do not reorder or de-duplicate machine lists")
    units = [(inst, n) for n in ("from_matrices", "to_dict", "machines_matrix", "durations_matrix")] + [(op, "__init__")]
    n = 0
    for c, name in units:
        m = ctx.repo.method(c, name)
        if m is None:
            continue
        n += 1
        f = ctx.norm.flat(m, depth=3)
        hits = [(f, nd, w) for nd, w in reorder_ops(f.node)]
        # private helpers it calls from places the normaliser does not write out (inside comprehensions)
        for g, rc, via in ctx.effects.closure(m, c, max_depth=2):
            if g is m or isinstance(g.node, ast.Lambda) or not g.name.startswith("_") or g.name.startswith("__"):
                continue
            if g.module is not m.module:
                continue
            hits += [(g, nd, w) for nd, w in reorder_ops(g.node)]
        if hits:
            f, node, what = hits[0]
            chk.violation(
                "R14.l", m, node,
                f"{c.name}.{name} passes operation data through {what} (`{ast.unparse(node)[:70]}`): the order (or multiplicity) of an "
                "operation's machine alternatives / of the matrix rows is content - after the round trip the operations differ",
                loc=f.loc(node),
            )
        else:
            chk.ok("R14.l", m.qualname, m.loc(), "no reordering operator")
    chk.floor("R14.l", n, 4, "serialisation units")


def _taillard_reader(ctx, inst, op):
    """R14.j - the Taillard reader makes one job out of each data line (all of
    that line's numbers): the format has no other job delimiter, and jobs need
    not have the same number of operations."""
    chk, repo = ctx.chk, ctx.repo
    chk.rule("R14.j", "Taillard reader: one job per data line, built from all the numbers of that line (no fixed row length)")
    rd = inst.methods.get("from_taillard_file")
    if rd is None:
        raise AnalysisError("JobShopInstance.from_taillard_file vanished")
    # the reader with everything it delegates to (private helpers, new API)
    funcs, seen, work = [], set(), [(rd, 0)]
    while work:
        f, d = work.pop(0)
        if f.qualname in seen or isinstance(f.node, ast.Lambda):
            continue
        seen.add(f.qualname)
        funcs.append(f)
        if d >= 3:
            continue
        for ev, t, trc in ctx.effects.calls(f, inst if f.cls is not None else None):
            if t.name == "__init__" or t.module.name != rd.module.name and t.cls is not None:
                continue
            if t.cls is not None and t.cls.qualname != inst.qualname:
                continue
            work.append((t, d + 1))
    nodes = [(f, n) for f in funcs for n in own_nodes(f.node)]
    if not any(
        isinstance(n, ast.Call) and repo.resolve(f.module.name, dotted(n.func) or "") == op.qualname for f, n in nodes
    ):
        raise AnalysisError("from_taillard_file: no Operation(...) construction found in the reader or its helpers")

    def is_split(n):
        return isinstance(n, ast.Call) and isinstance(n.func, ast.Attribute) and n.func.attr == "split" and not n.args

    splits = [(f, n) for f, n in nodes if is_split(n)]
    # tokens of several lines pooled into one list: xs.extend(... line.split() ...), xs += ...split()
    pooled = [
        (f, n) for f, n in nodes
        if (isinstance(n, ast.Call) and isinstance(n.func, ast.Attribute) and n.func.attr == "extend" and any(is_split(x) for a in n.args for x in ast.walk(a)))
        or (isinstance(n, ast.AugAssign) and any(is_split(x) for x in ast.walk(n.value)))
    ]
    whole = [
        (f, n) for f, n in nodes
        if isinstance(n, ast.Call) and isinstance(n.func, ast.Attribute) and n.func.attr == "split" and not n.args
        and isinstance(n.func.value, ast.Call) and isinstance(n.func.value.func, ast.Attribute) and n.func.value.func.attr == "read"
    ]
    computed = [
        (f, n) for f, n in nodes
        if isinstance(n, ast.Subscript) and isinstance(n.slice, ast.Slice)
        and any(b is not None and not isinstance(b, (ast.Constant, ast.UnaryOp)) for b in (n.slice.lower, n.slice.upper))
    ]
    if (pooled or whole) and computed:
        f, n = computed[0]
        chk.violation(
            "R14.j", rd, n,
            f"the numbers of all lines are pooled into one list and the jobs are cut out of it with computed bounds (`{ast.unparse(n)}`), "
            "not read line by line: the format delimits jobs by lines only, so jobs of different lengths (or recirculation "
            "with more operations than machines) lose or swap operations on the way back from Taillard text",
            loc=f.loc(n),
        )
        return
    if pooled or whole:
        raise AnalysisError("from_taillard_file: the numbers of several lines are pooled; how jobs are delimited is not recognised")
    # every split is applied to one line: a loop / comprehension variable (possibly stripped) or a helper's parameter
    def one_line(f, n):
        r = n.func.value
        while isinstance(r, ast.Call) and isinstance(r.func, ast.Attribute) and r.func.attr in ("strip", "rstrip", "lstrip"):
            r = r.func.value
        if not isinstance(r, ast.Name):
            return False
        if r.id in f.params:
            return True
        for x in own_nodes(f.node):
            if isinstance(x, ast.For) and any(isinstance(y, ast.Name) and y.id == r.id for y in ast.walk(x.target)):
                return True
            if isinstance(x, ast.comprehension) and any(isinstance(y, ast.Name) and y.id == r.id for y in ast.walk(x.target)):
                return True
            if isinstance(x, ast.NamedExpr) and x.target.id == r.id:
                return True
        return any(kind == "value" and isinstance(v, ast.Call) and isinstance(v.func, ast.Attribute) and v.func.attr in ("strip", "rstrip") for kind, v, _ in ctx.flow.defs(f).of(r.id))

    rows = [(f, n) for f, n in splits if one_line(f, n)]
    if rows and not computed:
        f, n = rows[0]
        chk.ok("R14.j", rd.qualname, f.loc(n), f"each job is built from `{ast.unparse(n)}` of one line; no fixed row length")
    else:
        raise AnalysisError(f"from_taillard_file: how the jobs are cut out of the text is not recognised ({len(splits)} split calls, {len(computed)} computed slices)")


def _dict_returned(fi):
    for n in own_nodes(fi.node):
        if isinstance(n, ast.Return) and isinstance(n.value, ast.Dict):
            return n.value
    return None


def _keys(ctx, inst):
    chk, repo = ctx.chk, ctx.repo
    to_dict, fm = inst.methods.get("to_dict"), inst.methods.get("from_matrices")
    if to_dict is None or fm is None:
        raise AnalysisError("JobShopInstance.to_dict/from_matrices vanished")
    d = _dict_returned(to_dict)
    if d is None:
        raise AnalysisError("JobShopInstance.to_dict does not return a dict literal")
    keys = {k.value: v for k, v in zip(d.keys, d.values) if isinstance(k, ast.Constant)}
    params = [p for p in fm.params if p != "cls"]
    extra = set(keys) - set(params)
    missing = {"duration_matrix", "machines_matrix"} - set(keys)
    if extra:
        chk.violation("R14.b", to_dict, d, f"to_dict writes key(s) {sorted(extra)} that from_matrices(**d) does not accept: the dictionary cannot be read back", loc=to_dict.loc(d))
    elif missing:
        chk.violation("R14.b", to_dict, d, f"to_dict omits {sorted(missing)}: from_matrices(**d) cannot rebuild the operations", loc=to_dict.loc(d))
    else:
        chk.ok("R14.b", to_dict.qualname, to_dict.loc(d), f"keys {sorted(keys)} ⊆ from_matrices parameters")
    want = {"name": "self.name", "duration_matrix": "self.durations_matrix", "machines_matrix": "self.machines_matrix", "metadata": "self.metadata"}
    for k, v in keys.items():
        if k in want and ast.unparse(v) != want[k]:
            chk.violation("R14.b", to_dict, v, f"to_dict stores `{ast.unparse(v)}` under \"{k}\" (expected {want[k]}): the round trip changes the instance", loc=to_dict.loc(v))
    # from_matrices must use each parameter
    src = ast.unparse(fm.node)
    for p in params:
        if src.count(p) < 2:
            chk.violation("R14.b", fm, None, f"from_matrices ignores its parameter `{p}`")
    sched = repo.find_class("Schedule")
    sd, fd = sched.methods.get("to_dict"), sched.methods.get("from_dict")
    d2 = _dict_returned(sd) if sd else None
    if d2 is None or fd is None:
        raise AnalysisError("Schedule.to_dict/from_dict not recognised")
    k2 = {k.value for k in d2.keys if isinstance(k, ast.Constant)}
    if k2 == set(fd.params):
        chk.ok("R14.b", sd.qualname, sd.loc(d2), f"keys {sorted(k2)} = from_dict parameters")
    else:
        chk.violation("R14.b", sd, d2, f"Schedule.to_dict keys {sorted(k2)} differ from from_dict's parameters {fd.params}", loc=sd.loc(d2))
    # ... and from_dict reads the embedded instance dictionary back completely:
    # either wholesale (`from_matrices(**instance)`) or key by key - then every
    # key JobShopInstance.to_dict writes must be read
    fdf = ctx.norm.flat(fd, depth=3)
    ipar = next((p_ for p_ in fd.params if p_ == "instance"), None)
    if ipar is not None:
        wholesale = any(
            isinstance(c, ast.Call) and any(k.arg is None and isinstance(k.value, ast.Name) and k.value.id == ipar for k in c.keywords)
            for c in own_nodes(fdf.node)
        )
        reads = set()
        for x in own_nodes(fdf.node):
            if isinstance(x, ast.Subscript) and isinstance(x.value, ast.Name) and x.value.id == ipar and isinstance(x.slice, ast.Constant) and isinstance(x.slice.value, str):
                reads.add(x.slice.value)
            elif (
                isinstance(x, ast.Call) and isinstance(x.func, ast.Attribute) and x.func.attr in ("get", "pop") and isinstance(x.func.value, ast.Name)
                and x.func.value.id == ipar and x.args and isinstance(x.args[0], ast.Constant) and isinstance(x.args[0].value, str)
            ):
                reads.add(x.args[0].value)
        if reads and not wholesale:
            lost = set(keys) - reads
            if lost:
                chk.violation(
                    "R14.b", fd, None,
                    f"Schedule.from_dict reads {sorted(reads)} of the embedded instance dictionary but not {sorted(lost)}, which "
                    "JobShopInstance.to_dict writes: the schedule's dictionary round trip loses it (the rebuilt instance gets a default)",
                )
            else:
                chk.ok("R14.b", fd.qualname, fd.loc(), f"embedded instance read key by key: {sorted(reads)}")
    # R14.f: derived views computed with buffered fancy-index updates
    inst = repo.find_class("JobShopInstance")
    n_upd = 0
    for m in inst.methods.values():
        for n in own_nodes(m.node):
            # a[idx] = f(a[idx], ...)   /   a[idx] += ...   with idx an array / list of ids
            tgt = n.targets[0] if isinstance(n, ast.Assign) and len(n.targets) == 1 else n.target if isinstance(n, ast.AugAssign) else None
            if not (isinstance(tgt, ast.Subscript) and not isinstance(tgt.slice, (ast.Slice, ast.Constant))):
                continue
            tt = ast.unparse(tgt)
            # the vectorised read-modify-write idiom: a[idx] = np.<ufunc>(a[idx], ...)
            v = n.value
            ufunc_rmw = (
                isinstance(n, ast.Assign) and isinstance(v, ast.Call) and ast.unparse(v.func).split(".")[0] in ("np", "numpy")
                and any(ast.unparse(a) == tt for a in v.args)
            )
            idx_t = ctx.types.type_of(m.module, tgt.slice) or ""
            scalar = idx_t in ("builtins.int", "int") or (isinstance(tgt.slice, ast.Name) and any(
                isinstance(lp, ast.For) and isinstance(lp.iter, ast.Call) and ast.unparse(lp.iter.func) == "range"
                and any(isinstance(x, ast.Name) and x.id == tgt.slice.id for x in ast.walk(lp.target)) for lp in own_nodes(m.node)))
            if ufunc_rmw and not scalar:
                n_upd += 1
                chk.violation(
                    "R14.f", m, n,
                    f"`{ast.unparse(n)[:90]}` updates an array through an index *list*: numpy evaluates the right-hand side once and "
                    "keeps a single write per repeated index, so when an id occurs twice in the list (a job visiting a machine twice) "
                    "one of the contributions is lost and the derived view differs from its definition (use np.<ufunc>.at)",
                    loc=m.loc(n),
                )
    if n_upd == 0:
        chk.ok("R14.f", inst.qualname, "", "no derived view is accumulated through a fancy-index read-modify-write")
    # R14.e: the emitted job sequences keep the order of the machine lists
    sdf = ctx.norm.flat(sd)
    ops = list(reorder_ops(sdf.node))
    for node, what in ops:
        chk.violation(
            "R14.e", sdf, node,
            f"Schedule.to_dict reorders what it serialises ({what}): operations that tie on that key (zero "
            "durations, same start) come out in another order than they were dispatched, and from_dict rebuilds a "
            "different schedule",
            loc=sdf.loc(node),
        )
    if not ops:
        chk.ok("R14.e", sd.qualname, sd.loc(d2), "job sequences are emitted in machine-list order (no reordering operator)")
    loader = repo.find_function("load_benchmark_instance")
    read = {
        n.slice.value for n in own_nodes(loader.node)
        if isinstance(n, ast.Subscript) and isinstance(n.slice, ast.Constant) and isinstance(n.slice.value, str)
    }
    if read <= set(keys) | {"name"}:
        chk.ok("R14.b", loader.qualname, loader.loc(), f"benchmark loader reads {sorted(read)} ⊆ written keys")
    else:
        chk.violation("R14.b", loader, None, f"benchmark loader reads key(s) {sorted(read - set(keys))} that to_dict never writes")


def _no_hang(ctx):
    chk, repo = ctx.chk, ctx.repo
    sched = repo.find_class("Schedule")
    fjs = sched.methods.get("from_job_sequences")
    if fjs is None:
        raise AnalysisError("Schedule.from_job_sequences vanished")
    entry = fjs
    loops = [n for n in own_nodes(fjs.node) if isinstance(n, ast.While)]
    if not loops:
        # the replay may have become a method of a private helper object
        # ("method object"): the loop is looked for in what from_job_sequences
        # runs, private code of the same module only
        hosts = []
        for f, rc, via in ctx.effects.closure(fjs, sched, max_depth=3):
            if f is fjs or isinstance(f.node, ast.Lambda) or f.module is not fjs.module:
                continue
            if not (f.name.startswith("_") or (f.cls is not None and f.cls.name.startswith("_"))):
                continue
            ws = [n for n in own_nodes(f.node) if isinstance(n, ast.While)]
            if ws:
                hosts.append((f, ws))
        if len(hosts) == 1:
            fjs, loops = hosts[0]
    if len(loops) != 1:
        raise AnalysisError("from_job_sequences: while loop not found exactly once")
    w = loops[0]
    disp = repo.find_class("Dispatcher")
    dispatch = repo.need_method(disp, "dispatch")
    from ..paths import Frame, NEXT, CONTINUE, RAISE, BREAK, RETURN

    eng = ctx.engine(
        relevant=lambda e: e.kind == "raise" or (e.kind == "call" and dispatch in (e.data.get("targets") or [])),
        max_depth=2, unroll=2,
        inline_filter=lambda t: t is not dispatch and (t.cls is None or t.cls.name != "Dispatcher"),
    )
    fr = Frame(fjs, fjs.cls if fjs is not entry else None)
    body_paths = eng._block_paths(w.body, fr)
    n = 0
    bad = False
    for evs, oc in body_paths:
        if not _feasible(evs):
            continue
        n += 1
        if oc in (RAISE, BREAK, RETURN):
            continue
        if not any(e.kind == "call" and dispatch in (e.data.get("targets") or []) for e in evs):
            # dispatching as a side effect of a comprehension's element / filter
            # expression: its iterations are not enumerated as paths, and a
            # progress test that counts the outcomes is beyond this engine
            for comp in [x for st_ in w.body for x in ast.walk(st_) if isinstance(x, (ast.ListComp, ast.GeneratorExp, ast.SetComp, ast.DictComp))]:
                for c_ in [x for x in ast.walk(comp) if isinstance(x, ast.Call)]:
                    try:
                        ts_ = ctx.res.callees(fjs, c_, fjs.cls)[0]
                    except Exception:
                        ts_ = []
                    for t_ in ts_:
                        if t_ is dispatch or any(f_ is dispatch for f_, _rc, _via in ctx.effects.closure(t_, t_.cls, max_depth=2)):
                            raise AnalysisError(
                                f"{fjs.loc(comp)}: from_job_sequences dispatches inside a comprehension (`{ast.unparse(c_)[:50]}`) and "
                                "tests progress by counting its results; the iterations of a comprehension are not enumerated as paths, "
                                "so termination of the replay loop is not decided"
                            )
            bad = True
            chk.violation(
                "R14.c", fjs, w,
                "a pass through the loop body can finish without dispatching anything and without raising: with "
                "job sequences that admit no schedule the loop spins forever",
                loc=fjs.loc(w), path=[e.short() for e in evs if e.kind != "branch"][:20],
            )
            break
    if not bad:
        chk.ok("R14.c", fjs.qualname, fjs.loc(w), f"{n} paths through one iteration: each dispatches or raises")
    test = ast.unparse(w.test)
    if "is_complete()" not in test and not _counts_to_completion(ctx, fjs, w):
        raise AnalysisError("from_job_sequences: loop condition not recognised")


def _counts_to_completion(ctx, fjs, w) -> bool:
    """``while n != <number of operations>`` with ``n`` a local that starts at 0
    and is advanced by one exactly where an operation is dispatched: the loop
    ends when everything is scheduled, like ``while not is_complete()``."""
    t = w.test
    if not (isinstance(t, ast.Compare) and len(t.ops) == 1 and isinstance(t.ops[0], (ast.NotEq, ast.Lt)) and isinstance(t.left, ast.Name)):
        return False
    n = t.left.id
    total = ctx.norm.xtext(fjs, t.comparators[0]).replace(" ", "")
    if not total.endswith("instance.num_operations"):
        return False
    defs = [d for d in ctx.flow.defs(fjs).of(n) if d[0] == "value"]
    if len(defs) != 1 or not (isinstance(defs[0][1], ast.Constant) and defs[0][1].value == 0):
        return False
    incs = [x for x in ast.walk(w) if isinstance(x, ast.AugAssign) and isinstance(x.target, ast.Name) and x.target.id == n]
    if not incs or not all(isinstance(x.op, ast.Add) and isinstance(x.value, ast.Constant) and x.value.value == 1 for x in incs):
        return False
    other = [x for x in ast.walk(w) if isinstance(x, ast.Assign) and any(isinstance(tg, ast.Name) and tg.id == n for tg in x.targets)]
    if other:
        return False

    def block_of(node, root):
        for p in ast.walk(root):
            for fld in ("body", "orelse", "finalbody"):
                blk = getattr(p, fld, None)
                if isinstance(blk, list) and any(b is node for b in blk):
                    return blk
        return None

    disp_stmts = [
        st for st in ast.walk(w)
        if isinstance(st, ast.Expr) and isinstance(st.value, ast.Call) and isinstance(st.value.func, ast.Attribute) and st.value.func.attr == "dispatch"
    ]
    if not disp_stmts or len(disp_stmts) != len(incs):
        return False
    for d in disp_stmts:
        blk = block_of(d, w)
        if blk is None or sum(1 for x in blk if x in incs) != 1:
            return False
    return True


def _feasible(evs) -> bool:
    """Prunes paths that contradict a local boolean flag's constant value
    (flag = False ... if not flag: taken False), also when the flag is
    returned by an inlined helper."""
    env: dict[tuple, bool] = {}
    last_ret: dict[int, bool] = {}
    # snapshots of a counter: `before = n` ... `n += 1` ... `if n == before`
    # snap[(frame, before)] = [n, grown since the snapshot?]
    snap: dict[tuple, list] = {}
    # samples of the schedule's operation count: `before = D.schedule.num_scheduled_operations`
    # ... dispatch ... `now = <same>`; `if now == before`.  Every accepted dispatch adds exactly one
    # operation (pinned API), so two samples are equal iff no dispatch lies between them.
    esnap: dict[tuple, tuple] = {}
    ndisp = 0

    def count_expr(x):
        if isinstance(x, ast.Call) and not x.args and not x.keywords:
            x = x.func
        if isinstance(x, ast.Attribute) and x.attr == "num_scheduled_operations":
            return ast.unparse(x)
        return None

    for e in evs:
        fid = e.frame.id
        if e.kind == "call" and any(getattr(t, "name", "") == "dispatch" and getattr(getattr(t, "cls", None), "name", "") == "Dispatcher" for t in (e.data.get("targets") or [])):
            ndisp += 1
        if e.kind == "write" and e.data.get("local"):
            st = e.node
            if isinstance(st, (ast.Assign, ast.AnnAssign)):
                tg_ = st.targets[0] if isinstance(st, ast.Assign) and len(st.targets) == 1 else getattr(st, "target", None)
                if isinstance(tg_, ast.Name):
                    ce = count_expr(st.value) if st.value is not None else None
                    if ce is not None:
                        esnap[(fid, tg_.id)] = (ce, ndisp)
                    else:
                        esnap.pop((fid, tg_.id), None)
            if isinstance(st, ast.Assign) and len(st.targets) == 1 and isinstance(st.targets[0], ast.Name) and isinstance(st.value, ast.Name):
                snap[(fid, st.targets[0].id)] = [st.value.id, False]
            elif isinstance(st, ast.AugAssign) and isinstance(st.target, ast.Name) and isinstance(st.op, ast.Add) \
                    and isinstance(st.value, ast.Constant) and isinstance(st.value.value, int) and st.value.value > 0:
                for k, v in snap.items():
                    if k[0] == fid and v[0] == st.target.id:
                        v[1] = True
                snap.pop((fid, st.target.id), None)
            else:
                root = e.data.get("root")
                for k in [k for k, v in snap.items() if k[0] == fid and (k[1] == root or v[0] == root)]:
                    snap.pop(k)
            if isinstance(st, (ast.Assign, ast.AnnAssign)) and isinstance(getattr(st, "targets", [getattr(st, "target", None)])[0], ast.Name):
                tgt = (st.targets[0] if isinstance(st, ast.Assign) else st.target).id
                v = st.value
                if isinstance(v, ast.Constant) and isinstance(v.value, bool):
                    env[(fid, tgt)] = v.value
                elif isinstance(v, ast.Constant) and isinstance(v.value, int) and v.value == 0:
                    env[(fid, tgt)] = "zero"  # a counter that starts at 0
                elif isinstance(v, ast.Call) and id(v) in last_ret:
                    env[(fid, tgt)] = last_ret[id(v)]
                elif isinstance(v, ast.Name) and (fid, v.id) in env:
                    env[(fid, tgt)] = env[(fid, v.id)]
                else:
                    env.pop((fid, tgt), None)
            elif isinstance(st, ast.AugAssign) and isinstance(st.target, ast.Name) and isinstance(st.op, ast.Add) \
                    and isinstance(st.value, ast.Constant) and isinstance(st.value.value, int) and st.value.value > 0 \
                    and env.get((fid, st.target.id)) in ("zero", "pos"):
                env[(fid, st.target.id)] = "pos"  # counter += positive constant
            else:
                env.pop((fid, e.data.get("root")), None)
        elif e.kind == "return" and e.frame.call_node is not None:
            v = e.data.get("value")
            cnt = _counter_test(v, fid, env)
            if isinstance(v, ast.Name) and env.get((fid, v.id)) in ("zero", "pos"):
                # the counter itself is returned: the caller may compare it
                last_ret[id(e.frame.call_node)] = env[(fid, v.id)]
            elif cnt is not None:
                last_ret[id(e.frame.call_node)] = cnt
            elif isinstance(v, ast.Constant) and isinstance(v.value, bool):
                last_ret[id(e.frame.call_node)] = v.value
            elif isinstance(v, ast.Name) and (fid, v.id) in env:
                last_ret[id(e.frame.call_node)] = env[(fid, v.id)]
            else:
                last_ret.pop(id(e.frame.call_node), None)
        elif e.kind == "branch":
            t = e.node
            neg = False
            if isinstance(t, ast.UnaryOp) and isinstance(t.op, ast.Not):
                t, neg = t.operand, True
            def known_of(x):
                if isinstance(x, ast.UnaryOp) and isinstance(x.op, ast.Not):
                    k = known_of(x.operand)
                    return None if k is None else not k
                if isinstance(x, ast.BoolOp):
                    ks = [known_of(v) for v in x.values]
                    if isinstance(x.op, ast.And):
                        if any(k is False for k in ks):
                            return False
                        return True if all(k is True for k in ks) else None
                    if any(k is True for k in ks):
                        return True
                    return False if all(k is False for k in ks) else None
                if isinstance(x, ast.Name) and isinstance(env.get((fid, x.id)), bool):
                    return env[(fid, x.id)]
                if isinstance(x, ast.Call) and id(x) in last_ret:
                    r = last_ret[id(x)]  # the (inlined) call's constant result on this path
                    return (r == "pos") if r in ("zero", "pos") else r
                if (
                    isinstance(x, ast.Compare) and len(x.ops) == 1 and isinstance(x.left, ast.Call) and id(x.left) in last_ret
                    and last_ret[id(x.left)] in ("zero", "pos") and isinstance(x.comparators[0], ast.Constant) and isinstance(x.comparators[0].value, int)
                ):
                    # `self._sweep() == 0` on the counter an inlined step returned
                    pos, k, op = last_ret[id(x.left)] == "pos", x.comparators[0].value, x.ops[0]
                    if isinstance(op, ast.Gt) and k == 0 or isinstance(op, ast.GtE) and k == 1 or isinstance(op, ast.NotEq) and k == 0:
                        return pos
                    if isinstance(op, ast.Eq) and k == 0 or isinstance(op, ast.Lt) and k == 1 or isinstance(op, ast.LtE) and k == 0:
                        return not pos
                if isinstance(x, ast.Compare) and len(x.ops) == 1:
                    def sample(y):
                        if isinstance(y, ast.Name):
                            return esnap.get((fid, y.id))
                        ce = count_expr(y)
                        return (ce, ndisp) if ce is not None else None

                    sa, sb = sample(x.left), sample(x.comparators[0])
                    if sa is not None and sb is not None and sa[0] == sb[0]:
                        op = x.ops[0]
                        if isinstance(op, ast.Eq):
                            return sa[1] == sb[1]
                        if isinstance(op, ast.NotEq):
                            return sa[1] != sb[1]
                        if isinstance(op, ast.Gt):
                            return sa[1] > sb[1]
                        if isinstance(op, ast.Lt):
                            return sa[1] < sb[1]
                        if isinstance(op, ast.GtE):
                            return sa[1] >= sb[1]
                        if isinstance(op, ast.LtE):
                            return sa[1] <= sb[1]
                if isinstance(x, ast.Compare) and len(x.ops) == 1 and isinstance(x.left, ast.Name) and isinstance(x.comparators[0], ast.Name):
                    a, b = x.left.id, x.comparators[0].id
                    for cur, before in ((a, b), (b, a)):
                        sn = snap.get((fid, before))
                        if sn is not None and sn[0] == cur:
                            grown = sn[1]
                            op = x.ops[0]
                            if isinstance(op, ast.Eq):
                                return not grown
                            if isinstance(op, ast.NotEq):
                                return grown
                            if isinstance(op, (ast.Gt, ast.Lt)):
                                # cur > before / before < cur
                                if (isinstance(op, ast.Gt) and cur == a) or (isinstance(op, ast.Lt) and cur == b):
                                    return grown
                            if isinstance(op, (ast.LtE, ast.GtE)):
                                if (isinstance(op, ast.LtE) and cur == a) or (isinstance(op, ast.GtE) and cur == b):
                                    return not grown
                return _counter_test(x, fid, env)

            known = known_of(t)
            if known is not None:
                val = (not known) if neg else known
                if val != e.data["taken"]:
                    return False
    return True


def _counter_test(v, fid, env):
    """Truth of `c > 0` / `c >= 1` / `c != 0` / `c == 0` / `bool(c)` / `c` for a
    local counter known to be zero or positive on this path; None if unknown."""
    if v is None:
        return None
    if isinstance(v, ast.Call) and isinstance(v.func, ast.Name) and v.func.id == "bool" and len(v.args) == 1:
        v = v.args[0]
    if isinstance(v, ast.Name) and env.get((fid, v.id)) in ("zero", "pos"):
        return env[(fid, v.id)] == "pos"
    if isinstance(v, ast.Compare) and len(v.ops) == 1 and isinstance(v.left, ast.Name) and isinstance(v.comparators[0], ast.Constant):
        st = env.get((fid, v.left.id))
        k = v.comparators[0].value
        if st not in ("zero", "pos") or not isinstance(k, int):
            return None
        pos = st == "pos"
        op = v.ops[0]
        if isinstance(op, ast.Gt) and k == 0 or isinstance(op, ast.GtE) and k == 1 or isinstance(op, ast.NotEq) and k == 0:
            return pos
        if isinstance(op, ast.Eq) and k == 0 or isinstance(op, ast.Lt) and k == 1 or isinstance(op, ast.LtE) and k == 0:
            return not pos
    return None


def _numbering(ctx, soa):
    chk = ctx.chk
    fors = [n for n in own_nodes(soa.node) if isinstance(n, ast.For)]
    if len(fors) != 2:
        raise AnalysisError("set_operation_attributes: two nested loops expected")
    outer, inner = sorted(fors, key=source_pos(soa.node))

    def enum(n):
        return (
            isinstance(n.iter, ast.Call) and isinstance(n.iter.func, ast.Name) and n.iter.func.id == "enumerate"
            and isinstance(n.target, ast.Tuple) and len(n.target.elts) == 2
            and not any(k.arg == "start" for k in n.iter.keywords) and len(n.iter.args) == 1
        )

    if not (enum(outer) and enum(inner) and ast.unparse(outer.iter.args[0]) == "self.jobs" and ast.unparse(inner.iter.args[0]) == ast.unparse(outer.target.elts[1])):
        raise AnalysisError("set_operation_attributes: enumerate(self.jobs) / enumerate(job) shape not recognised")
    ji, pi = outer.target.elts[0].id, inner.target.elts[0].id
    opv = inner.target.elts[1].id
    stores = {}
    order = []
    for st in inner.body:
        if isinstance(st, ast.Assign) and isinstance(st.targets[0], ast.Attribute) and ast.unparse(st.targets[0].value) == opv:
            stores[st.targets[0].attr] = ast.unparse(st.value)
            order.append(("store", st.targets[0].attr, st))
        elif isinstance(st, ast.AugAssign):
            order.append(("inc", ast.unparse(st.target), st))
        elif isinstance(st, ast.Assign) and isinstance(st.targets[0], ast.Name) and step_of(ctx, soa, st, st.targets[0].id) is not None:
            order.append(("inc", st.targets[0].id, st))  # x = x + k
    ok = True
    if stores.get("job_id") != ji:
        ok = False
        chk.violation("R14.d", soa, None, f"job_id is set to `{stores.get('job_id')}`, not the job's index")
    if stores.get("position_in_job") != pi:
        ok = False
        chk.violation("R14.d", soa, None, f"position_in_job is set to `{stores.get('position_in_job')}`, not the position in the job")
    cnt = stores.get("operation_id")
    # next(<counter>) with <counter> = itertools.count() / count(0), created once before the loops
    m = None
    for st in inner.body:
        if isinstance(st, ast.Assign) and isinstance(st.targets[0], ast.Attribute) and st.targets[0].attr == "operation_id":
            v = st.value
            if isinstance(v, ast.Call) and isinstance(v.func, ast.Name) and v.func.id == "next" and len(v.args) == 1 and isinstance(v.args[0], ast.Name):
                m = v.args[0].id
    if m is not None:
        gens = [n for n in soa.node.body if isinstance(n, ast.Assign) and isinstance(n.targets[0], ast.Name) and n.targets[0].id == m]
        other_next = [
            n for n in own_nodes(soa.node) if isinstance(n, ast.Call) and isinstance(n.func, ast.Name) and n.func.id == "next"
            and n.args and isinstance(n.args[0], ast.Name) and n.args[0].id == m
        ]
        g = gens[0].value if len(gens) == 1 else None
        start0 = (
            isinstance(g, ast.Call) and ast.unparse(g.func).split(".")[-1] == "count"
            and (not g.args or (isinstance(g.args[0], ast.Constant) and g.args[0].value == 0))
            and (len(g.args) < 2 or (isinstance(g.args[1], ast.Constant) and g.args[1].value == 1))
            and not g.keywords
        )
        if g is None:
            raise AnalysisError("set_operation_attributes: id generator not recognised")
        if not start0:
            ok = False
            chk.violation("R14.d", soa, gens[0], f"operation ids are drawn from `{ast.unparse(g)}`: they do not start at 0 / do not grow by one", loc=soa.loc(gens[0]))
        elif len(other_next) != 1:
            ok = False
            chk.violation("R14.d", soa, None, "the id generator is advanced more than once per operation: ids are not dense")
        if ok:
            chk.ok("R14.d", soa.qualname, soa.loc(), "job-major dense numbering from 0 (itertools.count)")
        return
    init = [n for n in soa.node.body if isinstance(n, ast.Assign) and isinstance(n.targets[0], ast.Name) and n.targets[0].id == cnt]
    incs = [o for o in order if o[0] == "inc" and o[1] == cnt]
    if not (cnt and init and isinstance(init[0].value, ast.Constant) and init[0].value.value == 0):
        ok = False
        chk.violation("R14.d", soa, init[0] if init else None, "operation ids do not start at 0")
    elif len(incs) != 1 or step_of(ctx, soa, incs[0][2], cnt) != 1:
        ok = False
        chk.violation("R14.d", soa, incs[0][2] if incs else None, "the operation id counter does not grow by exactly one per operation: ids are not dense")
    else:
        i_store = next(i for i, o in enumerate(order) if o[0] == "store" and o[1] == "operation_id")
        i_inc = next(i for i, o in enumerate(order) if o[0] == "inc" and o[1] == cnt)
        if i_inc < i_store:
            ok = False
            chk.violation("R14.d", soa, incs[0][2], "the counter is increased before it is assigned: operation ids start at 1, node id != operation id", loc=soa.loc(incs[0][2]))
    if ok:
        chk.ok("R14.d", soa.qualname, soa.loc(), "job-major dense numbering from 0")
