"""C11 - incremental features (thin structural part).

R11.a  composite clause: ``initialize_features`` and ``_set_column_names``
       iterate the same observer list in the same order and nesting; the
       concatenation is along axis 1; the component arrays are read from the
       components on every call (the composite keeps no reference to them
       across calls).
R11.b  update order: every observer whose ``update`` reads another observer
       acquired it before subscribing itself, so it is notified after it
       (this covers the composite after its parts).
R11.c  the FeatureObserverType registry is total and name-consistent.
R11.d  feature observers never use the single-machine accessor
       ``Operation.machine_id`` (it raises for flexible operations, so the
       observer could not be constructed / updated for every valid instance).

The heart of C11 - that each incremental feature value equals its
from-scratch definition after every dispatch - is numerical and is NOT
decided by this check.
R11.f  no for-loop variable of these modules is read after its loop (a statement
       left one indentation level too shallow sees only the last element).
R11.g  no str-Enum value (FeatureType, ...Type) is tested by identity: plain strings
       are accepted for these enums and are equal, not identical, to the member.
R11.h  no closure created in a loop of these modules keeps the loop variable by
       reference (late binding) - every kept closure would see the last value.
"""

from __future__ import annotations

import ast

from ..lifecycle import Lifecycle
from ..repo import AnalysisError, dotted, own_nodes
from .c07 import registry
from .c12 import reset_order
from .common import DISPATCHER, OBSERVER, is_empty_dict, source_pos

MANIFEST = {
    "text": (
        "Thin partial claim. Decides only: the composite observer concatenates, "
        "along axis 1, the feature arrays of its components read afresh on "
        "every call, in the same order and nesting as its column names, into a table that is replaced as a whole (no pre-allocated entries survive); every "
        "observer that reads another in update acquired it before subscribing "
        "(so the composite and the graph updater see current values); the "
        "observer-type registry is total and name-consistent; feature "
        "observers never call the single-machine accessor that raises for "
        "flexible operations. The central clause - each incremental feature "
        "equals its from-scratch definition after every dispatch - is "
        "numerical and is NOT decided."
        " Also decided: no for-loop variable of these modules is read after its loop (statement left one indentation level too shallow)."
        " Also decided: no str-Enum value is tested by identity (plain strings are accepted for these enums)."
        " Also decided: no closure created in a loop keeps the loop variable by reference (late binding)."
        " Also decided: no per-job / per-operation feature is accumulated while walking operations_by_machine (a flexible operation is listed under each of its machines)."
    ),
    "note": "Reset-time re-initialisation of each feature observer is C12's R12.a/R12.b.",
    "technique": "sibling-loop agreement + constructor path linearisation + registry table check + typed accessor lint",
    "ref": "DESIGN.md §3 C11",
}
UNDECIDED = [
    "every incremental feature value equals an independent recomputation after every dispatch (the heart of C11) - numerical",
    "constructibility of every observer for every valid instance beyond the flexible-accessor rule (array shapes are runtime values)",
]
ASSUMPTIONS = ["numpy.concatenate(axis=1) places blocks left to right in list order"]


def run(ctx):
    chk, repo = ctx.chk, ctx.repo
    from .common import check_late_binding

    check_late_binding(ctx, "R11.h", ("job_shop_lib.dispatching.feature_observers",), "the feature-observer")
    from .common import check_str_enum_identity

    check_str_enum_identity(ctx, "R11.g", ("job_shop_lib.dispatching.feature_observers", "job_shop_lib.reinforcement_learning"), "the feature-observer / environment")
    from .common import check_loop_variable_leaks

    check_loop_variable_leaks(ctx, "R11.f", ("job_shop_lib.dispatching.feature_observers",), "the feature-observer")
    from .common import check_per_machine_double_count

    ctx.attempt(check_per_machine_double_count, ctx, "R11.i", ("job_shop_lib.dispatching.feature_observers",), "the feature observers")
    for rid, txt in (
        ("R11.a", "composite: same observer order and nesting for features and column names; axis-1 concatenation; components read afresh each call"),
        ("R11.b", "observers whose update reads another observer acquired it before subscribing"),
        ("R11.c", "FeatureObserverType registry total and name-consistent"),
        ("R11.d", "feature observers never use Operation.machine_id (raises for flexible operations)"),
        ("R11.e", "np.array over one row per job / per machine is guarded by a row-length condition on that same table (constructible for every valid instance)"),
    ):
        chk.rule(rid, txt)
    comp = repo.find_class("CompositeFeatureObserver")
    init_f = comp.methods.get("initialize_features")
    # the method that builds the column names: the one (other than the
    # constructor) that writes `column_names`
    cols = next(
        (m for m in comp.methods.values() if m.name not in ("__init__", "initialize_features")
         and any(isinstance(n, ast.Attribute) and n.attr == "column_names" for n in own_nodes(m.node))
         and any(isinstance(n, ast.For) for n in own_nodes(m.node))),
        None,
    )
    if init_f is not None and cols is None and comp.methods.get("__init__") is not None:
        # the names may be built by the constructor itself, through a helper
        # (possibly a function of another private module): written out
        ci = ctx.norm.flat(comp.methods["__init__"], depth=3)
        if any(isinstance(n, ast.Attribute) and n.attr == "column_names" for n in own_nodes(ci.node)) and any(isinstance(n, ast.For) for n in own_nodes(ci.node)):
            cols = ci
    if init_f is None or cols is None:
        raise AnalysisError("CompositeFeatureObserver.initialize_features/_set_column_names vanished")

    def loops(fi):
        """[(iterable, target)] of the first two loops, with the outer loop's
        variable spelled `$v` so that the comparison between the two methods
        does not depend on how each of them names it"""
        import re as _re

        fs = sorted([n for n in own_nodes(fi.node) if isinstance(n, ast.For)], key=source_pos(fi.node))
        # a parameter that the function also stores as `self.<attr>` is spelled as that attribute
        stored = {}
        for n in own_nodes(fi.node):
            if isinstance(n, ast.Assign) and len(n.targets) == 1 and isinstance(n.value, ast.Name) and n.value.id in fi.params \
                    and isinstance(n.targets[0], ast.Attribute) and isinstance(n.targets[0].value, ast.Name) and n.targets[0].value.id == "self":
                stored[n.value.id] = ast.unparse(n.targets[0])

        def it_text(e):
            return stored.get(e.id, e.id) if isinstance(e, ast.Name) else ast.unparse(e)

        if fi.name == "__init__":
            # of a constructor only the loops that build the names matter
            def names_inside(lp):
                return any(
                    (isinstance(x, ast.Attribute) and x.attr == "column_names") or (isinstance(x, ast.Name) and x.id.startswith("column_names"))
                    for x in ast.walk(lp)
                )
            fs = [n for n in fs if names_inside(n)]
        out = [(it_text(n.iter), ast.unparse(n.target)) for n in fs[:2]]
        if len(out) == 2 and isinstance(fs[0].target, ast.Name):
            v = fs[0].target.id
            pat = r"(?<![A-Za-z0-9_])" + _re.escape(v) + r"(?![A-Za-z0-9_])"
            out = [(out[0][0], "$v"), (_re.sub(pat, "$v", out[1][0]), "$t")]
        elif out:
            out = [(o[0], "$t") for o in out]
        return out

    # component arrays stored on the composite (in any container attribute,
    # filled anywhere but inside initialize_features) go stale as soon as a
    # component replaces its array (DurationObserver on reset, nested
    # composites on every update)
    early_stale = []
    for m0 in comp.methods.values():
        if m0 is init_f:
            continue
        # with the private helpers it delegates to written out (a layout /
        # index computed by a helper and stored by the constructor)
        try:
            m = ctx.norm.flat(m0, depth=3)
        except AnalysisError:
            m = m0
        for lp in own_nodes(m.node):
            if not (isinstance(lp, ast.For) and ast.unparse(lp.iter).replace(" ", "").endswith((".features.items()", ".features.values()"))):
                continue
            tv = [x.id for x in ast.walk(lp.target) if isinstance(x, ast.Name)]
            # the loop variable that holds the array (items(): the second one)
            arr = tv[-1:] if ast.unparse(lp.iter).replace(" ", "").endswith(".items()") and len(tv) > 1 else tv
            for n in ast.walk(lp):
                tgt = val = None
                if isinstance(n, ast.Call) and isinstance(n.func, ast.Attribute) and n.func.attr in ("append", "extend", "add") and n.args:
                    tgt, val = n.func.value, n.args[0]
                elif isinstance(n, ast.Assign) and isinstance(n.targets[0], ast.Subscript):
                    tgt, val = n.targets[0].value, n.value
                if tgt is None or val is None:
                    continue
                # the array itself is stored (bare, or inside a tuple / list /
                # dict entry) - not a number computed from it
                stored = isinstance(val, ast.Name) and val.id in tv or (
                    isinstance(val, (ast.Tuple, ast.List)) and any(isinstance(e, ast.Name) and e.id in arr for e in val.elts)
                )
                if not stored:
                    continue
                root = tgt
                while isinstance(root, (ast.Subscript, ast.Attribute)) and not (isinstance(root, ast.Attribute) and isinstance(root.value, ast.Name) and root.value.id == "self"):
                    root = root.value
                if isinstance(root, ast.Attribute) and isinstance(root.value, ast.Name) and root.value.id == "self" and root.attr not in ("features", "column_names"):
                    early_stale.append((m0, n, root.attr))
                elif isinstance(root, ast.Name):
                    # a local container that the method then stores on the composite
                    for st in own_nodes(m.node):
                        if not isinstance(st, (ast.Assign, ast.AnnAssign)) or st.value is None:
                            continue
                        for t in (st.targets if isinstance(st, ast.Assign) else [st.target]):
                            if (
                                isinstance(t, ast.Attribute) and isinstance(t.value, ast.Name) and t.value.id == "self"
                                and t.attr not in ("features", "column_names")
                                and any(isinstance(x, ast.Name) and x.id == root.id for x in ast.walk(st.value))
                            ):
                                early_stale.append((m0, n, t.attr))
    for m, n, attr in early_stale[:1]:
        chk.violation(
            "R11.a", m, n,
            f"the composite keeps references to its components' feature arrays in `self.{attr}` (filled in {m.name}): a component "
            "that replaces its array (DurationObserver on reset, a nested composite on every update) is no longer reflected, "
            "so the composite differs from the concatenation of its components",
            loc=m.loc(n),
        )
    a, b = loops(init_f), loops(cols)
    if len(a) < 2:
        # the collection may be delegated to a helper (possibly in a helper module)
        fa = loops(ctx.norm.flat(init_f, depth=3))
        if len(fa) == 2:
            a = fa
    if len(b) < 2:
        fb = loops(ctx.norm.flat(cols, depth=3))
        if len(fb) == 2:
            b = fb
    if early_stale and not a:
        a = b
    # both may draw from one shared private generator that walks
    # observers x observer.features.items(): then they agree by construction
    def gen_source(fi):
        fs = [n for n in own_nodes(fi.node) if isinstance(n, ast.For)]
        for n in fs:
            it = n.iter
            if isinstance(it, ast.Call) and isinstance(it.func, ast.Attribute) and isinstance(it.func.value, ast.Name) and it.func.value.id == "self" and not it.args:
                h = repo.method(comp, it.func.attr)
                if h is not None and any(isinstance(y, (ast.Yield, ast.YieldFrom)) for y in ast.walk(h.node)):
                    return h
        return None

    ga, gb = gen_source(init_f), gen_source(cols) if cols is not None else None
    if ga is not None and ga is gb:
        inner = loops(ga)
        if len(inner) == 2 and inner[0][0] == "self.feature_observers" and inner[1][0].endswith(".features.items()"):
            a = b = inner
    # ... or from one shared private method that returns the blocks it collected
    # (per feature type, one entry per component in component order)
    def builder_source(fi):
        if fi is None:
            return None
        its = [n.iter for n in own_nodes(fi.node) if isinstance(n, ast.For)]
        its += [g.iter for n in own_nodes(fi.node) if isinstance(n, (ast.ListComp, ast.DictComp, ast.GeneratorExp, ast.SetComp)) for g in n.generators]
        for it in its:
            c0 = it
            if isinstance(c0, ast.Call) and isinstance(c0.func, ast.Attribute) and c0.func.attr in ("items", "values") and not c0.args:
                c0 = c0.func.value
            if isinstance(c0, ast.Call) and isinstance(c0.func, ast.Attribute) and isinstance(c0.func.value, ast.Name) and c0.func.value.id == "self" and not c0.args:
                h = repo.method(comp, c0.func.attr)
                if h is not None and h.name.startswith("_") and not any(isinstance(y, (ast.Yield, ast.YieldFrom)) for y in ast.walk(h.node)):
                    return h
        return None

    ba, bb = builder_source(init_f), builder_source(cols)
    if ba is not None and ba is bb:
        inner = loops(ba)
        rets = [r.value for r in own_nodes(ba.node) if isinstance(r, ast.Return) and r.value is not None]
        if len(inner) == 2 and inner[0][0] == "self.feature_observers" and inner[1][0].endswith(".features.items()") and len(rets) == 1 and isinstance(rets[0], ast.Name):
            tbl = rets[0].id
            keyed = [
                st for st in own_nodes(ba.node)
                if isinstance(st, ast.Assign) and isinstance(st.targets[0], ast.Subscript) and isinstance(st.targets[0].value, ast.Subscript)
                and isinstance(st.targets[0].value.value, ast.Name) and st.targets[0].value.value.id == tbl
            ]
            appended = [
                st for st in own_nodes(ba.node)
                if isinstance(st, ast.Expr) and isinstance(st.value, ast.Call) and isinstance(st.value.func, ast.Attribute) and st.value.func.attr == "append"
                and isinstance(st.value.func.value, ast.Subscript) and isinstance(st.value.func.value.value, ast.Name) and st.value.func.value.value.id == tbl
            ]
            if keyed:
                chk.violation(
                    "R11.a", ba, keyed[0],
                    f"the blocks of a feature type are kept under a key (`{ast.unparse(keyed[0].targets[0])}`): two components that produce the "
                    "same key (observers of the same class) overwrite each other, so the composite has fewer columns than the "
                    "concatenation of its components",
                    loc=ba.loc(keyed[0]),
                )
                return
            if appended and not keyed:
                a = b = inner
    # follow a helper when initialize_features delegates the collection
    lc = Lifecycle(ctx)
    if not a:
        for f, via in lc.self_closure(init_f, comp):
            if f is not init_f and loops(f):
                a = loops(f)
                break
    if a == b and len(a) == 2 and a[0][0] == "self.feature_observers" and a[1][0].endswith(".features.items()"):
        chk.ok("R11.a", init_f.qualname, init_f.loc(), f"both iterate {a[0][0]} x {a[1][0]}")
    elif a and b and a[0][0] != b[0][0]:
        chk.violation(
            "R11.a", init_f, None,
            f"features are collected over `{a[0][0]}` but column names over `{b[0][0]}`: columns and names can fall out of step",
        )
    elif len(a) == 2 and len(b) == 2 and a[0][0] == b[0][0] and a[1][0] != b[1][0]:
        chk.violation(
            "R11.a", cols, None,
            f"the feature matrices are collected from `{a[1][0]}` but the column names are derived from `{b[1][0]}`: "
            "the two need not agree (a nested composite reports a size of 1 per type but contributes several "
            "columns), so names and columns fall out of step",
        )
    elif a and a[0][0] != "self.feature_observers":
        chk.violation("R11.a", init_f, None, f"features are collected over `{a[0][0]}`, not over the component list in order")
    else:
        raise AnalysisError(f"composite loops not recognised: {a} / {b}")
    # the methods reachable through self-calls plus initialize_features with its
    # (module-level, possibly moved) helpers inlined
    scope = [f for f, _ in lc.self_closure(init_f, comp)] + [ctx.norm.flat(init_f, depth=3)]
    conc = [n for f in scope for n in own_nodes(f.node) if isinstance(n, ast.Call) and (dotted(n.func) or "").endswith("concatenate")]
    if not conc:
        conc = [n for f in scope for n in own_nodes(f.node) if isinstance(n, ast.Call) and (dotted(n.func) or "").endswith(("hstack", "column_stack"))]
        if conc:
            chk.ok("R11.a", init_f.qualname, init_f.loc(conc[0]), "column-wise stacking")
        else:
            raise AnalysisError("composite: concatenation not found")
    else:
        ax = next((k.value for k in conc[0].keywords if k.arg == "axis"), None)
        if isinstance(ax, ast.Name):
            # a module-level named constant (`FEATURE_AXIS = 1`, possibly imported from a constants module)
            for f_ in scope:
                v_ = f_.module.assigns.get(ax.id)
                if isinstance(v_, ast.Constant):
                    ax = v_
                    break
        if isinstance(ax, ast.Constant) and ax.value == 1:
            chk.ok("R11.a", init_f.qualname, init_f.loc(conc[0]), "np.concatenate(axis=1)")
        else:
            chk.violation("R11.a", init_f, conc[0], f"components are concatenated along axis `{ast.unparse(ax) if ax is not None else 0}`, not column-wise", loc=init_f.loc(conc[0]))
    # fresh read: on every path of initialize_features the components' .features are read
    eng = ctx.engine(relevant=lambda e: False, max_depth=0)
    reads_each_call = False
    for f, _ in lc.self_closure(init_f, comp):
        pass
    # (a) no attribute of the composite stores component arrays across calls
    stale = []
    for m in comp.methods.values():
        for n in own_nodes(m.node):
            if isinstance(n, ast.Assign):
                for t in n.targets:
                    if isinstance(t, ast.Attribute) and ast.unparse(t.value) == "self" and t.attr not in ("features", "feature_observers", "column_names"):
                        src = ast.unparse(n.value)
                        vals = [n.value]
                        if isinstance(n.value, ast.Name):
                            vals += [d[1] for d in ctx.flow.defs(m).of(n.value.id)]
                        if any(".features" in ast.unparse(v) for v in vals) or any(
                            ".features" in ast.unparse(x) for v in vals for x in ast.walk(v)
                        ) or _collects_features(ctx, m, n.value):
                            stale.append((m, n, t.attr))
    for m, n, attr in stale:
        chk.violation(
            "R11.a", m, n,
            f"the composite keeps references to its components' feature arrays in `self.{attr}`: a component that "
            "replaces its array (DurationObserver on reset, a nested composite on every update) is no longer reflected, "
            "so the composite differs from the concatenation of its components",
            loc=m.loc(n),
        )
    # (b) the loops that read .features run inside initialize_features' own closure
    reads = [
        n for f in scope for n in own_nodes(f.node)
        if isinstance(n, ast.Attribute) and n.attr == "features" and not (isinstance(n.value, ast.Name) and n.value.id == "self")
    ]
    if reads and not stale:
        chk.ok("R11.a", init_f.qualname, init_f.loc(), "component arrays are read from the components on every call")
    elif not reads and not stale:
        chk.violation("R11.a", init_f, None, "initialize_features does not read the components' feature arrays")

    # (c) the composite's table holds the components' feature types only:
    # the base constructor pre-allocates one zero matrix per feature type, so
    # initialize_features must replace the whole dict (or clear it), not just
    # assign the keys its components happen to have
    ws = [w for w in lc.attr_writes(init_f, comp) if w.attr == "features"]
    whole = [w for w in ws if w.kind == "rebind" or (w.kind in ("inplace", "overwrite") and ".clear()" in w.text)]
    fo_init = repo.method(repo.find_class("FeatureObserver"), "__init__")
    prealloc = fo_init is not None and any(
        w.attr == "features" and w.kind == "rebind" and not is_empty_dict(getattr(w.event.node, "value", None))
        for w in lc.attr_writes(fo_init, comp)
    )
    if ws and not whole and not prealloc:
        chk.ok("R11.a", init_f.qualname, ws[0].loc, "entries assigned into a dict the constructor leaves empty")
    elif ws and not whole:
        chk.violation(
            "R11.a", init_f, ws[0].event.node,
            f"initialize_features only assigns entries of the existing dict ({ws[0].text}): the zero matrices the base "
            "constructor pre-allocates for feature types that no component tracks stay in `features`, so the composite "
            "has entries (and columns without names) that are not the concatenation of anything",
            loc=ws[0].loc,
        )
    elif whole:
        chk.ok("R11.a", init_f.qualname, whole[0].loc, "features is replaced as a whole on every call")
    else:
        chk.violation("R11.a", init_f, None, "initialize_features never writes self.features")

    # ---------------------------------------------------------------- R11.b
    obs = repo.find_class(OBSERVER)
    disp = repo.find_class(DISPATCHER)
    cone = repo.subclasses(obs.qualname)
    n = reset_order(ctx, lc, cone, obs, disp, "update", "R11.b")
    chk.analysed["cross_observer_update_reads"] = n

    # ---------------------------------------------------------------- R11.c
    fac = repo.find_function("feature_observer_factory")
    enum = repo.find_class("FeatureObserverType")
    members = repo.enum_members(enum)
    dnode, reg = registry(ctx, fac, enum.name)
    for m, valnode in members.items():
        if m not in reg:
            chk.violation("R11.c", fac, dnode, f"FeatureObserverType.{m} has no entry in the registry", loc=fac.loc(dnode))
            continue
        q = repo.resolve(fac.module.name, dotted(reg[m]) or "")
        ci = repo.classes.get(q or "")
        if ci is None:
            raise AnalysisError(f"registry entry for {m} is not a package class")
        val = valnode.value if isinstance(valnode, ast.Constant) else "?"
        want = "".join(p.capitalize() for p in val.split("_")) + "Observer"
        if ci.name == want:
            chk.ok("R11.c", fac.qualname, fac.loc(reg[m]), f"{m} -> {ci.name}")
        else:
            chk.violation("R11.c", fac, reg[m], f"FeatureObserverType.{m} (\"{val}\") is mapped to {ci.name}, expected {want}", loc=fac.loc(reg[m]))
    chk.floor("R11.c", len(members), 7, "feature observer types")

    # ---------------------------------------------------------------- R11.d
    op = repo.find_class("Operation")
    fo = repo.find_class("FeatureObserver")
    n_acc = 0
    for c in repo.subclasses(fo.qualname):
        for m in c.methods.values():
            for n in own_nodes(m.node):
                if isinstance(n, ast.Attribute) and n.attr == "machine_id" and isinstance(n.ctx, ast.Load):
                    n_acc += 1
                    if ctx.types.is_a(m.module, n.value, op.qualname):
                        chk.violation(
                            "R11.d", m, n,
                            f"`{ast.unparse(n)}` reads Operation.machine_id, which raises UninitializedAttributeError for an "
                            "operation with several eligible machines: the observer cannot be constructed or updated "
                            "for flexible instances",
                            loc=m.loc(n),
                        )
    if not any(i["rule"] == "R11.d" for i in chk.instances):
        chk.ok("R11.d", "feature observers", "", f"{n_acc} .machine_id reads, none on an Operation")

    # ---------------------------------------------------------------- R11.e
    n_arr = _rectangular_arrays(ctx, lc, fo)
    chk.floor("R11.e", n_arr, 1, "np.array constructions over ragged instance tables")


RAGGED_TABLES = ("operations_by_machine", "jobs")


def _rectangular_arrays(ctx, lc, fo):
    """R11.e - ``np.array`` of a nested comprehension over a table whose rows
    differ in length (instance.jobs, instance.operations_by_machine) raises
    ValueError unless the rows are equally long: the construction must be
    guarded by a condition on the row lengths of *that* table."""
    chk, repo = ctx.chk, ctx.repo
    n_sites = 0
    units = [(c, m) for c in repo.subclasses(fo.qualname) for m in list(c.methods.values()) if m.cls is c]
    # module-level helpers of the feature-observer modules build such tables too
    fo_modules = {c.module.name for c in repo.subclasses(fo.qualname)}
    for mi in repo.modules.values():
        if mi.name in fo_modules:
            units += [(None, f) for f in mi.functions.values() if not isinstance(f.node, ast.Lambda)]
    for c, m in units:
        if True:
            for n in own_nodes(m.node):
                if not (isinstance(n, ast.Call) and (dotted(n.func) or "").split(".")[-1] in ("array", "asarray") and n.args):
                    continue
                x = ctx.norm.xexpr(m, n.args[0])
                if not (isinstance(x, ast.ListComp) and len(x.generators) == 1 and isinstance(x.elt, (ast.ListComp, ast.List))):
                    continue
                if isinstance(x.elt, ast.List) and not any(isinstance(e_, ast.Starred) for e_ in x.elt.elts):
                    continue  # `[len(row)]`, `[a, b]`: a display has the same length for every row
                it = ctx.norm.xtext(m, x.generators[0].iter)
                table = next((t for t in RAGGED_TABLES if it.endswith("." + t) or it == t), None)
                if table is None:
                    continue
                # the inner rows must be the rows of the table (one entry per element)
                if isinstance(x.elt, ast.ListComp) and ast.unparse(x.elt.generators[0].iter) != ast.unparse(x.generators[0].target):
                    continue
                n_sites += 1
                guards = _guards_of(ctx, lc, c, m, n) if c is not None else _guards_in_function(ctx, m, n) + _call_site_guards(ctx, lc, m)
                texts = [g for g in guards]
                ok = any(table in g and "len(" in g for g in texts)
                # a guard that could not be expanded (a flag kept in another object, a
                # parameter, a helper's result) may well be the row-length condition
                opaque = [g for g in texts if not ("len(" in g) and ("self." in g or "." in g or g.isidentifier())]
                if not ok and opaque:
                    raise AnalysisError(
                        f"{m.loc(n)}: np.array over `{table}` runs under `{opaque[0][:80]}`, whose meaning could not be resolved; "
                        "whether it constrains the row lengths is not decided"
                    )
                if ok:
                    chk.ok("R11.e", m.qualname, m.loc(n), f"np.array over {table} guarded by a row-length condition on {table}")
                else:
                    shown = "; ".join(t[:90] for t in texts) or "no guard"
                    chk.violation(
                        "R11.e", m, n,
                        f"`np.array` is built from one row per entry of `{table}`, whose rows differ in length in general, and "
                        f"the only guard is `{shown}`, which says nothing about the row lengths of `{table}`: for a valid "
                        "instance with unequal rows numpy raises ValueError (inhomogeneous shape) and the observer cannot "
                        "be constructed / updated",
                        loc=m.loc(n),
                    )
    return n_sites


def _call_site_guards(ctx, lc, helper):
    """Guards at the (single) call site of a module-level helper."""
    sites = []
    for g in ctx.repo.all_functions():
        if isinstance(g.node, ast.Lambda) or g.module is not helper.module:
            continue
        for x in own_nodes(g.node):
            if isinstance(x, ast.Call) and isinstance(x.func, ast.Name) and x.func.id == helper.name:
                sites.append((g, x))
    if len(sites) != 1:
        return []
    g, x = sites[0]
    if g.cls is not None:
        return _guards_of(ctx, lc, g.cls, g, x)
    return _guards_in_function(ctx, g, x) + _call_site_guards(ctx, lc, g)


def _guards_in_function(ctx, m, node):
    """Conditions under which ``node`` runs inside a plain function: enclosing
    ifs and earlier `if <test>: return/raise` guard clauses (negated)."""
    out = []
    parents = m.module.parents
    child, cur = node, parents.get(node)
    while cur is not None:
        if isinstance(cur, ast.If) and child in cur.body:
            out.append(ctx.norm.xtext(m, cur.test))
        elif isinstance(cur, ast.If) and child in cur.orelse and isinstance(cur.test, ast.UnaryOp) and isinstance(cur.test.op, ast.Not):
            out.append(ctx.norm.xtext(m, cur.test.operand))
        if isinstance(cur, ast.IfExp) and child is cur.body:
            out.append(ctx.norm.xtext(m, cur.test))
        body = getattr(cur, "body", None)
        if isinstance(body, list) and child in body:
            for st in body[: body.index(child)]:
                if isinstance(st, ast.If) and not st.orelse and st.body and isinstance(st.body[-1], (ast.Return, ast.Raise, ast.Continue)):
                    t = st.test
                    if isinstance(t, ast.UnaryOp) and isinstance(t.op, ast.Not):
                        out.append(ctx.norm.xtext(m, t.operand))
        if cur is m.node:
            break
        child, cur = cur, parents.get(cur)
    return out


def _guards_of(ctx, lc, cls, m, node, _depth=0):
    """Alias- and flag-expanded texts of the conditions under which ``node``
    runs: enclosing ifs in ``m`` and, for a method with a single call site in
    the class, the conditions enclosing that call."""
    out = []
    cur = m.module.parents.get(node)
    child = node
    while cur is not None and cur is not m.node:
        if isinstance(cur, ast.If) and child in cur.body:
            out.append(_expand_flags(ctx, lc, cls, m, cur.test, _depth))
        elif isinstance(cur, ast.If) and child in cur.orelse:
            # else-branch: the negation of the test holds (`if not flag: ... else: <here>`)
            t = cur.test
            if isinstance(t, ast.UnaryOp) and isinstance(t.op, ast.Not):
                out.append(_expand_flags(ctx, lc, cls, m, t.operand, _depth))
        elif isinstance(cur, ast.match_case) and cur.guard is not None:
            out.append(_expand_flags(ctx, lc, cls, m, cur.guard, _depth))
        elif isinstance(cur, ast.IfExp):
            if child is cur.body:
                out.append(_expand_flags(ctx, lc, cls, m, cur.test, _depth))
            elif child is cur.orelse and isinstance(cur.test, ast.UnaryOp) and isinstance(cur.test.op, ast.Not):
                out.append(_expand_flags(ctx, lc, cls, m, cur.test.operand, _depth))
        # earlier guard clauses of the same block: `if not T: ...; return` => T holds here
        body = getattr(cur, "body", None)
        for blk in (body, getattr(cur, "orelse", None)):
            if isinstance(blk, list) and child in blk:
                for st in blk[: blk.index(child)]:
                    if isinstance(st, ast.If) and not st.orelse and st.body and isinstance(st.body[-1], (ast.Return, ast.Raise, ast.Continue)):
                        t = st.test
                        if isinstance(t, ast.UnaryOp) and isinstance(t.op, ast.Not):
                            out.append(_expand_flags(ctx, lc, cls, m, t.operand, _depth))
        child, cur = cur, m.module.parents.get(cur)
    if cur is m.node and isinstance(m.node.body, list) and child in m.node.body:
        for st in m.node.body[: m.node.body.index(child)]:
            if isinstance(st, ast.If) and not st.orelse and st.body and isinstance(st.body[-1], (ast.Return, ast.Raise)):
                t = st.test
                if isinstance(t, ast.UnaryOp) and isinstance(t.op, ast.Not):
                    out.append(_expand_flags(ctx, lc, cls, m, t.operand, _depth))
    if _depth < 2 and m.name != "__init__":
        sites = []
        for g in cls.methods.values():
            for x in own_nodes(g.node):
                if isinstance(x, ast.Call) and isinstance(x.func, ast.Attribute) and x.func.attr == m.name and isinstance(x.func.value, ast.Name) and x.func.value.id == "self":
                    sites.append((g, x))
                elif (
                    isinstance(x, ast.Attribute) and x.attr == m.name and isinstance(x.ctx, ast.Load) and isinstance(x.value, ast.Name) and x.value.id == "self"
                    and not (isinstance(g.module.parents.get(x), ast.Call) and g.module.parents.get(x).func is x)
                ):
                    # the bound method picked as a value (`self.fast if flag else self.slow`, an entry of a
                    # handler table): it runs only where it is picked
                    sites.append((g, x))
        if len(sites) == 1:
            out += _guards_of(ctx, lc, cls, sites[0][0], sites[0][1], _depth + 1)
        elif 1 < len(sites) <= 4:
            # several call sites: what holds at all of them
            per_site = [set(_guards_of(ctx, lc, cls, g_, x_, _depth + 1)) for g_, x_ in sites]
            common = set.intersection(*per_site) if per_site else set()
            out += sorted(common)
    return out


def _expand_flags(ctx, lc, cls, m, test, _depth=0):
    """Text of ``test`` with ``self.<flag>`` replaced by the (single) expression
    assigned to that attribute in the class, itself alias-expanded."""
    txt = ctx.norm.xtext(m, test)
    for x in ast.walk(test):
        if isinstance(x, ast.Attribute) and isinstance(x.value, ast.Name) and x.value.id == "self":
            srcs = [(f, v) for f, v in lc.attr_sources(cls, x.attr) if v is not None]
            if len(srcs) == 1 or (srcs and len({ctx.norm.xtext(f, v) for f, v in srcs}) == 1):
                # one assignment, or several that store the same expression
                txt = txt.replace(f"self.{x.attr}", "(" + ctx.norm.xtext(srcs[0][0], srcs[0][1]) + ")")
            elif _depth < 2 and len(srcs) > 1 and all(isinstance(v, ast.Constant) and isinstance(v.value, bool) for _, v in srcs):
                # a flag set to True on one path and False on the others: it
                # means the conditions under which the True assignment runs
                true = [(f, v) for f, v in srcs if v.value is True]
                if len(true) == 1:
                    f, v = true[0]
                    stmt = f.module.parents.get(v)
                    gs = _guards_of(ctx, lc, cls, f, stmt, _depth + 1) if stmt is not None else []
                    if gs:
                        txt = txt.replace(f"self.{x.attr}", "(" + " and ".join(f"({g})" for g in gs) + ")")
    return txt


def _collects_features(ctx, m, value):
    """value is a call to a helper of the class that returns component
    feature arrays."""
    if isinstance(value, ast.Call):
        ts, _ = ctx.res.callees(m, value, m.cls)
        for t in ts:
            if ".features" in ast.unparse(t.node) and any(isinstance(r, ast.Return) and r.value is not None for r in own_nodes(t.node)):
                return True
    return False
