"""C17 - residual graph hides only the decided and everything done.

R17.a  removal ownership and permanence: nodes leave the networkx graph and
       ``removed_nodes`` flips to True only inside ``JobShopGraph.remove_node``
       (same node id for both); nothing ever sets a mask entry back to False;
       isolated nodes are detected on total degree (``nx.isolates``), not on
       successors only.
R17.b  update order: every observer whose ``update`` reads another observer
       acquired it before subscribing itself, so it is notified after it (the
       updater reads IsCompletedObserver's flags of the *current* dispatch).
R17.c  provenance: operation nodes are removed for elements of
       ``dispatcher.completed_operations()`` by operation id, once; machine
       and job nodes only under the completed flag of IsCompletedObserver,
       with *every* machine's flag examined (a flexible operation completes
       machines it was not dispatched on).
R17.d  node lookup verifies the id on its fast path.
"""

from __future__ import annotations

import ast

from ..lifecycle import Lifecycle
from ..repo import AnalysisError, own_nodes
from .common import DISPATCHER, OBSERVER, only_called_from
from .c12 import reset_order

MANIFEST = {
    "text": (
        "Decides the ownership, ordering and provenance clauses of C17: only "
        "JobShopGraph.remove_node deletes nodes and flips the mask (so mask = "
        "graph, and removals are permanent since nothing writes False after "
        "add_node); isolation is judged on total degree; the updater - and "
        "every observer that reads another in update - acquired its dependency "
        "before subscribing, so flags are current when read; operation nodes "
        "are removed only for elements of completed_operations() by id; "
        "machine/job nodes only under IsCompletedObserver's flag, all machines "
        "examined; node lookup verifies ids. Not decided: the set inclusions at "
        "every step as values."
    ),
    "note": "Together with C12 R12.b (reset order) this covers episodes after the first.",
    "technique": "typed who-may-write/who-may-call sweep + constructor path linearisation + guard/provenance matching",
    "ref": "DESIGN.md §3 C17",
}
UNDECIDED = ["completed ⊆ removed_ops ⊆ scheduled at every step, edges avoid removed nodes, all removed at completion - as values"]
ASSUMPTIONS = ["node id = operation id (C16 R16.d)"]


def _classify_index(ctx, f, arg, upd, sop, ft):
    """'all'  - the index enumerates every entity (loop over the flag table or
               over operation.machines);
    'dispatched' - it is the machine/job of the scheduled operation only."""
    if isinstance(arg, ast.Name):
        # loop variable?
        for n in own_nodes(f.node):
            if isinstance(n, ast.For):
                names = [x.id for x in ast.walk(n.target) if isinstance(x, ast.Name)]
                if arg.id in names:
                    it = ctx.norm.xtext(f, n.iter)
                    if f"FeatureType.{ft}" in it or it.startswith("range(") or ".machines" in it:
                        return "all"
                    # a selection (comprehension) over something else
                    src = n.iter
                    for _ in range(3):
                        if isinstance(src, ast.Name):
                            ds = [d for d in ctx.flow.defs(f).of(src.id) if d[0] == "value"]
                            if len(ds) == 1:
                                src = ds[0][1]
                                continue
                        if isinstance(src, (ast.ListComp, ast.SetComp, ast.GeneratorExp)) and len(src.generators) == 1:
                            src = src.generators[0].iter
                            continue
                        if isinstance(src, ast.Call) and isinstance(src.func, ast.Name) and src.func.id in ("list", "sorted", "tuple", "set") and src.args:
                            src = src.args[0]
                            continue
                        break
                    st = ast.unparse(src)
                    if st.startswith("range("):
                        return "all"
                    if isinstance(src, ast.Attribute) and isinstance(src.value, ast.Name) and src.value.id == "self":
                        # entities still to examine are kept as observer state
                        return ("state", src.attr)
        ds = ctx.flow.defs(f).of(arg.id)
        if len(ds) == 1 and ds[0][0] == "value":
            return _classify_index(ctx, f, ds[0][1], upd, sop, ft)
        if arg.id in f.params and f is not upd:
            # follow to the call sites inside the updater
            i = f.params.index(arg.id)
            res = set()
            for g, via in [(upd, ())] + [(x, ()) for x in (f.cls.methods.values() if f.cls else [])]:
                for n in own_nodes(g.node):
                    if isinstance(n, ast.Call) and isinstance(n.func, ast.Attribute) and n.func.attr == f.name and len(n.args) >= i:
                        res.add(_classify_index(ctx, g, n.args[i - 1], upd, sop, ft))
            if res == {"dispatched"}:
                return "dispatched"
            if res and res <= {"all"}:
                return "all"
            return None
    if isinstance(arg, ast.Subscript):
        # `dispatched_to[node_type]` with dispatched_to = {MACHINE: sop.machine_id, JOB: sop.job_id}
        tbl = ctx.norm.xexpr(f, arg.value)
        if isinstance(tbl, ast.Dict) and tbl.values and all(
            ast.unparse(v).endswith((".machine_id", ".job_id")) and ast.unparse(v).split(".")[0] == sop for v in tbl.values
        ):
            return "dispatched"
    t = ast.unparse(arg)
    if t in (f"{sop}.machine_id", f"{sop}.job_id", f"{sop}.operation.job_id") and f is upd:
        return "dispatched"
    if t.endswith(".machine_id") or t.endswith(".job_id"):
        return "dispatched"
    return None


def _episode_restore(ctx, fi) -> bool:
    """``fi`` is a method the pinned tree does not have and every call of it in
    the package comes from the ``reset`` of a graph updater: what it does to the
    mask happens between episodes, where the pinned tree replaces the whole graph."""
    from ..baseline_api import PUBLIC_CALLABLES
    from .common import only_called_from

    key = (fi.cls.name + "." if fi.cls is not None else "") + fi.name
    if key in PUBLIC_CALLABLES or isinstance(fi.node, ast.Lambda):
        return False
    gu = ctx.repo.find_class("GraphUpdater")
    resets = {m for c in ctx.repo.subclasses(gu.qualname) for m in [c.methods.get("reset")] if m is not None}
    return bool(resets) and only_called_from(ctx, fi, resets)


def run(ctx):
    chk, repo = ctx.chk, ctx.repo
    for rid, txt in (
        ("R17.a", "only JobShopGraph.remove_node deletes nodes / sets removed_nodes True; never back to False; isolation on total degree"),
        ("R17.b", "observers whose update reads another observer acquired it before subscribing (notified after it)"),
        ("R17.c", "operation nodes removed for completed_operations() by id; machine/job nodes under IsCompletedObserver flags, all machines examined"),
        ("R17.d", "get_node_by_type_and_id verifies the id on its fast path"),
    ):
        chk.rule(rid, txt)
    g = repo.find_class("JobShopGraph")
    rm = g.methods.get("remove_node")
    addn = g.methods.get("add_node")
    if rm is None or addn is None:
        raise AnalysisError("JobShopGraph.remove_node/add_node vanished")

    # ---------------------------------------------------------------- R17.a
    n_sites = 0
    for fi in repo.all_functions():
        if isinstance(fi.node, ast.Lambda):
            continue
        for n in own_nodes(fi.node):
            # networkx removals on a JobShopGraph's .graph
            if isinstance(n, ast.Call) and isinstance(n.func, ast.Attribute) and n.func.attr in ("remove_node", "remove_nodes_from", "remove_edge", "remove_edges_from", "clear"):
                recv = n.func.value
                if isinstance(recv, ast.Name):
                    recv = ctx.norm.xexpr(fi, recv)  # `graph = self.graph; graph.remove_node(i)`
                if isinstance(recv, ast.Attribute) and recv.attr == "graph" and (
                    ctx.types.is_a(fi.module, recv.value, g.qualname) or (isinstance(recv.value, ast.Name) and recv.value.id == "self" and fi.cls is g)
                ):
                    n_sites += 1
                    if fi is rm or only_called_from(ctx, fi, {rm}):
                        chk.ok("R17.a", fi.qualname, fi.loc(n), f"graph.{n.func.attr} inside remove_node")
                    else:
                        chk.violation("R17.a", fi, n, f"`{ast.unparse(n)[:80]}` deletes from the networkx graph outside JobShopGraph.remove_node: the removed-nodes mask no longer mirrors the graph", loc=fi.loc(n))
            # writes to removed_nodes
            tgt = None
            if isinstance(n, ast.Assign):
                for t in n.targets:
                    if isinstance(t, ast.Subscript) and isinstance(t.value, ast.Name):
                        base = ctx.norm.xexpr(fi, t.value)  # `removed = self.removed_nodes; removed[i] = True`
                        if isinstance(base, ast.Attribute) and base.attr == "removed_nodes":
                            t = ast.copy_location(ast.Subscript(value=base, slice=t.slice, ctx=t.ctx), t)
                    if isinstance(t, ast.Subscript) and isinstance(t.value, ast.Attribute) and t.value.attr == "removed_nodes":
                        tgt = (t, n.value)
                    elif isinstance(t, ast.Attribute) and t.attr == "removed_nodes":
                        tgt = (t, n.value)
            if tgt is not None:
                t, v = tgt
                owner = t.value.value if isinstance(t, ast.Subscript) else t.value
                if not ctx.types.is_a(fi.module, owner, g.qualname) and not (isinstance(owner, ast.Name) and owner.id == "self" and fi.cls is g):
                    continue
                n_sites += 1
                if isinstance(t, ast.Attribute):
                    if fi.name == "__init__" and fi.cls is g:
                        chk.ok("R17.a", fi.qualname, fi.loc(n), "mask initialised")
                    elif _episode_restore(ctx, fi):
                        vx = ctx.norm.xexpr(fi, v)
                        if isinstance(vx, (ast.Attribute, ast.Name)):
                            chk.violation(
                                "R17.a", fi, n,
                                f"the mask installed for the new episode is `{ast.unparse(vx)}` itself, not a copy: the removals of that episode are "
                                "written into the kept snapshot, and the episode after it starts with those nodes already removed",
                                loc=fi.loc(n),
                            )
                        else:
                            chk.ok("R17.a", fi.qualname, fi.loc(n), "mask replaced as a whole by a step that only the graph updaters' reset runs (a new episode)")
                    else:
                        chk.violation("R17.a", fi, n, "the removed-nodes mask is rebound: removals are forgotten", loc=fi.loc(n))
                elif (fi is rm or only_called_from(ctx, fi, {rm})) and isinstance(v, ast.Constant) and v.value is True:
                    chk.ok("R17.a", fi.qualname, fi.loc(n), "mask[...] = True inside remove_node")
                elif isinstance(v, ast.Constant) and v.value is False:
                    chk.violation("R17.a", fi, n, "a removed-nodes entry is set back to False: removals are not permanent within an episode", loc=fi.loc(n))
                else:
                    chk.violation("R17.a", fi, n, f"`{ast.unparse(n)}` writes the removed-nodes mask outside JobShopGraph.remove_node", loc=fi.loc(n))
            if isinstance(n, ast.Call) and isinstance(n.func, ast.Attribute) and n.func.attr in ("append", "pop", "clear", "insert", "extend") and isinstance(n.func.value, ast.Attribute) and n.func.value.attr == "removed_nodes":
                n_sites += 1
                if (fi is addn or only_called_from(ctx, fi, {addn})) and n.func.attr == "append":
                    pass
                else:
                    chk.violation("R17.a", fi, n, f"removed_nodes.{n.func.attr}() outside add_node", loc=fi.loc(n))
    chk.floor("R17.a", n_sites, 4, "graph-removal / mask-write sites")
    # remove_node shape
    rm_raw = rm
    rm = ctx.norm.dealiased(ctx.norm.flat(rm))  # `graph = self.graph` spelled out again
    p = rm_raw.params[1]
    body = ast.unparse(rm.node)
    del_main = [n for n in own_nodes(rm.node) if isinstance(n, ast.Call) and ctx.norm.xtext(rm, n.func) == "self.graph.remove_node" and n.args and ast.unparse(n.args[0]) == p]
    def flipped_ids():
        """What the mask writes `self.removed_nodes[i] = True` of the flattened
        remove_node cover: ("id", text) for a direct index, ("each", iterable
        text) for an index that is the variable of an enclosing for loop."""
        out = []
        for n in own_nodes(rm.node):
            if not (isinstance(n, ast.Assign) and len(n.targets) == 1 and isinstance(n.targets[0], ast.Subscript)
                    and ctx.norm.xtext(rm, n.targets[0].value) == "self.removed_nodes"
                    and isinstance(n.value, ast.Constant) and n.value.value is True):
                continue
            idx = n.targets[0].slice
            loop = None
            if isinstance(idx, ast.Name):
                cur = rm.module.parents.get(n)
                while cur is not None and cur is not rm.node:
                    if isinstance(cur, ast.For) and isinstance(cur.target, ast.Name) and cur.target.id == idx.id:
                        loop = cur
                        break
                    cur = rm.module.parents.get(cur)
            if loop is None:
                out.append(("id", ctx.norm.xtext(rm, idx), n))
            else:
                it = ctx.norm.xexpr(rm, loop.iter)
                # itertools.chain(A, B, ...): the members of each part in turn
                parts = [it]
                if isinstance(it, ast.Call) and (ast.unparse(it.func).rsplit(".", 1)[-1] == "chain") and it.args and not it.keywords:
                    parts = [ctx.norm.xexpr(rm, a) if isinstance(a, ast.Name) else a for a in it.args]
                for part in parts:
                    if isinstance(part, (ast.Tuple, ast.List)):
                        out += [("id", ast.unparse(e), n) for e in part.elts]
                    else:
                        out.append(("each", ast.unparse(part), n))
        return out

    FL = flipped_ids()
    flip = [f for f in FL if f[0] == "id" and f[1] == p]
    if del_main and flip:
        chk.ok("R17.a", rm.qualname, rm.loc(), "removes the node and flips its own mask entry")
    else:
        chk.violation("R17.a", rm, None, "remove_node does not both delete the node and flip the mask entry of the same id")
    iso = [n for n in own_nodes(rm.node) if isinstance(n, ast.Call) and ast.unparse(n.func) in ("nx.isolates", "networkx.isolates")]
    succ_only = [
        n for n in own_nodes(rm.node)
        if (isinstance(n, ast.Subscript) and ast.unparse(n.value) == "self.graph" and not isinstance(n.ctx, ast.Store))
        or (isinstance(n, ast.Call) and isinstance(n.func, ast.Attribute) and n.func.attr in ("successors", "out_degree", "neighbors", "out_edges") and ast.unparse(n.func.value) == "self.graph")
    ]
    if succ_only:
        chk.violation(
            "R17.a", rm, succ_only[0],
            f"isolated nodes are detected with `{ast.unparse(succ_only[0])}`, which sees successors only: a node that still "
            "has incoming edges (the sink, the last operation of a job) is swept although it is not isolated",
            loc=rm.loc(succ_only[0]),
        )
    elif iso:
        # every isolated node must be flipped and removed
        flips = [f for f in FL if f[0] == "each" and "isolates" in f[1]] or [
            n for n in own_nodes(rm.node) if isinstance(n, ast.Assign) and ast.unparse(n.targets[0]).startswith("self.removed_nodes[") and ast.unparse(n.targets[0]) != f"self.removed_nodes[{p}]"]
        rmf = [n for n in own_nodes(rm.node) if isinstance(n, ast.Call) and ast.unparse(n.func) in ("self.graph.remove_nodes_from",)]
        if flips and rmf:
            chk.ok("R17.a", rm.qualname, rm.loc(iso[0]), "isolated nodes (total degree 0) are removed and flagged")
        else:
            chk.violation("R17.a", rm, iso[0], "isolated nodes are not both removed from the graph and flagged in the mask", loc=rm.loc(iso[0]))
    else:
        raise AnalysisError("remove_node: isolated-node handling not recognised")

    # ---------------------------------------------------------------- R17.b
    lc = Lifecycle(ctx)
    obs = repo.find_class(OBSERVER)
    disp = repo.find_class(DISPATCHER)
    cone = repo.subclasses(obs.qualname)
    n_reads = reset_order(ctx, lc, cone, obs, disp, "update", "R17.b")
    chk.analysed["cross_observer_update_reads"] = n_reads
    if n_reads < 1:
        raise AnalysisError("no cross-observer read found in any update (ResidualGraphUpdater -> IsCompletedObserver expected)")

    # ---------------------------------------------------------------- R17.c
    upd_cls = repo.find_class("ResidualGraphUpdater")
    upd = upd_cls.methods.get("update")
    util = repo.find_function("remove_completed_operations")
    calls = [n for n in own_nodes(upd.node) if isinstance(n, ast.Call) and ast.unparse(n.func) == "remove_completed_operations"]
    if len(calls) != 1:
        # a template-method split: the private steps written out
        upd_f = ctx.norm.flat(upd, depth=3)
        calls_f = [n for n in own_nodes(upd_f.node) if isinstance(n, ast.Call) and ast.unparse(n.func) == "remove_completed_operations"]
        if len(calls_f) == 1:
            upd_raw, upd, calls = upd, upd_f, calls_f
    if len(calls) != 1:
        chk.violation("R17.c", upd, None, "update does not remove the completed operations' nodes exactly once")
    else:
        c = calls[0]
        arg = next((k.value for k in c.keywords if k.arg == "completed_operations"), c.args[1] if len(c.args) > 1 else None)
        garg = c.args[0] if c.args else next((k.value for k in c.keywords if k.arg == "job_shop_graph"), None)
        at = ctx.norm.xtext(upd, arg) if arg is not None else ""
        if at == "self.dispatcher.completed_operations()" and garg is not None and ctx.norm.xtext(upd, garg) == "self.job_shop_graph":
            chk.ok("R17.c", upd.qualname, upd.loc(c), "operation nodes removed for dispatcher.completed_operations()")
        elif any(x in at for x in ("scheduled_operations", "uncompleted_operations", "unscheduled_operations", "ongoing_operations")):
            chk.violation("R17.c", upd, c, f"operation nodes are removed for `{at}`, not for the completed operations: nodes of operations still running (or not even scheduled) disappear", loc=upd.loc(c))
        else:
            chk.violation("R17.c", upd, c, f"operation nodes are removed for `{at}` on `{ast.unparse(garg) if garg is not None else '?'}`", loc=upd.loc(c))
    # ... and on every path: no early exit of update() before the removal (an
    # "nothing can have completed" shortcut is wrong - dispatching an operation
    # that starts later can still advance the clock)
    upd = upd_cls.methods.get("update")
    eng_u = ctx.engine(relevant=lambda e: e.kind == "call" and util in (e.data.get("targets") or []), max_depth=2)
    for p_ in eng_u.paths(upd, upd_cls):
        if p_.outcome == "raise":
            continue
        if not any(e.kind == "call" and util in (e.data.get("targets") or []) for e in p_.events):
            last = p_.events[-1] if p_.events else None
            chk.violation(
                "R17.c", upd, last.node if last is not None else None,
                "a path through update() returns without removing the completed operations' nodes: operations that "
                "complete because the clock advanced stay in the graph until some later dispatch",
                loc=last.loc if last is not None else upd.loc(), path=p_.describe(),
            )
            break
    # the helper: node id = operation id, skip already removed, remove once
    fors = [n for n in own_nodes(util.node) if isinstance(n, ast.For)]
    if len(fors) != 1 or ast.unparse(fors[0].iter) != util.params[1]:
        raise AnalysisError("remove_completed_operations: loop not recognised")
    if not any(isinstance(n, ast.Call) and isinstance(n.func, ast.Attribute) and n.func.attr == "remove_node" for n in ast.walk(fors[0])):
        # the guarded removal may be a helper shared with the machine / job nodes
        util_f = ctx.norm.flat(util, depth=3)
        ff_ = [n for n in own_nodes(util_f.node) if isinstance(n, ast.For)]
        if len(ff_) == 1:
            util, fors = util_f, ff_
    ids = [n for n in ast.walk(fors[0]) if isinstance(n, ast.Assign) and ast.unparse(n.value).endswith(".operation_id")]
    rmc = [n for n in ast.walk(fors[0]) if isinstance(n, ast.Call) and isinstance(n.func, ast.Attribute) and n.func.attr == "remove_node"]
    guard = [n for n in ast.walk(fors[0]) if isinstance(n, ast.If) and "removed_nodes" in ast.unparse(n.test) or (isinstance(n, ast.If) and "is_removed" in ast.unparse(n.test))]
    lv_ = fors[0].target.id if isinstance(fors[0].target, ast.Name) else None

    def _is_op_id(e):
        """the expression is the loop operation's id (possibly `x.node_id if isinstance(x, Node) else x` with x that id)"""
        x = ctx.norm.xexpr(util, e)
        if isinstance(x, ast.IfExp) and "isinstance" in ast.unparse(x.test):
            x = x.orelse
        return lv_ is not None and ast.unparse(x) == f"{lv_}.operation_id"

    if len(rmc) == 1 and guard and rmc[0].args and (
        (ids and ast.unparse(rmc[0].args[0]) == ast.unparse(ids[0].targets[0])) or _is_op_id(rmc[0].args[0])
    ):
        chk.ok("R17.c", util.qualname, util.loc(), "each completed operation's node (id = operation id) removed once")
    elif not guard:
        chk.violation("R17.c", util, rmc[0] if rmc else None, "already removed nodes are removed again (KeyError / isolated sweep repeated)")
    else:
        chk.violation("R17.c", util, rmc[0] if rmc else None, "the node removed is not the one whose id is the completed operation's id")
    sop = upd.params[1]
    for kind, ft, getter in (("machine", "MACHINES", "get_machine_node"), ("job", "JOBS", "get_job_node")):
        sites = []
        indirect = False
        for f0, via in lc.self_closure(upd, upd_cls):
            f = ctx.norm.flat(f0, depth=2)
            for n in own_nodes(f.node):
                if isinstance(n, ast.Call) and n.args and ctx.norm.xtext(f, n.func).endswith("." + getter):
                    if not any(ast.unparse(n) == ast.unparse(m) and f.qualname == g.qualname for g, m in sites):
                        sites.append((f, n))
                elif isinstance(n, ast.Attribute) and n.attr == getter and not isinstance(f.module.parents.get(n), ast.Call):
                    indirect = True
        if not sites and indirect:
            raise AnalysisError(f"{getter} is passed around as a value; the indirect lookup is not modelled")
        if not sites:
            chk.violation("R17.c", upd, None, f"completed {kind} nodes are never looked up / removed by the updater")
            continue
        for f, call in sites:
            arg = call.args[0]
            cls_ = _classify_index(ctx, f, arg, upd, sop, ft)
            rmc = [n for n in own_nodes(f.node) if isinstance(n, ast.Call) and isinstance(n.func, ast.Attribute) and n.func.attr == "remove_node"]
            src = ast.unparse(f.node)
            # a comparison of a flag with 1 (either way round), the flags coming from
            # the completion observer, and a still-present test on the node
            cmp1 = any(
                isinstance(x, ast.Compare) and len(x.ops) == 1 and isinstance(x.ops[0], (ast.Eq, ast.NotEq))
                and any(isinstance(y, ast.Constant) and y.value == 1 for y in (x.left, x.comparators[0]))
                for x in own_nodes(f.node)
            )
            guarded = cmp1 and "is_completed_observer" in src and ("is_removed" in src or "removed_nodes" in src)
            if not rmc:
                chk.violation("R17.c", f, call, f"the completed {kind} node is looked up but never removed", loc=f.loc(call))
            elif not guarded:
                chk.violation("R17.c", f, rmc[0], f"a {kind} node is removed without testing IsCompletedObserver's flag == 1 and that it is still present", loc=f.loc(rmc[0]))
            elif isinstance(cls_, tuple) and cls_[0] == "state":
                rst = repo.method(upd_cls, "reset")
                strong = {w.attr for w in lc.attr_writes(rst, upd_cls) if w.kind in ("rebind", "overwrite")} if rst else set()
                init = repo.method(upd_cls, "__init__")
                full = False
                for w in (lc.attr_writes(init, upd_cls) if init else []):
                    if w.attr == cls_[1] and w.kind == "rebind":
                        v = getattr(w.event.node, "value", None)
                        full = v is not None and "range(" in ast.unparse(v)
                if cls_[1] in strong and full:
                    chk.ok("R17.c", f.qualname, f.loc(call), f"{kind}s still to examine are kept in self.{cls_[1]}, initialised to all of them and restored by reset")
                elif not full:
                    raise AnalysisError(f"{f.loc(call)}: initial content of self.{cls_[1]} not recognised")
                else:
                    chk.violation(
                        "R17.c", f, call,
                        f"the {kind}s whose completion flag is examined are taken from `self.{cls_[1]}`, which update "
                        "shrinks and reset never restores: after a reset no (or not every) completed "
                        f"{kind} is examined any more, so its node stays in the graph although all its operations are done",
                        loc=f.loc(call),
                    )
            elif cls_ == "all":
                chk.ok("R17.c", f.qualname, f.loc(call), f"every {kind}'s completed flag examined; node removed iff flag == 1 and still present")
            elif cls_ == "dispatched" and kind == "job":
                chk.ok("R17.c", f.qualname, f.loc(call), "the dispatched job's flag is examined (only that job can complete)")
            elif cls_ == "dispatched":
                chk.violation(
                    "R17.c", f, call,
                    "after a dispatch only the machine the operation ran on is examined: IsCompletedObserver also "
                    "decrements the other candidate machines of a flexible operation, so a machine completed that way "
                    "keeps its node until the end of the episode",
                    loc=f.loc(call),
                )
            else:
                raise AnalysisError(f"{f.loc(call)}: index of {getter}(...) not recognised")
    # update: machine/job removal guarded by the corresponding option
    src = ast.unparse(upd.node)
    if "self.remove_completed_machine_nodes" in src and "self.remove_completed_job_nodes" in src:
        chk.ok("R17.c", upd.qualname, upd.loc(), "machine/job removal follows the configured options")
    else:
        # the options may have been folded into state computed once (`self._removable_node_types`, built from both)
        via = None
        for x in own_nodes(ctx.norm.flat(upd, depth=3).node):
            if isinstance(x, ast.Attribute) and isinstance(x.value, ast.Name) and x.value.id == upd.params[0] and isinstance(x.ctx, ast.Load):
                srcs = [(f_, v_) for f_, v_ in lc.attr_sources(upd_cls, x.attr) if v_ is not None]
                def _closure_text(f_, v_):
                    seen_, work_, out_ = set(), [v_], ""
                    while work_:
                        cur_ = work_.pop()
                        out_ += ast.unparse(cur_) + " "
                        for y in ast.walk(cur_):
                            if isinstance(y, ast.Name) and y.id not in seen_:
                                seen_.add(y.id)
                                work_ += [d_[1] for d_ in ctx.flow.defs(f_).of(y.id) if d_[0] == "value" and d_[1] is not None]
                    return out_
                txt = " ".join(_closure_text(f_, v_) for f_, v_ in srcs)
                pm = repo.method(upd_cls, x.attr)
                if pm is not None and pm.is_property and not isinstance(pm.node, ast.Lambda):
                    txt += " " + ast.unparse(pm.node)  # a (private) property computed from the options
                if "remove_completed_machine_nodes" in txt and "remove_completed_job_nodes" in txt:
                    via = x.attr
        if via is not None:
            chk.ok("R17.c", upd.qualname, upd.loc(), f"machine/job removal follows the configured options (through self.{via})")
        else:
            chk.violation("R17.c", upd, None, "machine/job node removal ignores the remove_completed_* options")

    # ---------------------------------------------------------------- R17.d
    look = g.methods.get("get_node_by_type_and_id")
    if look is None:
        raise AnalysisError("get_node_by_type_and_id vanished")
    pid = look.params[2]
    # every returning path hands out a node whose own id was compared with the
    # requested id on that path (a branch atom `<id of the node> == node_id`)
    # or which comes from a generator filtered by such a comparison
    from .common import path_atoms

    leng = ctx.engine(relevant=lambda e: e.kind in ("branch", "return"), max_depth=0, unroll=1)

    def _pinned(t):
        # a look-up step is a helper the pinned surface does not name
        from ..baseline_api import PUBLIC_CALLABLES

        key = (t.cls.name + "." if t.cls is not None else "") + t.name
        return not t.name.startswith("_") and key in PUBLIC_CALLABLES

    def verify(fn, recv, pid, depth=0):
        """(number of node-returning paths, first unverified (path, value) or None)
        for ``fn`` looking up the id held by its parameter ``pid``."""
        n_ret, bad = 0, None
        for pth in leng.paths(fn, recv):
            if pth.outcome != "return" or not pth.events:
                continue
            rv = pth.events[-1].data.get("value")
            if rv is None or (isinstance(rv, ast.Constant) and rv.value is None):
                continue
            # handing back a caller-supplied fallback (a parameter other than the
            # looked-up id, e.g. `default=`) is not returning a node of the graph
            if isinstance(rv, ast.Name) and rv.id in fn.params and rv.id != pid and not ctx.flow.defs(fn).of(rv.id):
                continue
            n_ret += 1
            x = ctx.norm.xexpr(fn, rv)
            rt = ast.unparse(x)
            ok_ret = False
            if isinstance(x, ast.Call) and isinstance(x.func, ast.Name) and x.func.id == "next" and x.args and isinstance(x.args[0], ast.GeneratorExp):
                ge = x.args[0]
                conds = [ast.unparse(c) for gen in ge.generators for c in gen.ifs]
                ok_ret = any("==" in t and pid in t for t in conds) and ast.unparse(ge.elt) == ast.unparse(ge.generators[0].target)
            if not ok_ret:
                for t, val in path_atoms(ctx, pth.events).items():
                    if val and "==" in t and pid in t and (rt in t or ast.unparse(rv) in t):
                        ok_ret = True
            if not ok_ret and isinstance(rv, ast.Name) and depth < 2:
                # the node comes from private look-up steps (`node = self._at(nodes, node_id, attr)`,
                # possibly `if node is None: node = self._scan(...)`): each step verified on its own
                ds = [d for d in ctx.flow.defs(fn).of(rv.id) if d[0] == "value"]
                steps = []
                for _k, v, _st in ds:
                    if isinstance(v, ast.Constant) and v.value is None:
                        continue
                    ts = ctx.res.callees(fn, v, recv)[0] if isinstance(v, ast.Call) else []
                    if len(ts) != 1 or _pinned(ts[0]) or isinstance(ts[0].node, ast.Lambda):
                        steps = None
                        break
                    t = ts[0]
                    ps = t.params[1:] if (t.cls is not None and not t.is_static) else t.params
                    bound = dict(zip(ps, v.args))
                    bound.update({k.arg: k.value for k in v.keywords if k.arg})
                    pp = [q for q, a_ in bound.items() if isinstance(a_, ast.Name) and a_.id == pid]
                    if len(pp) != 1:
                        steps = None
                        break
                    steps.append((t, pp[0]))
                if steps:
                    ok_ret = all(verify(t, t.cls if t.cls is not None else None, q, depth + 1)[1] is None for t, q in steps)
            if not ok_ret and bad is None:
                bad = (pth, rv)
        return n_ret, bad

    n_ret, bad_ret = verify(look, g, pid)
    if n_ret == 0:
        raise AnalysisError("get_node_by_type_and_id: no returning path")
    if bad_ret is not None:
        chk.violation(
            "R17.d", look, bad_ret[1],
            f"a path returns `{ast.unparse(bad_ret[1])}` without having compared that node's own id with `{pid}`: when nodes "
            "of a type are not stored in id order the wrong machine/job node is returned (and removed)",
            loc=look.loc(bad_ret[1]), path=bad_ret[0].describe(),
        )
    else:
        chk.ok("R17.d", look.qualname, look.loc(), f"{n_ret} returning paths, each verified against the node's own id")
