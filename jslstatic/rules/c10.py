"""C10 - observers see every dispatch once, in order, after it took effect.

R10.a  notify discipline: ``update`` is called on an observer-typed receiver
       (other than self/super) only in Dispatcher, inside ``for s in
       self.subscribers`` (direct iteration, unconditional body), exactly
       once on every non-raising dispatch path, after all state writes and
       the cache clear, with the very object appended to the schedule.
R10.b  reset discipline: likewise ``reset`` only in ``Dispatcher.reset``,
       after own state and cache were re-established.
R10.c  subscription ownership: ``subscribers`` is mutated only by
       subscribe/unsubscribe (append/remove of the argument); inside the
       package ``subscribe`` is called only from
       ``DispatcherObserver.__init__`` after the singleton guard; every
       observer class's constructor chain runs that constructor exactly once.
R10.d  ``HistoryObserver.update`` appends exactly its argument, once;
       ``reset`` empties the history.
R10.e  ``create_or_get_observer`` returns the first subscriber satisfying
       ``isinstance and condition`` else constructs ``observer(self, **kw)``.
R10.f  nothing reachable from any built-in observer's ``update`` calls
       dispatch/reset/subscribe/unsubscribe/create_or_get_observer (it would
       perturb the notification loop).
"""

from __future__ import annotations

import ast

from ..repo import AnalysisError, own_nodes
from .common import DISPATCHER, OBSERVER, falsy_object_tests, opaque_dispatch, is_empty_list, is_notify, only_called_from, path_atoms, resolve_root
from .c09 import state_write

MANIFEST = {
    "text": (
        "Decides the library side of C10 for every history: all call sites of "
        "observer update/reset in the package are enumerated and only the two "
        "notification loops in Dispatcher exist; each iterates self.subscribers "
        "directly with an unconditional body, is reached exactly once on every "
        "non-raising path, after the last state write and the cache clear, and "
        "forwards the object that was appended to the schedule; subscribers is "
        "mutated only by subscribe/unsubscribe; every built-in observer "
        "constructor subscribes exactly once behind the singleton guard; the "
        "history observer appends its argument; create_or_get_observer has the "
        "first-match-else-construct shape; no built-in update re-enters the "
        "dispatcher."
    ),
    "note": "User-defined observers and exceptions they throw are outside the quantifier; list iteration order of Python lists is trusted.",
    "technique": "call-site enumeration on typed receivers + path automaton (writes < clear < notify) + constructor-chain path enumeration",
    "ref": "DESIGN.md §3 C10",
}
UNDECIDED = ["behaviour of user-supplied observers (outside a static check over the library)"]
ASSUMPTIONS = ["Python list iteration visits elements in insertion order; append/remove keep the relative order of the others"]


def _rel(e):
    if e.kind == "raise":
        return True
    if e.kind == "write" and not e.data.get("local"):
        return True
    return e.kind == "call" and e.data.get("attr") in ("update", "reset", "subscribe", "unsubscribe")


def _loop_of(fi, node):
    mi = fi.module
    cur = mi.parents.get(node)
    while cur is not None and cur is not fi.node:
        if isinstance(cur, (ast.For, ast.While)):
            return cur
        cur = mi.parents.get(cur)
    return None


def _direct_subscribers_iter(it):
    return isinstance(it, ast.Attribute) and it.attr == "subscribers" and isinstance(it.value, ast.Name) and it.value.id == "self"


def _notify_sites(ctx, name):
    out = []
    for fi in ctx.repo.all_functions():
        if isinstance(fi.node, ast.Lambda):
            continue
        for ev in ctx.effects.events(fi, fi.cls):
            if is_notify(ctx, ev, (name,)):
                out.append((fi, ev))
    return out


def _check_loop(ctx, rule, fi, ev, what):
    """The notify call sits directly in `for s in self.subscribers:` with an
    unconditional single-statement body."""
    chk = ctx.chk
    loop = _loop_of(fi, ev.node)
    if loop is None or not isinstance(loop, ast.For):
        chk.violation(rule, fi, ev.node, f"{what} is not issued from a loop over self.subscribers", loc=ev.loc)
        return None
    if not _direct_subscribers_iter(loop.iter):
        chk.violation(
            rule, fi, loop.iter,
            f"{what} loop iterates `{ast.unparse(loop.iter)}`, not self.subscribers directly: "
            "subscribers can be skipped, duplicated or reordered",
            loc=fi.loc(loop),
        )
        return None
    recv = ev.data.get("recv")
    if not (isinstance(loop.target, ast.Name) and isinstance(recv, ast.Name) and recv.id == loop.target.id):
        chk.violation(rule, fi, ev.node, f"{what} receiver is not the loop variable", loc=ev.loc)
        return None
    # unconditional: the call statement is a direct child of the loop body
    stmt = fi.module.parents.get(ev.node)
    if not (isinstance(stmt, ast.Expr) and stmt in loop.body):
        chk.violation(
            rule, fi, ev.node,
            f"{what} is conditional inside the loop: some subscribers are not notified",
            loc=ev.loc,
        )
        return None
    for s in loop.body:
        for n in ast.walk(s):
            if isinstance(n, (ast.Break, ast.Continue, ast.Return)):
                chk.violation(rule, fi, n, f"{what} loop can stop early ({type(n).__name__.lower()})", loc=fi.loc(n))
                return None
    n_calls = sum(
        1 for s in loop.body for n in ast.walk(s)
        if isinstance(n, ast.Call) and isinstance(n.func, ast.Attribute) and n.func.attr == ev.data.get("attr")
        and isinstance(n.func.value, ast.Name) and n.func.value.id == loop.target.id
    )
    if n_calls != 1:
        chk.violation(rule, fi, loop, f"{what} is issued {n_calls} times per subscriber", loc=fi.loc(loop))
        return None
    return loop


def run(ctx):
    chk, repo = ctx.chk, ctx.repo
    for rid, txt in (
        ("R10.a", "update() on observers only from Dispatcher's loop over self.subscribers; once per accepted dispatch; after writes+cache clear; same object as appended"),
        ("R10.b", "reset() on observers only from Dispatcher.reset's loop, after own state and cache are re-established"),
        ("R10.c", "subscribers mutated only by subscribe/unsubscribe; subscribe called only from DispatcherObserver.__init__ after the singleton guard; one subscription per constructor chain"),
        ("R10.d", "HistoryObserver.update appends exactly its argument once; reset empties"),
        ("R10.e", "create_or_get_observer: first subscriber with isinstance and condition, else observer(self, **kwargs)"),
        ("R10.f", "no built-in observer's update re-enters the dispatcher (dispatch/reset/subscribe/unsubscribe/create_or_get_observer)"),
    ):
        chk.rule(rid, txt)
    disp = repo.find_class(DISPATCHER)
    obs = repo.find_class(OBSERVER)
    eng = ctx.engine(relevant=_rel, max_depth=6)

    # ---------------------------------------------------------------- R10.a
    sites = _notify_sites(ctx, "update")
    chk.analysed["update_call_sites_on_observers"] = [f"{fi.qualname}@{ev.loc}" for fi, ev in sites]
    loops = {}
    dispatch = repo.need_method(disp, "dispatch")
    for fi, ev in sites:
        if fi.cls is None or disp.qualname not in fi.cls.mro or not only_called_from(ctx, fi, {dispatch}):
            chk.violation(
                "R10.a", fi, ev.node,
                "an observer is updated from outside Dispatcher: it receives notifications that are "
                "not dispatches (or receives them twice)",
                loc=ev.loc,
            )
            continue
        lp = _check_loop(ctx, "R10.a", fi, ev, "update notification")
        if lp is not None:
            loops[id(lp)] = (fi, lp, ev)
    paths = eng.paths(dispatch, disp)
    n_ok = 0
    if not loops:
        dyn = opaque_dispatch(ctx, disp)
        if dyn:
            m, n = dyn[0]
            raise AnalysisError(
                f"{m.loc(n)}: observers are notified through a dynamically looked-up hook (`{ast.unparse(n)[:60]}`); "
                "which method runs is not decidable statically, so the notification rules are not evaluated"
            )
        snap = _snapshot_notification(ctx, disp, "update")
        if snap is not None:
            m_, lp_, src_ = snap
            chk.violation(
                "R10.a", m_, lp_,
                f"the update hooks are collected first (`{src_[:70]}`) and called afterwards: the notification walks a snapshot "
                "of the subscriber list, so an observer that an earlier one unsubscribes during the notification is still "
                "notified after unsubscribe() has returned (and one subscribed meanwhile is not)",
                loc=m_.loc(lp_),
            )
        if not any(i["rule"] == "R10.a" and i["verdict"] != "holds" for i in chk.instances):
            chk.violation("R10.a", dispatch, None, "no notification loop found: accepted dispatches notify nobody")
    else:
        for p in paths:
            if p.outcome == "raise":
                continue
            enters = [e for e in p.events if e.kind == "loop" and e.data.get("phase") == "enter" and id(e.node) in loops]
            if len(enters) != 1:
                chk.violation(
                    "R10.a", dispatch, None,
                    f"a non-raising dispatch path runs the notification loop {len(enters)} times "
                    "(must be exactly once)",
                    path=p.describe(),
                )
                continue
            idx = p.events.index(enters[0])
            late = [e for e in p.events[idx:] if state_write(e) is not None and e.frame.fi.cls is not None and (disp.qualname in e.frame.fi.cls.mro or e.frame.fi.cls.name == "Schedule")]
            if late:
                chk.violation(
                    "R10.a", dispatch, late[0].node,
                    f"`{late[0].data.get('text')}` is executed after observers were notified: "
                    "they saw a state that did not yet reflect the dispatch",
                    loc=late[0].loc, path=p.describe(),
                )
                continue
            # same object: argument of update == object appended to the schedule
            fi_l, lp, ev = loops[id(enters[0].node)]
            upd = [e for e in p.events[idx:] if e.kind == "call" and is_notify(ctx, e, ("update",))]
            app = [
                e for e in p.events[:idx]
                if e.kind == "write" and e.data.get("method") in ("append", "insert") and e.frame.fi.cls is not None and e.frame.fi.cls.name == "Schedule"
            ]
            if upd and app:
                a1 = upd[0].node.args[0] if upd[0].node.args else None
                # (the object added is the last argument of `insert(position, x)`)
                a2 = app[0].node.args[-1] if app[0].node.args else None
                if a1 is None or a2 is None:
                    raise AnalysisError("notification/append argument not found")
                r1 = _resolve_expr(upd[0], a1)
                r2 = _resolve_expr(app[0], a2)
                if r1 != r2:
                    chk.violation(
                        "R10.a", dispatch, upd[0].node,
                        f"observers receive `{ast.unparse(a1)}` which is not the object appended to the schedule",
                        loc=upd[0].loc,
                    )
                    continue
            elif not app:
                chk.violation("R10.a", dispatch, None, "accepted dispatch path appends nothing to the schedule", path=p.describe())
                continue
            n_ok += 1
        if n_ok:
            chk.ok("R10.a", dispatch.qualname, dispatch.loc(), f"{n_ok} non-raising paths: writes < cache clear < one loop over self.subscribers")
    chk.floor("R10.a", len(sites), 1, "update call sites on observer-typed receivers")

    # ---------------------------------------------------------------- R10.b
    rsites = _notify_sites(ctx, "reset")
    chk.analysed["reset_call_sites_on_observers"] = [f"{fi.qualname}@{ev.loc}" for fi, ev in rsites]
    rloops = {}
    reset = repo.need_method(disp, "reset")
    for fi, ev in rsites:
        if fi is not reset and not (fi.cls is not None and disp.qualname in fi.cls.mro and only_called_from(ctx, fi, {reset})):
            chk.violation("R10.b", fi, ev.node, "an observer is reset from outside Dispatcher.reset", loc=ev.loc)
            continue
        lp = _check_loop(ctx, "R10.b", fi, ev, "reset notification")
        if lp is not None:
            rloops[id(lp)] = lp
    if not rsites:
        chk.violation("R10.b", reset, None, "Dispatcher.reset notifies no subscriber")
    elif rloops:
        good = 0
        for p in eng.paths(reset, disp):
            if p.outcome == "raise":
                continue
            enters = [e for e in p.events if e.kind == "loop" and e.data.get("phase") == "enter" and id(e.node) in rloops]
            if len(enters) != 1:
                chk.violation("R10.b", reset, None, f"reset runs the notification loop {len(enters)} times", path=p.describe())
                continue
            idx = p.events.index(enters[0])
            late = [e for e in p.events[idx:] if state_write(e) is not None]
            if late:
                chk.violation(
                    "R10.b", reset, late[0].node,
                    f"`{late[0].data.get('text')}` runs after subscribers were reset: they re-initialise "
                    "from a dispatcher that is not yet reset",
                    loc=late[0].loc,
                )
                continue
            good += 1
        if good:
            chk.ok("R10.b", reset.qualname, reset.loc(), f"{good} paths")

    # ---------------------------------------------------------------- R10.c
    sub = repo.need_method(disp, "subscribe")
    unsub = repo.need_method(disp, "unsubscribe")
    n_mut = 0
    for fi in repo.all_functions():
        if isinstance(fi.node, ast.Lambda):
            continue
        for ev in ctx.effects.events(fi, fi.cls):
            if ev.kind != "write":
                continue
            tgt = ev.data.get("target")
            hit = False
            op = ev.data.get("op")
            if op == "mutcall" and isinstance(tgt, ast.Attribute) and tgt.attr == "subscribers":
                hit = ctx.res.classes_of(fi, tgt.value, fi.cls) and any(repo.is_subclass(c, disp.qualname) for c in ctx.res.classes_of(fi, tgt.value, fi.cls))
            elif op in ("assign", "augassign", "del") and isinstance(tgt, ast.Attribute) and tgt.attr == "subscribers":
                hit = any(repo.is_subclass(c, disp.qualname) for c in ctx.res.classes_of(fi, tgt.value, fi.cls))
            elif op in ("assign", "del") and isinstance(tgt, ast.Subscript) and isinstance(tgt.value, ast.Attribute) and tgt.value.attr == "subscribers":
                hit = any(repo.is_subclass(c, disp.qualname) for c in ctx.res.classes_of(fi, tgt.value.value, fi.cls))
            if not hit:
                continue
            n_mut += 1
            if fi is sub:
                ok = ev.data.get("method") == "append" and ev.node.args and isinstance(ev.node.args[0], ast.Name) and ev.node.args[0].id == sub.params[1]
                if ok:
                    chk.ok("R10.c", fi.qualname, ev.loc, "append(observer)")
                else:
                    chk.violation("R10.c", fi, ev.node, "subscribe does not append its argument at the end of the list: subscription order is not notification order", loc=ev.loc)
            elif fi is unsub:
                ok = ev.data.get("method") == "remove" and ev.node.args and isinstance(ev.node.args[0], ast.Name) and ev.node.args[0].id == unsub.params[1]
                if ok:
                    chk.ok("R10.c", fi.qualname, ev.loc, "remove(observer)")
                else:
                    chk.violation("R10.c", fi, ev.node, "unsubscribe does not remove exactly its argument", loc=ev.loc)
            elif (
                op == "assign" and is_empty_list(getattr(ev.node, "value", None)) and fi.cls is disp
                and (fi.name == "__init__" or (disp.methods.get("__init__") is not None and only_called_from(ctx, fi, {disp.methods["__init__"]})))
            ):
                # the constructor, or a private step only the constructor runs
                chk.ok("R10.c", fi.qualname, ev.loc, "initialised empty")
            else:
                chk.violation(
                    "R10.c", fi, ev.node,
                    "the subscriber list is modified outside subscribe/unsubscribe",
                    loc=ev.loc,
                )
    chk.floor("R10.c", n_mut, 3, "mutations of Dispatcher.subscribers")
    # unsubscribe removes with list.remove(), i.e. the first element that is
    # *equal* to the argument: observers must keep identity equality
    for c in repo.subclasses(obs.qualname):
        eq = c.methods.get("__eq__")
        if eq is not None and eq.cls is c:
            chk.violation(
                "R10.c", eq, None,
                f"{c.name} defines __eq__: Dispatcher.unsubscribe removes the first subscriber *equal* to its argument "
                "(list.remove), so with value equality another, still wanted observer can be the one that is dropped while "
                "the one passed in keeps being notified",
            )
    obs_init = obs.methods.get("__init__")
    if obs_init is None:
        raise AnalysisError("DispatcherObserver.__init__ vanished")
    for fi in repo.all_functions():
        for ev in ctx.effects.events(fi, fi.cls):
            if ev.kind == "call" and sub in (ev.data.get("targets") or []):
                if fi is not obs_init:
                    # forwarding an observer the *caller* handed in (a parameter of
                    # a public function, or an element of a *args parameter) is the
                    # caller's own subscribe() request - the public subscribe() is
                    # open to them anyway; what must not happen is the package
                    # subscribing an observer it obtained itself
                    arg = ev.node.args[0] if getattr(ev.node, "args", None) else None
                    if arg is not None and not fi.name.startswith("_"):
                        origins = ctx.flow.origins(fi, arg, fi.cls)
                        given = {p_ for p_ in fi.params[1:]} | ({fi.node.args.vararg.arg} if fi.node.args.vararg else set())
                        from_caller = [o for o in origins if (o[0] == "param" and o[1] in given) or (o[0] == "elem" and o[1][0] == "param" and o[1][1] in given)]
                        # ("elemfresh",): element of a local list the function fills itself
                        if from_caller and all(o in from_caller or o == ("elemfresh",) for o in origins):
                            chk.ok("R10.c", fi.qualname, ev.loc, "forwards a caller-supplied observer to subscribe()")
                            continue
                    if fi.name == "__init__" and fi.cls is not None and repo.is_subclass(fi.cls.qualname, obs.qualname) and _deferred_subscribe(fi) is ev.node:
                        chk.ok("R10.c", fi.qualname, ev.loc, "subscribes itself after the base constructor (subscribe=False) has run the guard")
                        continue
                    chk.violation("R10.c", fi, ev.node, "subscribe() is called from outside DispatcherObserver.__init__: the singleton guard is bypassed", loc=ev.loc)
    # guard precedes subscribe in DispatcherObserver.__init__
    for p in eng.paths(obs_init, obs):
        if p.outcome == "raise":
            if any(e.kind == "call" and sub in (e.data.get("targets") or []) for e in p.events):
                chk.violation("R10.c", obs_init, None, "the singleton guard raises after the observer was already subscribed", path=p.describe())
    # a raising path of the constructor (private helpers inlined) that knows
    # "is a singleton" and "an existing subscriber is an instance of this
    # class" - whichever way the test is spelled (any(...) or an explicit loop)
    geng = ctx.engine(relevant=lambda e: e.kind in ("branch", "raise", "loop"), max_depth=2, unroll=1)
    guard = []
    for p in geng.paths(obs_init, obs):
        if p.outcome != "raise":
            continue
        known = path_atoms(ctx, p.events)
        texts = [t for t, v in known.items() if v]
        loops = [ctx.norm.xtext(e.fi, e.node.iter) for e in p.events if e.kind == "loop" and isinstance(e.node, ast.For)]
        # the iterable may be a parameter of an inlined search helper (`find_observer(self.dispatcher.subscribers, cls)`)
        for e in p.events:
            if e.kind == "loop" and isinstance(e.node, ast.For) and isinstance(e.node.iter, ast.Name):
                r_, c_, _fr = resolve_root(e, e.node.iter.id, [])
                loops.append(".".join([r_ or ""] + list(c_)))
        singleton = any("_is_singleton" in t or "is_singleton" in t for t in texts)
        same_cls = any("isinstance(" in t for t in texts)
        over_subs = any("subscribers" in t for t in texts + loops)
        if singleton and same_cls and over_subs:
            guard.append(p.events[-1].node)
    if guard:
        # ... on every constructor path, also the one that does not subscribe (`subscribe=False`, subscribed by hand later)
        for p in geng.paths(obs_init, obs):
            if p.outcome == "raise":
                continue
            tested = any(e.kind == "branch" and "is_singleton" in ctx.norm.xtext(e.fi, e.node) for e in p.events)
            if not tested:
                last = p.events[-1] if p.events else None
                chk.violation(
                    "R10.c", obs_init, last.node if last is not None else None,
                    "a path of the constructor returns without evaluating the singleton guard (an early return before it, e.g. for "
                    "subscribe=False): a second observer of a singleton type can be created unsubscribed and subscribed by hand",
                    loc=last.loc if last is not None else obs_init.loc(), path=p.describe(),
                )
                break
    if guard:
        chk.ok("R10.c", obs_init.qualname, obs_init.loc(guard[0]), "singleton guard raises before subscribing")
    else:
        chk.violation(
            "R10.c", obs_init, None,
            "no raising singleton guard (is_singleton and an existing subscriber of the same class): "
            "a singleton observer type can be subscribed twice",
        )
    # every observer class: constructor chain reaches DispatcherObserver.__init__ exactly once
    cone = repo.subclasses(obs.qualname)
    ceng = ctx.engine(
        relevant=lambda e: e.kind == "call" and (e.data.get("attr") in ("subscribe",) or (e.data.get("name") or "").endswith("__init__")) or e.kind == "raise",
        max_depth=6,
        always_inline=[c.qualname + ".__init__" for c in cone],
    )
    n_cls = 0
    for c in cone:
        init = repo.method(c, "__init__")
        if init is None:
            continue
        n_cls += 1
        bad = False
        for p in ceng.paths(init, c):
            if p.outcome == "raise":
                continue
            n_base = sum(1 for e in p.events if e.kind == "enter" and e.frame.fi is obs_init) + (1 if init is obs_init else 0)
            n_sub = sum(1 for e in p.events if e.kind == "call" and sub in (e.data.get("targets") or []))
            if n_base != 1:
                bad = True
                chk.violation(
                    "R10.c", init, None,
                    f"{c.name}: a constructor path runs DispatcherObserver.__init__ {n_base} times "
                    "(guard bypassed or double subscription)",
                    path=p.describe(),
                )
                break
            if n_sub > 1:
                bad = True
                chk.violation("R10.c", init, None, f"{c.name}: constructor subscribes {n_sub} times", path=p.describe())
                break
        if not bad:
            chk.ok("R10.c", c.qualname, init.loc(), "constructor chain subscribes once behind the guard")
    if n_cls < 15:
        raise AnalysisError(f"only {n_cls} observer classes in the cone (floor 15)")
    # `subscribe=False` must reach the base constructor: a non-subscribed
    # observer receives nothing
    n_fw = 0
    for c in cone:
        init = c.methods.get("__init__")
        if init is None or init is obs_init or "subscribe" not in init.params:
            continue
        supers = [
            n for n in own_nodes(init.node)
            if isinstance(n, ast.Call) and isinstance(n.func, ast.Attribute) and n.func.attr == "__init__"
            and (
                (isinstance(n.func.value, ast.Call) and isinstance(n.func.value.func, ast.Name) and n.func.value.func.id == "super")
                or (isinstance(n.func.value, ast.Name) and repo.resolve(init.module.name, n.func.value.id) in c.mro)
            )
        ]
        if not supers:
            raise AnalysisError(f"{init.qualname}: no super().__init__ call found")
        for call in supers:
            n_fw += 1
            fw = [k for k in call.keywords if k.arg == "subscribe"]
            ok = bool(fw) and isinstance(fw[0].value, ast.Name) and fw[0].value.id == "subscribe"
            if not ok:
                # positional forwarding
                tgt = repo.super_method(c, c, "__init__")
                if tgt is not None and "subscribe" in tgt.params:
                    idx = tgt.params.index("subscribe") - 1
                    if 0 <= idx < len(call.args) and isinstance(call.args[idx], ast.Name) and call.args[idx].id == "subscribe":
                        ok = True
            if not ok and _deferred_subscribe(init) is not None and fw and isinstance(fw[0].value, ast.Constant) and fw[0].value.value is False:
                ok = True  # decided by the flag after the base constructor returned
            if ok:
                chk.ok("R10.c", init.qualname, init.loc(call), "subscribe flag forwarded to the base constructor")
            else:
                chk.violation(
                    "R10.c", init, call,
                    f"{c.name}.__init__ accepts `subscribe` but does not forward it to the base constructor: "
                    "an observer created with subscribe=False is subscribed anyway (and twice once attached by hand)",
                    loc=init.loc(call),
                )
    chk.analysed["subscribe_flag_forwardings"] = n_fw
    if n_fw < 8:
        raise AnalysisError(f"only {n_fw} subscribe-forwarding constructor calls found (floor 8)")

    # ---------------------------------------------------------------- R10.d
    hist = repo.find_class("HistoryObserver")
    hu, hr = hist.methods.get("update"), hist.methods.get("reset")
    if hu is None or hr is None:
        raise AnalysisError("HistoryObserver.update/reset vanished")
    bad = False
    n_app = 0
    for p in ctx.engine(relevant=lambda e: e.kind == "write", max_depth=1).paths(hu, hist):
        apps = []
        for ev in p.events:
            if ev.kind == "write" and not ev.data.get("local"):
                root, chain, _ = resolve_root(ev)
                if root == "self" and chain[:1] == ["history"]:
                    arg0 = ev.node.args[0] if ev.data.get("method") == "append" and ev.node.args else None
                    # the argument may reach the append through the parameter of an inlined step (`self.record(op)`)
                    r0 = _resolve_expr(ev, arg0) if isinstance(arg0, ast.Name) else None
                    if r0 is not None and r0[0] == hu.params[1] and not r0[1]:
                        apps.append(ev)
                    else:
                        bad = True
                        chk.violation("R10.d", hu, ev.node, "history is modified other than by appending the notified operation", loc=ev.loc)
        if len(apps) != 1 and not bad:
            bad = True
            chk.violation("R10.d", hu, None, f"a path of HistoryObserver.update records the dispatch {len(apps)} times", path=p.describe())
        n_app += len(apps)
    if not bad:
        chk.ok("R10.d", hu.qualname, hu.loc(), "appends its argument exactly once on every path")
    from ..lifecycle import Lifecycle

    lc_h = Lifecycle(ctx)
    ws = [w for w in lc_h.attr_writes(hr, hist) if w.attr == "history"]

    def _empties(w):
        if w.kind == "rebind":
            v = getattr(w.event.node, "value", None)
            return v is not None and is_empty_list(ctx.norm.xexpr(w.fi, v))
        return ".clear()" in (w.text or "")

    # who may write the record: update appends the notified operation, reset
    # and the constructor start an empty list - nothing else (in particular no
    # back-filling from the schedule, whose order is not the dispatch order)
    for m in hist.methods.values():
        if m in (hu, hr) or isinstance(m.node, ast.Lambda):
            continue
        if m.name != "__init__" and only_called_from(ctx, m, {hu, hr}):
            continue  # a step of update / reset: judged where it is inlined above
        for w in lc_h.attr_writes(m, hist):
            if w.attr != "history" or w.fi in (hu, hr):
                continue
            if m.name == "__init__" and w.kind == "rebind" and is_empty_list(ctx.norm.xexpr(w.fi, getattr(w.event.node, "value", None) or ast.Constant(value=None))):
                continue
            chk.violation(
                "R10.d", m, w.event.node,
                f"HistoryObserver.{m.name} writes the history ({w.text}) outside update/reset: entries that were not "
                "notified dispatches (or not in notification order) enter the record",
                loc=w.loc,
            )
    if not ws:
        chk.violation("R10.d", hr, None, "HistoryObserver.reset never touches the history: the record of the previous episode stays")
    elif any(_empties(w) for w in ws):
        chk.ok("R10.d", hr.qualname, hr.loc(), "reset empties the history")
    else:
        w = ws[0]
        v = getattr(w.event.node, "value", None)
        if w.kind == "rebind" and v is not None and isinstance(ctx.norm.xexpr(w.fi, v), (ast.List, ast.ListComp, ast.Subscript, ast.Attribute, ast.Name)):
            chk.violation("R10.d", hr, w.event.node, f"HistoryObserver.reset leaves the history as `{ast.unparse(v)[:60]}`, not empty", loc=w.loc)
        else:
            raise AnalysisError(f"{w.loc}: HistoryObserver.reset: how the history is emptied is not recognised ({w.text})")

    # ---------------------------------------------------------------- R10.e
    ctx.attempt(_create_or_get, ctx, disp)

    # ---------------------------------------------------------------- R10.f
    forbidden = {
        repo.need_method(disp, n).qualname
        for n in ("dispatch", "reset", "subscribe", "unsubscribe", "create_or_get_observer")
    }
    n_f = 0
    for c in cone:
        upd = repo.method(c, "update")
        if upd is None or upd.cls is obs:
            continue
        n_f += 1
        hit = None
        for f, rc, via in ctx.effects.closure(upd, c, max_depth=5):
            for ev, t, trc in ctx.effects.calls(f, rc):
                if t.qualname in forbidden:
                    hit = (f, ev, t, via)
                    break
            if hit:
                break
        if hit:
            f, ev, t, via = hit
            chk.violation(
                "R10.f", upd, ev.node,
                f"{c.name}.update reaches Dispatcher.{t.name} (in {f.name}): the subscriber list or the "
                "state changes while the notification loop runs",
                loc=f.loc(ev.node), path=[*via, f.qualname],
            )
        else:
            chk.ok("R10.f", f"{c.qualname}.update", upd.loc())
    chk.floor("R10.f", n_f, 10, "observer classes with an update")


def _deferred_subscribe(init) -> ast.Call | None:
    """`super().__init__(..., subscribe=False)` followed, as a later statement of
    the same constructor body, by `if subscribe: <dispatcher>.subscribe(self)`:
    the base constructor has run its singleton guard, the flag decides as if it
    had been forwarded.  Returns the subscribe call."""
    if init is None or isinstance(init.node, ast.Lambda) or "subscribe" not in init.params or not init.params:
        return None
    me = init.params[0]
    body = init.node.body
    sup_at = None
    for i, st in enumerate(body):
        if isinstance(st, ast.Expr) and isinstance(st.value, ast.Call) and isinstance(st.value.func, ast.Attribute) and st.value.func.attr == "__init__" \
                and isinstance(st.value.func.value, ast.Call) and isinstance(st.value.func.value.func, ast.Name) and st.value.func.value.func.id == "super":
            kw = [k for k in st.value.keywords if k.arg == "subscribe"]
            if kw and isinstance(kw[0].value, ast.Constant) and kw[0].value.value is False:
                sup_at = i
    if sup_at is None:
        return None
    for st in body[sup_at + 1:]:
        if isinstance(st, ast.If) and isinstance(st.test, ast.Name) and st.test.id == "subscribe" and not st.orelse and len(st.body) == 1:
            x = st.body[0]
            if (
                isinstance(x, ast.Expr) and isinstance(x.value, ast.Call) and isinstance(x.value.func, ast.Attribute) and x.value.func.attr == "subscribe"
                and len(x.value.args) == 1 and isinstance(x.value.args[0], ast.Name) and x.value.args[0].id == me
            ):
                return x.value
    return None


def _snapshot_notification(ctx, disp, hook):
    """(method, loop, source text) when a Dispatcher method calls the elements of a
    list of bound `<subscriber>.<hook>` methods built from self.subscribers beforehand."""
    for m in disp.methods.values():
        if isinstance(m.node, ast.Lambda):
            continue
        for lp in own_nodes(m.node):
            if not (isinstance(lp, ast.For) and isinstance(lp.target, ast.Name)):
                continue
            called = any(isinstance(c, ast.Call) and isinstance(c.func, ast.Name) and c.func.id == lp.target.id for st in lp.body for c in ast.walk(st))
            if not called:
                continue
            src = ctx.norm.xexpr(m, lp.iter)
            eager = isinstance(src, ast.ListComp)
            if isinstance(src, ast.Call) and isinstance(src.func, ast.Name) and src.func.id in ("list", "tuple") and len(src.args) == 1:
                src, eager = src.args[0], True
            if (
                eager and isinstance(src, (ast.ListComp, ast.GeneratorExp)) and len(src.generators) == 1 and isinstance(src.elt, ast.Attribute) and src.elt.attr == hook
                and isinstance(src.generators[0].target, ast.Name) and isinstance(src.elt.value, ast.Name) and src.elt.value.id == src.generators[0].target.id
                and ast.unparse(src.generators[0].iter).endswith("subscribers")
            ):
                return m, lp, ast.unparse(src)
    return None


def _resolve_expr(ev, expr):
    # `*args` of an inlined forwarder whose call passed exactly one extra positional argument
    if isinstance(expr, ast.Starred) and isinstance(expr.value, ast.Name):
        fr = ev.frame
        fn = fr.fi.node
        va = getattr(getattr(fn, "args", None), "vararg", None)
        call = fr.call_node
        if va is not None and va.arg == expr.value.id and fr.parent is not None and isinstance(call, ast.Call):
            n_named = len(fn.args.posonlyargs + fn.args.args) - (1 if fr.fi.cls is not None and not fr.fi.is_static else 0)
            extra = call.args[n_named:]
            if len(extra) == 1 and not isinstance(extra[0], ast.Starred):
                class _E:  # the argument lives in the caller's frame
                    frame = fr.parent
                return _resolve_expr(_E, extra[0])
    if isinstance(expr, ast.Name):
        root, chain, fr = resolve_root(ev, expr.id, [])
        return (root, tuple(chain), fr.id if fr else None)
    return (ast.unparse(expr), (), ev.frame.id)


def _memo_lookup(rv, me):
    """``self.<tbl>.get(k)`` / ``self.<tbl>[k]`` with <tbl> other than the
    subscriber list -> the table's attribute name."""
    base = None
    if isinstance(rv, ast.Call) and isinstance(rv.func, ast.Attribute) and rv.func.attr == "get":
        base = rv.func.value
    elif isinstance(rv, ast.Subscript):
        base = rv.value
    if isinstance(base, ast.Attribute) and isinstance(base.value, ast.Name) and base.value.id == me and base.attr != "subscribers":
        return base.attr
    return None


def _create_or_get(ctx, disp):
    chk = ctx.chk
    fi = ctx.repo.need_method(disp, "create_or_get_observer")
    n_before = len(chk.findings)
    nt = falsy_object_tests(ctx, "R10.e", lambda f: f.module is disp.module)
    chk.analysed["truthiness_tests_in_dispatcher_module"] = nt
    if len(chk.findings) > n_before:
        return
    ps = fi.params  # self, observer, condition
    if len(ps) < 3:
        raise AnalysisError("create_or_get_observer signature changed")
    typ, cond = ps[1], ps[2]
    F = ctx.norm.flat(fi)
    # without an explicit condition every subscribed observer of the type
    # matches: the default is an always-true predicate (a lambda / function
    # returning True), or None replaced by one
    a_ = fi.node.args
    pos_ = a_.posonlyargs + a_.args
    dflt = dict(zip([x.arg for x in pos_[len(pos_) - len(a_.defaults):]], a_.defaults))
    dflt.update({k.arg: d for k, d in zip(a_.kwonlyargs, a_.kw_defaults) if d is not None})

    def always_true(e, depth=0):
        if depth > 3 or e is None:
            return False
        if isinstance(e, ast.Lambda):
            return isinstance(e.body, ast.Constant) and e.body.value is True
        if isinstance(e, ast.Name):
            q = ctx.repo.resolve(fi.module.name, e.id)
            f2 = ctx.repo.functions.get(q or "")
            if f2 is not None and not isinstance(f2.node, ast.Lambda):
                rets = [r for r in own_nodes(f2.node) if isinstance(r, ast.Return)]
                return bool(rets) and all(isinstance(r.value, ast.Constant) and r.value.value is True for r in rets)
            nested = [n for n in own_nodes(fi.node) if isinstance(n, ast.FunctionDef) and n.name == e.id]
            if nested:
                rets = [r for r in ast.walk(nested[0]) if isinstance(r, ast.Return)]
                return bool(rets) and all(isinstance(r.value, ast.Constant) and r.value.value is True for r in rets)
            v = fi.module.assigns.get(e.id)
            return always_true(v, depth + 1) if v is not None else False
        return False

    d_ = dflt.get(cond)
    if d_ is not None:
        fallback = None
        if isinstance(d_, ast.Constant) and d_.value is None:
            # `if condition is None: condition = <...>` / a nested def bound to the name
            for n in own_nodes(fi.node):
                if isinstance(n, ast.Assign) and any(isinstance(t, ast.Name) and t.id == cond for t in n.targets):
                    fallback = n.value
                elif isinstance(n, ast.FunctionDef) and n.name == cond:
                    fallback = ast.Name(id=cond, ctx=ast.Load())
            ok_default = always_true(fallback)
            shown = ast.unparse(fallback)[:60] if fallback is not None and not isinstance(fallback, ast.Name) else f"the nested function `{cond}`"
        else:
            ok_default = always_true(d_)
            shown = ast.unparse(d_)[:60]
        if ok_default:
            chk.ok("R10.e", fi.qualname, fi.loc(), "default condition accepts every subscribed observer of the type")
        else:
            chk.violation(
                "R10.e", fi, d_,
                f"without an explicit condition the look-up uses {shown}, which can reject a subscribed observer of the requested "
                "type: create_or_get_observer then builds a second one (a duplicate subscriber; for the singleton observers a "
                "ValidationError) instead of returning the one that is subscribed",
                loc=fi.loc(d_),
            )
            return
    loops = [n for n in own_nodes(F.node) if isinstance(n, ast.For) and _direct_subscribers_iter(n.iter) and isinstance(n.target, ast.Name)]
    if not loops:
        comp = [n for n in own_nodes(F.node) if isinstance(n, (ast.GeneratorExp, ast.ListComp)) and _direct_subscribers_iter(n.generators[0].iter)]
        if comp:
            # next(o for o in subscribers if ...) style: judge the filter
            g = comp[0].generators[0]
            v = g.target.id if isinstance(g.target, ast.Name) else None
            atoms = {}
            from .common import decompose

            for c in g.ifs:
                for a, val in decompose(c, True, lambda n: ast.unparse(n)):
                    atoms[a] = val
            if atoms.get(f"isinstance({v}, {typ})") and atoms.get(f"{cond}({v})"):
                chk.ok("R10.e", fi.qualname, fi.loc(), "first match (generator) else construct")
            else:
                chk.violation(
                    "R10.e", fi, comp[0],
                    "the subscriber looked up is filtered by less than `isinstance(observer type) and condition`: the "
                    "first subscriber of the type is taken even when it does not satisfy the caller's condition (a new "
                    "observer is then created although a matching one is subscribed)",
                    loc=fi.loc(comp[0]),
                )
            return
        chk.violation("R10.e", fi, None, "no loop over self.subscribers returning the first matching observer: an already subscribed observer is not reused")
        return
    eng = ctx.engine(relevant=lambda e: e.kind == "write" and e.data.get("local"), max_depth=0, unroll=1)
    n_ret = 0
    built_ok = False
    for p in eng.paths(F, disp):
        if p.outcome != "return":
            continue
        rv = p.events[-1].data.get("value")
        rv = ctx.norm.xexpr(F, rv) if rv is not None else None
        # a local assigned on this very path (result of an inlined search step):
        # the value it was last given on the path
        for _ in range(3):
            if not (isinstance(rv, ast.Name) and not any(rv.id == lp.target.id for lp in loops)):
                break
            last = next((e for e in reversed(p.events) if e.kind == "write" and e.data.get("local") and e.data.get("root") == rv.id
                         and isinstance(e.node, ast.Assign) and len(e.node.targets) == 1 and isinstance(e.node.targets[0], ast.Name)), None)
            if last is None:
                break
            # the path is infeasible if it later takes a branch that contradicts
            # this very value (`x = SENTINEL` ... `if x is not SENTINEL:` taken)
            vt, nm = ast.unparse(last.node.value), rv.id
            later = p.events[p.events.index(last) + 1:]
            contradicted = any(
                e.kind == "branch" and (
                    (ast.unparse(e.node) in (f"{nm} is not {vt}", f"{nm} != {vt}") and e.data.get("taken") is True)
                    or (ast.unparse(e.node) in (f"{nm} is {vt}", f"{nm} == {vt}") and e.data.get("taken") is False)
                )
                for e in later
            )
            if contradicted:
                rv = None
                break
            rv = last.node.value
        if rv is None:
            continue
        if isinstance(rv, ast.IfExp):
            arms = (rv.body, rv.orelse)
            none_arm = next((x for x in arms if isinstance(x, ast.Constant) and x.value is None), None)
            other = next((x for x in arms if x is not none_arm), None)
            if none_arm is not None and isinstance(other, ast.Name) and any(other.id == lp.target.id for lp in loops):
                chk.violation(
                    "R10.e", fi, p.events[-1].node,
                    f"the search returns `{ast.unparse(rv)[:70]}` from inside the loop: it ends at the first subscriber reached there, and "
                    "when that one does not pass the test the answer is None although a later subscriber may match - a second "
                    "observer is then created and subscribed",
                    loc=p.events[-1].loc, path=p.describe(),
                )
                return
        lv = next((lp.target.id for lp in loops if isinstance(rv, ast.Name) and rv.id == lp.target.id), None)
        if lv is not None:
            n_ret += 1
            atoms = path_atoms(ctx, p.events)
            a1 = atoms.get(f"isinstance({lv}, {typ})")
            a2 = atoms.get(f"{cond}({lv})")
            if a2 is None:
                # `if condition is None or condition(x):` taken - no condition given means every observer of the type matches
                for e_ in p.events:
                    t_ = e_.node if e_.kind == "branch" else None
                    if (
                        isinstance(t_, ast.BoolOp) and isinstance(t_.op, ast.Or) and e_.data.get("taken") is True and len(t_.values) == 2
                        and ast.unparse(t_.values[0]).replace(" ", "") == f"{cond}isNone" and ast.unparse(t_.values[1]).replace(" ", "") == f"{cond}({lv})"
                    ):
                        a2 = True
            if not (a1 is True and a2 is True):
                chk.violation(
                    "R10.e", fi, p.events[-1].node,
                    "an existing subscriber is returned without testing both isinstance(observer type) "
                    "and the caller's condition",
                    loc=p.events[-1].loc, path=p.describe(),
                )
                return
        elif isinstance(rv, ast.Call) and isinstance(rv.func, ast.Name) and rv.func.id == typ:
            kw = fi.node.args.kwarg.arg if fi.node.args.kwarg else None
            first_self = (rv.args and isinstance(rv.args[0], ast.Name) and rv.args[0].id == ps[0]) or any(
                k.arg == "dispatcher" and isinstance(k.value, ast.Name) and k.value.id == ps[0] for k in rv.keywords)
            fwd = kw is None or any(k.arg is None and isinstance(k.value, ast.Name) and k.value.id == kw for k in rv.keywords)
            if not first_self or not fwd:
                chk.violation("R10.e", fi, rv, "the new observer is not constructed as observer(self, **kwargs)", loc=fi.loc())
                return
            built_ok = True
        elif _memo_lookup(rv, ps[0]) is not None:
            # an observer handed out of a look-up table kept beside the
            # subscriber list: only sound if unsubscribing empties the table or
            # removes the entries *by value* (the keys it was filled under are
            # the requested types, not the observer's own type)
            tbl = _memo_lookup(rv, ps[0])
            unsub = ctx.repo.need_method(disp, "unsubscribe")
            U = ctx.norm.flat(unsub)
            obs_p = unsub.params[1] if len(unsub.params) > 1 else None
            cleared = False
            for n in own_nodes(U.node):
                t = ast.unparse(n) if isinstance(n, (ast.Call, ast.Assign)) else ""
                if isinstance(n, ast.Call) and t == f"self.{tbl}.clear()":
                    cleared = True
                if isinstance(n, ast.Assign) and ast.unparse(n.targets[0]) == f"self.{tbl}" and isinstance(n.value, (ast.Dict, ast.DictComp, ast.Call)):
                    if isinstance(n.value, ast.DictComp):
                        cleared = cleared or any(isinstance(c, ast.Compare) and isinstance(c.ops[0], (ast.IsNot, ast.NotEq)) and obs_p in ast.unparse(c) for g in n.value.generators for c in g.ifs)
                    else:
                        cleared = True
                if isinstance(n, ast.For) and ast.unparse(n.iter).replace(" ", "").startswith((f"list(self.{tbl}.items())", f"tuple(self.{tbl}.items())")):
                    cleared = cleared or any(isinstance(c, ast.Compare) and isinstance(c.ops[0], (ast.Is, ast.Eq)) and obs_p in ast.unparse(c) for c in ast.walk(n))
            if cleared:
                n_ret += 1
            else:
                chk.violation(
                    "R10.e", fi, p.events[-1].node,
                    f"an observer is returned from the look-up table `self.{tbl}` rather than from the subscriber list, and "
                    f"unsubscribe neither empties that table nor removes its entries by value: after an observer is "
                    "unsubscribed a later look-up can still hand it out (it no longer receives anything)",
                    loc=p.events[-1].loc,
                )
                return
        else:
            raise AnalysisError(f"{fi.qualname}: return value `{ast.unparse(rv) if rv is not None else None}` not recognised")
    if n_ret == 0:
        chk.violation("R10.e", fi, None, "no path returns an already subscribed observer: a matching observer is not reused")
    elif not built_ok:
        chk.violation("R10.e", fi, None, "no construction of the requested observer type when none matches")
    else:
        chk.ok("R10.e", fi.qualname, fi.loc(), "first match else construct")
