"""C01 - every dispatch history yields a feasible schedule (gating clauses).

R01.a  gate-before-append: on every accepted path of ``Dispatcher.dispatch``
       the append to a machine list is preceded, in this order, by the
       readiness test on the dispatched operation, the ScheduledOperation
       constructor's eligibility test (machine in operation.machines) and
       Schedule.add's order test; the appended object, the list index and the
       order test all speak about the same scheduled operation.
R01.b  single writer: the per-machine lists are mutated only inside class
       Schedule; Schedule.add is called only from Dispatcher.dispatch; the
       constructor and the setter install a list only after check_schedule.
R01.c  add-then-advance: the tracking vectors are written only after
       Schedule.add returned.
R01.d  the order relation is ``previous.end_time <= new.start_time`` against
       the *last* operation of the same machine, in add's check and in
       check_schedule alike.
"""

from __future__ import annotations

import ast

from ..repo import AnalysisError, dotted, own_nodes
from .roles import dispatcher_roles, schedule_attr, machine_id_attr
from .common import only_called_from, DISPATCHER, resolve_root

MANIFEST = {
    "text": (
        "Decides the gating and ownership clauses of C01 for every instance and "
        "history: no path reaches the append to a machine list without passing "
        "the readiness test (each operation at most once, job order), the "
        "eligibility test (eligible machine) and the time-order test against the "
        "last operation of that machine (listed in time order, no overlap on a "
        "machine); nobody but Schedule mutates the lists and nobody but "
        "Dispatcher.dispatch calls Schedule.add; lists installed wholesale go "
        "through check_schedule. Not decided: the start-time arithmetic, "
        "non-negativity and completeness counting (values)."
    ),
    "note": "Path enumeration bounds: calls inlined to depth 6, loops unrolled once (twice in thorough).",
    "technique": "path enumeration with inlining (must-pass-through ordering automaton) + typed who-may-write / who-may-call sweep",
    "ref": "DESIGN.md §3 C01",
}
UNDECIDED = [
    "start-time arithmetic (no overlap within a job, non-negative starts) - values",
    "completeness after exactly one dispatch per operation - counting over runtime values",
]
ASSUMPTIONS = ["instances are not modified during dispatching (C14 R14.a)"]


def _rel(e):
    if e.kind in ("raise",):
        return True
    return e.kind == "write" and not e.data.get("local")


def _is_readiness(ev):
    t = (_CTX[0].norm.xtext(ev.fi, ev.node) + " " + ast.unparse(ev.node)) if _CTX and isinstance(ev.node, ast.AST) else ev.data.get("text", "")
    idx = dispatcher_roles(_CTX[0])["job_index"] if _CTX else "_job_next_operation_index"
    return ev.kind == "branch" and ("is_operation_ready" in t or ((idx in t or "job_next_operation_index" in t) and "position_in_job" in t))


_CTX: list = []
_TRACKING: set = set()
_MID = ["_machine_id"]


def _is_eligibility(ev):
    n = ev.node
    if not (ev.kind == "branch" and isinstance(n, ast.Compare) and len(n.ops) == 1 and isinstance(n.ops[0], (ast.NotIn, ast.In))):
        return False
    t = _CTX[0].norm.xtext(ev.fi, n.comparators[0]) if _CTX else ast.unparse(n.comparators[0])
    return "machines" in t


def _sched_cls(ctx):
    return ctx.repo.find_class("Schedule")


def run(ctx):
    chk, repo = ctx.chk, ctx.repo
    chk.rule("R01.a", "readiness test < ScheduledOperation eligibility test < Schedule.add order test < append, same scheduled operation throughout, on every accepted dispatch path")
    chk.rule("R01.b", "machine lists mutated only inside Schedule; Schedule.add called only from Dispatcher.dispatch; wholesale installs pass check_schedule")
    chk.rule("R01.c", "tracking vectors written only after Schedule.add returned")
    chk.rule("R01.d", "order relation previous.end_time <= new.start_time against the last operation of the same machine (add) / the predecessor (check_schedule)")
    _CTX[:] = [ctx]
    R = dispatcher_roles(ctx)
    _TRACKING.clear()
    _TRACKING.update({R["mach_free"], R["job_index"], R["job_free"]})
    _MID[0] = machine_id_attr(ctx)
    disp = repo.find_class(DISPATCHER)
    sched = _sched_cls(ctx)
    sop = repo.find_class("ScheduledOperation")
    dispatch = repo.need_method(disp, "dispatch")
    add = repo.need_method(sched, "add")
    eng = ctx.engine(relevant=_rel, max_depth=6)
    paths = eng.paths(dispatch, disp)
    n_acc = 0
    bad = False
    for p in paths:
        if p.outcome == "raise":
            continue
        n_acc += 1
        evs = p.events
        appends = [
            (i, e) for i, e in enumerate(evs)
            if e.kind == "write" and e.data.get("op") == "mutcall" and e.frame.fi.cls is not None
            and e.frame.fi.cls.qualname == sched.qualname
            and e.data.get("method") in ("append", "insert", "extend")
        ]
        if len(appends) != 1:
            bad = True
            chk.violation(
                "R01.a", dispatch, None,
                f"an accepted dispatch path adds to the schedule {len(appends)} times (must be exactly once)",
                path=p.describe(),
            )
            continue
        ia, app = appends[0]
        if app.data.get("method") == "insert":
            # `insert(<computed position>, x)`: a sorted insertion.  Whether the position found keeps the list in
            # time order and the tests around it exclude every overlap is an argument about the search loop,
            # not about the shape of the code; a constant position is not such an argument
            call_ = app.node if isinstance(app.node, ast.Call) else next((x for x in ast.walk(app.node) if isinstance(x, ast.Call) and isinstance(x.func, ast.Attribute) and x.func.attr == "insert"), None)
            pos_ = call_.args[0] if call_ is not None and call_.args else None
            if pos_ is not None and not isinstance(pos_, ast.Constant) and not (isinstance(pos_, ast.UnaryOp) and isinstance(pos_.operand, ast.Constant)):
                raise AnalysisError(
                    f"{app.loc}: the scheduled operation is inserted at a computed position (`{ast.unparse(call_)[:70]}`); whether that "
                    "position keeps the machine list in time order without overlap is not decided by this analysis"
                )
        if app.data.get("method") != "append":
            bad = True
            chk.violation("R01.a", app.fi, app.node, "the scheduled operation is not appended at the end of its machine list: the list is no longer in time order", loc=app.loc)
            continue
        i_ready = next((i for i, e in enumerate(evs[:ia]) if _is_readiness(e)), None)
        i_ctor = next((i for i, e in enumerate(evs[:ia]) if e.kind == "enter" and e.frame.fi.cls is not None and e.frame.fi.cls.qualname == sop.qualname and e.frame.fi.name == "__init__"), None)
        i_elig = next((i for i, e in enumerate(evs[:ia]) if _is_eligibility(e)), None)
        i_add = next((i for i, e in enumerate(evs[:ia]) if e.kind == "enter" and e.frame.fi is add), None)
        def _inside_add(fr):
            # Schedule.add itself or a helper it runs (a validation function moved to another module)
            while fr is not None:
                if fr.fi is add or (fr.fi.cls is not None and fr.fi.cls.qualname == sched.qualname):
                    return True
                fr = fr.parent
            return False

        i_order = next(
            (i for i, e in enumerate(evs[:ia])
             if e.kind == "branch" and i_add is not None and i > i_add and _inside_add(e.frame)),
            None,
        )
        missing = []
        if i_ready is None:
            missing.append("readiness test (operation is the next of its job)")
        if i_ctor is None or i_elig is None or not (i_ctor < i_elig):
            missing.append("eligibility test in the ScheduledOperation constructor")
        if i_add is None or i_order is None:
            missing.append("time-order test in Schedule.add")
        if missing:
            bad = True
            chk.violation(
                "R01.a", dispatch, app.node,
                "the append to the machine list is reached without passing: " + "; ".join(missing),
                loc=app.loc, path=p.describe(),
            )
            continue
        if not (i_ready < i_ctor < i_elig < i_add < i_order < ia):
            bad = True
            chk.violation(
                "R01.a", dispatch, app.node,
                "gates are passed in the wrong order (readiness < eligibility < order check < append required)",
                loc=app.loc, path=p.describe(),
            )
            continue
        # readiness must be about the dispatched operation
        rd = evs[i_ready]
        if not _readiness_on(rd, dispatch.params[1]):
            bad = True
            chk.violation("R01.a", dispatch, rd.node, "the readiness test does not test the operation being dispatched", loc=rd.loc)
            continue
        # eligibility: value tested must be the machine the operation is recorded on
        el = evs[i_elig]
        if not _eligibility_consistent(el):
            bad = True
            chk.violation(
                "R01.a", el.fi, el.node,
                "the eligibility test does not compare the machine id being stored with the operation's own machines",
                loc=el.loc,
            )
            continue
        # append target: self.schedule[<param>.machine_id].append(<param>)
        why = _append_consistent(app, add)
        if why:
            bad = True
            chk.violation("R01.a", app.fi, app.node, why, loc=app.loc)
            continue
        # R01.c: tracking writes after add returned
        i_exit = next((i for i, e in enumerate(evs) if e.kind == "exit" and e.frame.fi is add), None)
        for i, e in enumerate(evs):
            if e.kind == "write" and not e.data.get("local"):
                root, chain, fr = resolve_root(e)
                if fr is not None and fr.parent is None and root == "self" and chain and chain[0] in _TRACKING:
                    if i_exit is None or i < i_exit:
                        bad = True
                        chk.violation(
                            "R01.c", dispatch, e.node,
                            f"`{e.data.get('text')}` advances the tracking state before Schedule.add accepted the operation",
                            loc=e.loc, path=p.describe(),
                        )
    if n_acc == 0:
        raise AnalysisError("dispatch has no accepted path")
    if not bad:
        chk.ok("R01.a", dispatch.qualname, dispatch.loc(), f"{n_acc} accepted paths pass all three gates in order")
        chk.ok("R01.c", dispatch.qualname, dispatch.loc(), "tracking writes follow Schedule.add")
    chk.analysed["dispatch_paths"] = len(paths)

    # ---------------------------------------------------------------- R01.d
    ctx.attempt(_order_relation, ctx, sched, add)

    # ---------------------------------------------------------------- R01.b
    n_w = 0
    for fi in repo.all_functions():
        if isinstance(fi.node, ast.Lambda):
            continue
        inside = fi.cls is not None and fi.cls.qualname == sched.qualname
        for ev in ctx.effects.events(fi, fi.cls):
            if ev.kind != "write":
                continue
            obj = ctx.effects.mutated_object(ev)
            if obj is None:
                continue
            if _touches_machine_lists(ctx, fi, obj, sched):
                n_w += 1
                if inside:
                    chk.ok("R01.b", fi.qualname, ev.loc, ev.data.get("text", "")[:60])
                else:
                    chk.violation(
                        "R01.b", fi, ev.node,
                        "a schedule's machine lists are modified outside class Schedule, bypassing its order check",
                        loc=ev.loc,
                    )
    chk.floor("R01.b", n_w, 1, "writes to schedule lists")
    callers = []
    for fi in repo.all_functions():
        for ev, t, rc in ctx.effects.calls(fi, fi.cls):
            if t is add:
                callers.append((fi, ev))
    for fi, ev in callers:
        if fi is dispatch or only_called_from(ctx, fi, {dispatch}):
            chk.ok("R01.b", fi.qualname, ev.loc, "Schedule.add called from Dispatcher.dispatch")
        else:
            chk.violation(
                "R01.b", fi, ev.node,
                "Schedule.add is called from outside Dispatcher.dispatch: the readiness and start-time "
                "logic of the dispatcher is bypassed",
                loc=ev.loc,
            )
    if not callers and not any(i["rule"] in ("R01.a", "R01.b") and i["verdict"] != "holds" for i in chk.instances):
        raise AnalysisError("no caller of Schedule.add found")
    # wholesale installs: __init__ and the setter check before assigning
    # (check_schedule itself, or the function it hands its whole argument to)
    validators = set()
    cs = sched.methods.get("check_schedule")
    if cs is not None:
        body = [x for x in cs.node.body if not (isinstance(x, ast.Expr) and isinstance(x.value, ast.Constant))]
        if len(body) == 1 and isinstance(body[0], (ast.Expr, ast.Return)) and isinstance(body[0].value, ast.Call):
            dc = body[0].value
            if len(dc.args) == 1 and not dc.keywords and isinstance(dc.args[0], ast.Name) and dc.args[0].id in cs.params:
                try:
                    validators = {t.qualname for t in ctx.res.callees(cs, dc, sched)[0]}
                except Exception:
                    validators = set()

    def _is_validator_call(c):
        if (c.data.get("name") or "").endswith("check_schedule"):
            return True
        if not validators:
            return False
        try:
            ts = ctx.res.callees(c.fi, c.node, c.fi.cls)[0]
        except Exception:
            return False
        return bool(ts) and all(t.qualname in validators for t in ts)

    for m in [sched.methods.get("__init__"), sched.setters.get("schedule")]:
        if m is None:
            continue
        e2 = ctx.engine(relevant=_rel, max_depth=2)
        for p in e2.paths(m, sched):
            if p.outcome == "raise":
                continue
            for i, e in enumerate(p.events):
                if e.kind == "write" and not e.data.get("local"):
                    root, chain, fr = resolve_root(e)
                    if fr is not None and fr.parent is None and root == "self" and chain == [schedule_attr(ctx)]:
                        st = e.node
                        val = getattr(st, "value", None)
                        checked = any(
                            c.kind == "call" and _is_validator_call(c)
                            and c.node.args and isinstance(val, ast.Name) and isinstance(c.node.args[0], ast.Name)
                            and c.node.args[0].id == val.id
                            for c in p.events[:i]
                        )
                        if not checked and isinstance(val, ast.Name):
                            # one fresh empty sequence per machine needs no validation: the value bound
                            # last on this path is `[[] for _ in ...]` (possibly by a one-expression helper)
                            last = None
                            for c in p.events[:i]:
                                if c.kind == "write" and c.data.get("local") and isinstance(c.node, (ast.Assign, ast.AnnAssign)) and c.frame is e.frame:
                                    tg = c.node.targets[0] if isinstance(c.node, ast.Assign) and len(c.node.targets) == 1 else getattr(c.node, "target", None)
                                    if isinstance(tg, ast.Name) and tg.id == val.id:
                                        last = c
                            if last is not None and last.node.value is not None:
                                x = ctx.norm.xexpr(last.fi, last.node.value)
                                if (
                                    isinstance(x, ast.ListComp) and len(x.generators) == 1 and not x.generators[0].ifs
                                    and isinstance(x.elt, ast.List) and not x.elt.elts
                                ):
                                    checked = True
                        elif not checked and val is not None:
                            x = ctx.norm.xexpr(e.fi, val)
                            if isinstance(x, ast.ListComp) and len(x.generators) == 1 and not x.generators[0].ifs and isinstance(x.elt, ast.List) and not x.elt.elts:
                                checked = True
                        if checked:
                            chk.ok("R01.b", m.qualname, e.loc, "installed after check_schedule")
                        else:
                            chk.violation(
                                "R01.b", m, e.node,
                                "a list of machine sequences is installed without passing check_schedule first",
                                loc=e.loc,
                            )


def _readiness_on(ev, op_param):
    for n in ast.walk(ev.node):
        if isinstance(n, ast.Call) and isinstance(n.func, ast.Attribute) and n.func.attr == "is_operation_ready":
            return bool(n.args) and isinstance(n.args[0], ast.Name) and n.args[0].id == op_param
    names = {n.id for n in ast.walk(ev.node) if isinstance(n, ast.Name)}
    return op_param in names


def _eligibility_consistent(ev):
    """`value not in self.operation.machines` inside the machine_id setter /
    constructor: the tested value must be what is stored as the machine id."""
    n = ev.node
    left = n.left
    fi = ev.frame.fi
    comp = _CTX[0].norm.xexpr(fi, n.comparators[0]) if _CTX else n.comparators[0]
    if not (isinstance(comp, ast.Attribute) and comp.attr == "machines"):
        return False
    owner = ast.unparse(comp.value)
    if owner not in ("self.operation", "operation"):
        return False
    if not isinstance(left, ast.Name):
        return False
    # the same name must be what is written to self._machine_id in this frame,
    # or be the machine parameter of the constructor
    for m in own_nodes(fi.node):
        if isinstance(m, ast.Assign) and any(isinstance(t, ast.Attribute) and t.attr == _MID[0] for t in m.targets):
            if isinstance(m.value, ast.Name) and m.value.id == left.id:
                return True
    return left.id in fi.params and "machine" in left.id


def _append_consistent(app, add):
    call = app.node
    tgt = app.data.get("target")
    p = add.params[1]
    if app.frame.fi is not add:
        return None  # helper inside Schedule: shape checked by R01.b only
    if not (call.args and isinstance(call.args[0], ast.Name) and call.args[0].id == p):
        return "the object appended is not the scheduled operation that was checked"
    if _CTX and not isinstance(tgt, ast.Subscript) and tgt is not None:
        tgt = _CTX[0].norm.xexpr(add, tgt)  # a local alias of the machine's list
    if not isinstance(tgt, ast.Subscript):
        return "append target is not a machine list selected by index"
    idx = _CTX[0].norm.xtext(add, tgt.slice) if _CTX else ast.unparse(tgt.slice)
    if idx != f"{p}.machine_id":
        return f"the machine list is selected by `{idx}`, not by the scheduled operation's machine_id"
    return None


def _relation(ctx, F, test):
    """Normalises a raising guard's test to (prev_expr, new_expr, kind) where
    the guard fires exactly when NOT prev.end_time <= new.start_time.
    kind: 'ok' | 'strict' (contiguous rejected) | 'other'; None if the test is
    not a comparison of an end time with a start time."""
    t = ctx.norm.xexpr(F, test)
    neg = False
    while isinstance(t, ast.UnaryOp) and isinstance(t.op, ast.Not):
        t, neg = t.operand, not neg
    if isinstance(t, ast.BoolOp) and isinstance(t.op, ast.And):
        # `i > 0 and not valid`: take the conjunct that compares times
        for v in t.values:
            r = _relation(ctx, F, ast.UnaryOp(op=ast.Not(), operand=v) if neg else v)
            if r is not None:
                return r
        return None
    if not (isinstance(t, ast.Compare) and len(t.ops) == 1):
        return None
    l, r, op = t.left, t.comparators[0], t.ops[0]

    def side(e):
        if isinstance(e, ast.Attribute) and e.attr in ("end_time", "start_time"):
            return e.attr, e.value
        return None

    sl, sr = side(l), side(r)
    if sl is None or sr is None:
        return None
    # holds(valid) relation as written (before applying neg)
    # normalise to "guard fires when G"; G = (neg ? not C : C)
    # we want G == (prev.end > new.start)
    kinds = {sl[0], sr[0]}
    if kinds != {"end_time", "start_time"}:
        return (sl[1], sr[1], "other")
    if sl[0] == "end_time":
        prev, new = sl[1], sr[1]
        # C: prev.end OP new.start
        fires_gt = (isinstance(op, ast.Gt) and not neg) or (isinstance(op, ast.LtE) and neg)
        fires_ge = (isinstance(op, ast.GtE) and not neg) or (isinstance(op, ast.Lt) and neg)
    else:
        new, prev = sl[1], sr[1]
        # C: new.start OP prev.end
        fires_gt = (isinstance(op, ast.Lt) and not neg) or (isinstance(op, ast.GtE) and neg)
        fires_ge = (isinstance(op, ast.LtE) and not neg) or (isinstance(op, ast.Gt) and neg)
    if fires_gt:
        return (prev, new, "ok")
    if fires_ge:
        return (prev, new, "strict")
    return (prev, new, "other")


def _raising_ifs(F):
    """``if G: raise`` guards, including the inverted spelling
    ``if OK: return`` immediately followed by ``raise`` (-> ``if not OK: raise``)."""
    out = [n for n in own_nodes(F.node) if isinstance(n, ast.If) and any(isinstance(x, ast.Raise) for x in n.body)]
    for n in own_nodes(F.node):
        # `if OK: <no raise> else: raise`
        if isinstance(n, ast.If) and n not in out and any(isinstance(x, ast.Raise) for x in n.orelse) and not any(isinstance(x, ast.Raise) for b in n.body for x in ast.walk(b)):
            g = ast.If(test=ast.UnaryOp(op=ast.Not(), operand=n.test), body=list(n.orelse), orelse=[])
            ast.copy_location(g, n)
            ast.copy_location(g.test, n.test)
            out.append(g)
    for n in own_nodes(F.node):
        for fld in ("body", "orelse", "finalbody"):
            blk = getattr(n, fld, None)
            if not (isinstance(blk, list) and blk and isinstance(blk[0], ast.stmt)):
                continue
            for a, b in zip(blk, blk[1:]):
                if (
                    isinstance(a, ast.If) and not a.orelse and a.body and isinstance(a.body[-1], (ast.Return, ast.Continue))
                    and not any(isinstance(x, ast.Raise) for x in ast.walk(a)) and isinstance(b, ast.Raise)
                ):
                    g = ast.If(test=ast.UnaryOp(op=ast.Not(), operand=a.test), body=[b], orelse=[])
                    ast.copy_location(g, a)
                    ast.copy_location(g.test, a.test)
                    out.append(g)
    return out


def _order_relation(ctx, sched, add):
    chk = ctx.chk
    F = ctx.norm.flat(add, depth=3)
    p = add.params[1]
    rels = []
    for g in _raising_ifs(F):
        r = _relation(ctx, F, g.test)
        if r is not None:
            rels.append((g, r))
    if not rels:
        chk.violation(
            "R01.d", add, None,
            "Schedule.add has no raising test of the new operation's start time against the end of the previous "
            "operation on its machine: overlapping / out-of-order operations are accepted",
        )
    for g, (prev, new, kind) in rels:
        prev_t = ctx.norm.xtext(F, prev).replace(" ", "")
        new_t = ctx.norm.xtext(F, new)
        if kind == "other":
            chk.violation(
                "R01.d", add, g.test,
                f"the order test `{ctx.norm.xtext(F, g.test)[:100]}` is not `previous.end_time <= new.start_time`: "
                "overlapping or out-of-order operations on a machine are accepted (or valid ones rejected)",
                loc=F.loc(g),
            )
            continue
        if kind == "strict":
            chk.violation("R01.d", add, g.test, "the order test rejects an operation that starts exactly when the previous one ends", loc=F.loc(g))
            continue
        if new_t != p:
            chk.violation("R01.d", add, g.test, f"the order test is about `{new_t}`, not about the operation being added", loc=F.loc(g))
            continue
        want = {f"self.schedule[{p}.machine_id][-1]", f"self._schedule[{p}.machine_id][-1]"}
        if prev_t in want:
            chk.ok("R01.d", add.qualname, F.loc(g), "raises unless last(machine).end_time <= new.start_time")
        else:
            m = prev_t
            if f"[{p}.machine_id]" not in m:
                chk.violation("R01.d", add, g.test, f"the predecessor `{m}` is not looked up on the new operation's machine", loc=F.loc(g))
            elif not m.endswith("[-1]"):
                chk.violation("R01.d", add, g.test, f"the new operation is compared with `{m}`, not with the last operation of its machine list", loc=F.loc(g))
            else:
                raise AnalysisError(f"{F.loc(g)}: predecessor expression `{m}` not recognised")
    # check_schedule: machine id match + relation with predecessor i-1
    cs = sched.methods.get("check_schedule")
    if cs is None:
        raise AnalysisError("Schedule.check_schedule vanished")
    C = ctx.norm.flat(cs, depth=2)
    has_mid = False
    has_rel = None
    for g in _raising_ifs(C):
        t = ctx.norm.xexpr(C, g.test)
        if isinstance(t, ast.Compare) and isinstance(t.ops[0], ast.NotEq) and "machine_id" in ast.unparse(t):
            has_mid = True
            continue
        r = _relation(ctx, C, g.test)
        if r is None:
            continue
        prev, new, kind = r
        prev_t = ast.unparse(prev).replace(" ", "")
        fors = [n for n in own_nodes(C.node) if isinstance(n, ast.For) and isinstance(n.iter, ast.Call) and ast.unparse(n.iter.func) == "enumerate"]
        inner = fors[-1] if fors else None
        ok_pair = False
        if inner is not None and isinstance(inner.target, ast.Tuple) and len(inner.target.elts) == 2 and all(isinstance(e_, ast.Name) for e_ in inner.target.elts):
            iv, ev = inner.target.elts[0].id, inner.target.elts[1].id
            lst = ast.unparse(inner.iter.args[0])
            ok_pair = ast.unparse(new) == ev and prev_t == f"{lst}[{iv}-1]"
        if not ok_pair:
            # predecessor by a shifted walk: `for [i,] (prev, cur) in [enumerate(]zip(chain([None], L), L)[)]`
            for lp in [n for n in own_nodes(C.node) if isinstance(n, ast.For)]:
                it_, tg_ = lp.iter, lp.target
                if isinstance(it_, ast.Call) and ast.unparse(it_.func) == "enumerate" and it_.args and isinstance(tg_, ast.Tuple) and len(tg_.elts) == 2:
                    it_, tg_ = it_.args[0], tg_.elts[1]
                if not (isinstance(it_, ast.Call) and ast.unparse(it_.func) == "zip" and len(it_.args) == 2 and isinstance(tg_, ast.Tuple) and len(tg_.elts) == 2
                        and all(isinstance(e_, ast.Name) for e_ in tg_.elts)):
                    continue
                first = ctx.norm.xexpr(C, it_.args[0])
                if (
                    isinstance(first, ast.Call) and (dotted(first.func) or "").split(".")[-1] == "chain" and len(first.args) == 2
                    and ast.unparse(first.args[0]).replace(" ", "") in ("[None]", "(None,)")
                    and ast.unparse(first.args[1]) == ast.unparse(it_.args[1])
                    and isinstance(prev, ast.Name) and prev.id == tg_.elts[0].id and ast.unparse(new) == tg_.elts[1].id
                ):
                    ok_pair = True
        if not ok_pair:
            # carried predecessor: a local reset before the loop over one
            # machine list and set to the loop element at the end of each step
            loops = [n for n in own_nodes(C.node) if isinstance(n, ast.For)]
            il = loops[-1] if loops else None
            if il is not None and isinstance(prev, ast.Name):
                elem = (il.target.elts[-1].id if isinstance(il.target.elts[-1], ast.Name) else None) if isinstance(il.target, ast.Tuple) else (il.target.id if isinstance(il.target, ast.Name) else None)
                ds = ctx.flow.defs(C).of(prev.id)
                vals = [ast.unparse(d[1]) for d in ds if d[0] == "value"]
                last_stmt = il.body[-1]
                carried = (
                    elem is not None and sorted(vals) == sorted(["None", elem]) and isinstance(last_stmt, ast.Assign)
                    and ast.unparse(last_stmt.targets[0]) == prev.id and ast.unparse(last_stmt.value) == elem
                    and not any(isinstance(x, ast.Continue) for x in ast.walk(il))
                )
                none_init_inside_outer = any(
                    isinstance(n, (ast.Assign, ast.AnnAssign)) and ast.unparse(n.targets[0] if isinstance(n, ast.Assign) else n.target) == prev.id
                    and isinstance(n.value, ast.Constant) and n.value.value is None and C.module.parents.get(n) is not C.node
                    for n in own_nodes(C.node)
                ) or len(loops) == 1
                ok_pair = carried and none_init_inside_outer and ast.unparse(new) == elem
        if kind != "ok":
            has_rel = False
            chk.violation("R01.d", cs, g.test, "check_schedule's order relation is not `previous.end_time <= next.start_time`", loc=C.loc(g))
        elif not ok_pair:
            has_rel = False
            chk.violation("R01.d", cs, g.test, "check_schedule compares an operation with something other than its predecessor [i - 1]", loc=C.loc(g))
        else:
            has_rel = True
    if has_mid and has_rel:
        chk.ok("R01.d", cs.qualname, cs.loc(), "validates machine id and order against the predecessor")
    elif has_rel is None or not has_mid:
        chk.violation(
            "R01.d", cs, None,
            "check_schedule does not validate " + ("the machine id of each entry" if not has_mid else "the time order of consecutive entries"),
        )


def _touches_machine_lists(ctx, fi, obj, sched):
    """True if ``obj`` (the mutated object) is, or is reached through, the
    `schedule`/`_schedule` attribute of a Schedule-typed value - directly or
    through single-definition local aliases."""
    seen = set()

    def expand(e, depth=0):
        if depth > 5:
            return
        yield e
        if isinstance(e, ast.Name) and e.id not in seen:
            seen.add(e.id)
            for kind, value, _ in ctx.flow.defs(fi).of(e.id):
                if kind in ("value", "elem", "unpack"):
                    yield from expand(value, depth + 1)
        elif isinstance(e, (ast.Attribute, ast.Subscript)):
            yield from expand(e.value, depth + 1)
        elif isinstance(e, ast.Call):
            f = e.func
            if isinstance(f, ast.Name) and f.id in ("reversed", "enumerate", "iter") and e.args:
                yield from expand(e.args[0], depth + 1)

    for e in expand(obj):
        if isinstance(e, ast.Attribute) and e.attr in ("schedule", schedule_attr(ctx)):
            cls = ctx.res.classes_of(fi, e.value, fi.cls)
            if any(ctx.repo.is_subclass(c, sched.qualname) for c in cls):
                return True
    return False
