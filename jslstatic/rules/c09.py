"""C09 - rejected requests change nothing.

R09.a  raise-before-write: on every path of ``Dispatcher.dispatch`` (inlined
       through readiness test, machine_id property, start_time, the
       ScheduledOperation constructor and setter, Schedule.add and its check,
       _update_tracking_attributes) that ends in an explicit ``raise``, no
       write to dispatcher/schedule/argument state precedes the raise.
R09.b  no observer is notified on a path that raises.
R09.c  the same for ``SingleJobShopGraphEnv.step`` and
       ``MultiJobShopGraphEnv.step`` (state = the environment, its
       dispatcher and observers); ``next_operation`` raises for a finished
       job before anything is written.
R09.d  the three rejections the property names exist: a path raising under
       a failing readiness test, one under ``machine not in
       operation.machines``, one in ``next_operation`` under the
       job-length test.
"""

from __future__ import annotations

import ast

from ..repo import AnalysisError, own_nodes
from .roles import dispatcher_roles
from .common import DISPATCHER, is_memo_fill, is_notify, resolve_root

MANIFEST = {
    "text": (
        "Decides C09 with respect to explicit raises, for all instances, "
        "histories and injection points: every path of Dispatcher.dispatch and "
        "of both environments' step that ends in a raise statement (paths "
        "enumerated with calls, properties, setters and constructors inlined) "
        "performs no write to the dispatcher, the schedule, the arguments, the "
        "environment or any observer before raising and notifies nobody; and "
        "the three documented rejections (not-ready operation, ineligible "
        "machine, finished job) are present as raising guards ahead of the "
        "first write."
    ),
    "note": (
        "Implicit exceptions (IndexError/TypeError from indexing with an "
        "out-of-range or ill-typed id) are outside the rule: the indices "
        "stored through after the append were already used to read the same "
        "vectors before it. Exceptions thrown by user observers inside the "
        "notification loop are outside the property."
    ),
    "technique": "exhaustive statement-path enumeration with call inlining; raise-before-write automaton",
    "ref": "DESIGN.md §3 C09",
}
UNDECIDED = [
    "implicit exceptions (IndexError, TypeError) raised by the interpreter after the first write",
]
ASSUMPTIONS = [
    "an eligible machine id is < num_machines by definition of num_machines, and job/machine indices used after the append were already used to read before it",
    "exceptions thrown by user observers inside the notification loop are outside the property",
]


def _relevant(e):
    if e.kind == "raise":
        return True
    if e.kind == "write" and not e.data.get("local"):
        return True
    return e.kind == "call" and e.data.get("attr") in ("update", "reset")


def state_write(ev):
    """Write events that change state visible after the call: resolved to
    the entry frame, rooted at self or a parameter (not a fresh local, not
    the object under construction)."""
    if ev.kind != "write" or ev.data.get("local"):
        return None
    root, chain, fr = resolve_root(ev)
    if fr is None or root is None:
        return None
    if fr.parent is not None:
        # stopped inside an inlined frame: constructor's own object or a
        # local of the callee
        if fr.fi.name == "__init__" and fr.fi.params and root == fr.fi.params[0]:
            return None
        if root in fr.fi.params:
            return (root, chain)  # unresolved parameter: conservative
        return None
    entry = fr.fi
    if root in entry.params:
        return (root, chain)
    return None


def _unknown_private(ctx, ev, chain):
    """First private attribute on the written chain that the pinned class owning the write does not have."""
    from ..baseline_api import BASELINE_ATTRS

    ci = getattr(ev.fi, "cls", None)
    if ci is None or not any(q.rsplit(".", 1)[-1] in BASELINE_ATTRS for q in ci.mro):
        return None
    known = set()
    for q in ci.mro:
        known |= set(BASELINE_ATTRS.get(q.rsplit(".", 1)[-1], ()))
    tgt = ev.data.get("target")
    while isinstance(tgt, ast.Subscript):
        tgt = tgt.value
    if isinstance(tgt, ast.Attribute) and isinstance(tgt.value, ast.Name) and ev.fi.params and tgt.value.id == ev.fi.params[0] \
            and tgt.attr.startswith("_") and not tgt.attr.startswith("__") and tgt.attr not in known:
        from ..unbundle import SEP

        if SEP in tgt.attr.lstrip("_"):
            return None  # a field of a scalar-replaced state record (2.1a): the tracking state itself, not notes of a query
        return tgt.attr
    return None


def _accepted(p):
    """Index of the event at which Dispatcher.dispatch returned normally on
    this path (the request was accepted), or None."""
    for i, ev in enumerate(p.events):
        if ev.kind == "exit" and ev.frame.fi.name == "dispatch" and ev.frame.fi.cls is not None and ev.frame.fi.cls.name == DISPATCHER:
            return i
    return None


def check_entry(ctx, rule_w, rule_n, entry, recv, eng, label, stop_at_accept=False):
    chk = ctx.chk
    paths = eng.paths(entry, recv)
    n_raise = 0
    n_after = 0
    bad = False
    refusals = []
    for p in paths:
        if p.outcome != "raise":
            continue
        if stop_at_accept and _accepted(p) is not None:
            # raised after the dispatch was accepted and completed: not a
            # rejected request (e.g. add_padding's internal shape check)
            n_after += 1
            continue
        n_raise += 1
        first_write = None
        for ev in p.events:
            sw = state_write(ev)
            if sw is not None and first_write is None and is_memo_fill(ctx, ev):
                sw = None  # a correctly kept memo filled by a query: nothing a caller can observe
            if sw is not None and first_write is None:
                first_write = (ev, sw)
            if is_notify(ctx, ev) and ev.frame.fi.cls is not None:
                bad = True
                chk.violation(
                    rule_n, entry, ev.node,
                    f"{label}: observers are notified on a path that then raises "
                    f"({p.events[-1].data.get('exc')} at {p.events[-1].loc})",
                    loc=ev.loc, path=p.describe(),
                )
                break
        if first_write is not None:
            ev, (root, chain) = first_write
            tgt_ = ev.data.get("target")
            new_ = _unknown_private(ctx, ev, chain)
            # (only where the store sits in a function that answers something - a query keeping notes; a keyed
            # store in an update step that returns nothing is the tracking state itself, however it is bundled)
            answers_ = any(isinstance(x, ast.Return) and x.value is not None and not (isinstance(x.value, ast.Constant) and x.value.value is None)
                           for x in own_nodes(ev.fi.node))
            if new_ and answers_ and isinstance(tgt_, ast.Subscript) and ev.data.get("op") != "mutcall":
                # a keyed store into a table the pinned class does not have (`self._start_times[key] = t`, a
                # memo filled by a query): whether anything observable depends on it is not decided
                refusals.append(
                    f"{ev.loc}: {label}: `{ev.data.get('text')}` fills bookkeeping the pinned tree does not have (self.{new_}) before "
                    "the request is rejected; whether that leaves an observable trace is not decided by this analysis"
                )
                continue
            bad = True
            rz = p.events[-1]
            chk.violation(
                rule_w, entry, ev.node,
                f"{label}: `{ev.data.get('text')}` modifies {root}.{'.'.join(chain)} before the request "
                f"is rejected by {rz.data.get('exc')} at {rz.loc}: a rejected request leaves a trace",
                loc=ev.loc, path=p.describe(),
            )
    # opaque may-raise calls after a write: the analysis cannot see through
    chk.analysed[f"{label}_raises_after_accept_ignored"] = n_after
    for p in paths:
        wrote = False
        acc = _accepted(p) if stop_at_accept else None
        for i, ev in enumerate(p.events):
            if acc is not None and i >= acc:
                break
            if state_write(ev) is not None:
                wrote = True
            elif wrote and ev.kind == "call" and not ev.data.get("inlined"):
                for t in ev.data.get("targets") or []:
                    if isinstance(t.node, ast.Lambda):
                        continue
                    rc = eng._callee_recv(ev, t, ev.frame)
                    probe = ctx.__dict__.setdefault("_raise_probe", None)
                    if probe is None:
                        probe = ctx.engine(relevant=lambda e: e.kind == "raise" and not e.data.get("assert"))
                        ctx.__dict__["_raise_probe"] = probe
                    if probe.func_relevant(t, rc) and not _is_observer_callback(ctx, ev):
                        raise AnalysisError(
                            f"{ev.loc}: call to {t.qualname} after the first state write may raise "
                            "but lies beyond the inlining depth"
                        )
    if refusals and not bad:
        raise AnalysisError(refusals[0])
    if not bad:
        chk.ok(rule_w, entry.qualname, entry.loc(), f"{len(paths)} paths, {n_raise} raising, none writes before raising")
        chk.ok(rule_n, entry.qualname, entry.loc(), f"{n_raise} raising paths notify nobody")
    return paths, n_raise


def _ready_polarity(n):
    """True if `n` evaluates to true exactly when the operation is ready,
    False if exactly when it is not, None if unknown."""
    if isinstance(n, ast.UnaryOp) and isinstance(n.op, ast.Not):
        p = _ready_polarity(n.operand)
        return None if p is None else not p
    if isinstance(n, ast.Call) and isinstance(n.func, ast.Attribute) and n.func.attr == "is_operation_ready":
        return True
    if isinstance(n, ast.Compare) and len(n.ops) == 1:
        if isinstance(n.ops[0], ast.Eq):
            return True
        if isinstance(n.ops[0], ast.NotEq):
            return False
    return None


def _enclosing_if(fi, node):
    cur = fi.module.parents.get(node)
    while cur is not None and cur is not fi.node:
        if isinstance(cur, ast.If):
            return cur
        cur = fi.module.parents.get(cur)
    return None


def _is_observer_callback(ctx, ev):
    return is_notify(ctx, ev)


def run(ctx):
    chk, repo = ctx.chk, ctx.repo
    chk.rule("R09.a", "no write to dispatcher/schedule/argument state precedes an explicit raise on any path of Dispatcher.dispatch")
    chk.rule("R09.b", "no observer notification on a raising path")
    chk.rule("R09.c", "environment step: nothing is written (env, dispatcher, observers) before a raise; delegates before touching own state")
    chk.rule("R09.f", "no truthiness test on a job / machine / operation id (0 is a valid id; `if not machine_id` treats it as missing)")
    chk.rule("R09.e", "request parameters of dispatch are rebound only under `<param> is None` (documented default), never replaced otherwise")
    chk.rule("R09.d", "the documented rejections exist as raising guards: not-ready operation, ineligible machine, finished job")

    disp = repo.find_class(DISPATCHER)
    dispatch = repo.need_method(disp, "dispatch")
    eng = ctx.engine(relevant=_relevant, max_depth=7 if ctx.thorough else 6)
    paths, n_raise = check_entry(ctx, "R09.a", "R09.b", dispatch, disp, eng, "dispatch")
    chk.analysed["dispatch_paths"] = len(paths)
    chk.analysed["dispatch_raising_paths"] = n_raise

    # ---------------------------------------------------------------- R09.d
    def has_raise_under(paths, pred, what, entry):
        for p in paths:
            if p.outcome != "raise":
                continue
            for ev in p.events:
                if ev.kind == "branch" and pred(ev):
                    return True
        return False

    def readiness(ev):
        t = ctx.norm.xtext(ev.fi, ev.node)
        idx = dispatcher_roles(ctx)["job_index"]
        return "is_operation_ready" in t or ((idx in t or "job_next_operation_index" in t) and "position_in_job" in t)

    def eligibility(ev):
        n = ev.node
        return (
            isinstance(n, ast.Compare) and len(n.ops) == 1 and isinstance(n.ops[0], (ast.NotIn, ast.In))
            and "machines" in ctx.norm.xtext(ev.fi, n.comparators[0])
        )

    if has_raise_under(paths, readiness, "readiness", dispatch):
        chk.ok("R09.d", dispatch.qualname, dispatch.loc(), "raises when the operation is not the next of its job")
    else:
        # a guard that asks bookkeeping the pinned class does not have (a set of ready operation ids kept up
        # to date by the update path): whether that bookkeeping says what the index comparison says is not
        # decided here
        import re as _re
        from ..baseline_api import BASELINE_ATTRS

        known = set()
        for q in disp.mro:
            known |= set(BASELINE_ATTRS.get(q.rsplit(".", 1)[-1], ()))
        for p in paths:
            if p.outcome != "raise":
                continue
            for ev in p.events:
                if ev.kind != "branch":
                    continue
                for a in _re.findall(r"(?<![A-Za-z0-9_.])self\.(_[A-Za-z0-9_]+)", ctx.norm.xtext(ev.fi, ev.node)):
                    if not a.startswith("__") and a not in known:
                        raise AnalysisError(
                            f"{ev.loc}: dispatch raises under `{ctx.norm.xtext(ev.fi, ev.node)[:80]}`, a test of bookkeeping the pinned "
                            f"tree does not have (self.{a}); whether it rejects exactly the operations that are not the next one "
                            "of their job is not decided by this analysis"
                        )
        chk.violation(
            "R09.d", dispatch, None,
            "no path of dispatch raises under a failing readiness test: an operation that is not the "
            "next one of its job is accepted",
        )
    if has_raise_under(paths, eligibility, "eligibility", dispatch):
        chk.ok("R09.d", dispatch.qualname, dispatch.loc(), "raises when machine not in operation.machines")
    else:
        chk.violation(
            "R09.d", dispatch, None,
            "no path of dispatch raises under `machine not in operation.machines`: an ineligible "
            "machine id is accepted",
        )
    # the guards must be *effective*: the raising branch must be the failing one
    for p in paths:
        if p.outcome != "raise":
            continue
        last_branch = None
        for ev in p.events:
            if ev.kind == "branch":
                last_branch = ev
        if last_branch is not None and readiness(last_branch):
            n = last_branch.node
            pol = _ready_polarity(n)
            # pol True: test true <=> operation ready; the raise must sit on
            # the branch where the operation is NOT ready
            if pol is not None and pol == last_branch.data["taken"]:
                chk.violation(
                    "R09.d", dispatch, n,
                    "the readiness guard is inverted: dispatch raises for ready operations",
                    loc=last_branch.loc,
                )
        if last_branch is not None and eligibility(last_branch):
            n = last_branch.node
            notin = isinstance(n.ops[0], ast.NotIn)
            if notin != last_branch.data["taken"]:
                chk.violation(
                    "R09.d", last_branch.fi, n,
                    "the eligibility guard is inverted: eligible machines are rejected",
                    loc=last_branch.loc,
                )

    # ---------------------------------------------------------------- R09.e
    # the request's own arguments are never replaced: the only rebinding of
    # a request parameter allowed is the documented default under
    # `<param> is None`
    n_rebind = 0
    # judged on dispatch with its private (and newly added) steps inlined, so a
    # default resolved in a helper (`x = self._resolve(x)`) is seen as what it is
    dflat = ctx.norm.flat(dispatch, depth=3)

    def under_none_guard(node, pname):
        """some enclosing if (then-branch) tests `<pname> is None`"""
        child, cur = node, dflat.module.parents.get(node)
        while cur is not None and cur is not dflat.node:
            if isinstance(cur, ast.If) and child in cur.body and ast.unparse(cur.test) in (f"{pname} is None", f"{pname} == None"):
                return True
            if isinstance(cur, ast.If) and child in cur.orelse and ast.unparse(cur.test) in (f"{pname} is not None", f"{pname} != None"):
                return True
            child, cur = cur, dflat.module.parents.get(cur)
        return False

    for n in own_nodes(dflat.node):
        if not isinstance(n, ast.Assign):
            continue
        for t in n.targets:
            if isinstance(t, ast.Name) and t.id in dispatch.params[1:]:
                if isinstance(n.value, ast.Name) and n.value.id == t.id:
                    continue  # `x = x`: the value handed back unchanged by an inlined step
                n_rebind += 1
                guard = _enclosing_if(dflat, n)
                want = f"{t.id} is None"
                if under_none_guard(n, t.id):
                    chk.ok("R09.e", dispatch.qualname, dflat.loc(n), f"`{t.id}` defaulted only under `{want}`")
                else:
                    gt = ast.unparse(guard.test) if guard is not None else "no guard"
                    chk.violation(
                        "R09.e", dispatch, n,
                        f"the request parameter `{t.id}` is replaced under `{gt}`, not only when it is None: "
                        "a caller-supplied (possibly ineligible or out-of-range) value is silently swapped for "
                        "another one and the request is accepted instead of rejected",
                        loc=dispatch.loc(n),
                    )

    if n_rebind == 0:
        chk.ok("R09.e", dispatch.qualname, dispatch.loc(), "no request parameter is ever rebound")

    # ---------------------------------------------------------------- R09.f
    from .c16 import falsy_id_tests

    n_t = falsy_id_tests(ctx, "R09.f", lambda fi: not fi.module.name.startswith("job_shop_lib.graphs"))
    if not any(i["rule"] == "R09.f" for i in chk.instances):
        chk.ok("R09.f", "job_shop_lib (outside graphs)", "", f"{n_t} boolean tests inspected, none on a job/machine/operation id")

    nxt = repo.need_method(disp, "next_operation")
    np_ = eng.paths(nxt, disp)

    def joblen(ev):
        t = ctx.norm.xtext(ev.fi, ev.node)
        return "len(" in t and (dispatcher_roles(ctx)["job_index"] in t or "job_next_operation_index" in t)

    if has_raise_under(np_, joblen, "job length", nxt):
        chk.ok("R09.d", nxt.qualname, nxt.loc(), "raises when the job has no operations left")
    else:
        chk.violation(
            "R09.d", nxt, None,
            "next_operation has no raising guard comparing the job length with the next index",
        )
    for p in np_:
        for ev in p.events:
            if state_write(ev) is not None:
                chk.violation("R09.a", nxt, ev.node, "next_operation writes state", loc=ev.loc)

    # R09.e for the environment: the only replacement of the action's machine
    # component is the documented default `operation.machine_id`, the property
    # that *raises* for an operation with several eligible machines; any other
    # substitute (operation.machines[0], ...) accepts a request that is invalid
    senv = repo.find_class("SingleJobShopGraphEnv")
    sstep = senv.methods.get("step")
    if sstep is not None:
        F = ctx.norm.flat(sstep, depth=3)
        dcalls = [n for n in own_nodes(F.node) if isinstance(n, ast.Call) and isinstance(n.func, ast.Attribute) and n.func.attr == "dispatch" and len(n.args) >= 2]
        for dc in dcalls:
            m = dc.args[1]
            if not isinstance(m, ast.Name):
                continue
            # leaves of the definition closure of the machine argument
            defs_ = ctx.flow.defs(F)
            seen_n, work, leaves = set(), [m.id], []
            while work:
                nm = work.pop()
                if nm in seen_n:
                    continue
                seen_n.add(nm)
                for kind, value, stmt in defs_.of(nm):
                    if value is None:
                        continue
                    if kind == "value" and isinstance(value, ast.Name):
                        work.append(value.id)
                    elif kind == "value" and isinstance(value, ast.IfExp):
                        for br in (value.body, value.orelse):
                            if isinstance(br, ast.Name):
                                work.append(br.id)
                            else:
                                leaves.append((br, stmt))
                    elif kind == "value":
                        leaves.append((value, stmt))
            for value, stmt in leaves:
                vt = ast.unparse(value)
                if isinstance(value, ast.Attribute) and value.attr == "machine_id":
                    # ... and only for the documented sentinel: an order comparison (`< 0`, `<= -1`) also swallows
                    # -2, -3, ... which name no machine and must be rejected
                    guard = F.module.parents.get(stmt)
                    wide = None
                    while guard is not None and guard is not F.node:
                        if isinstance(guard, ast.If) and stmt in list(ast.walk(guard)) and any(stmt in list(ast.walk(b_)) for b_ in guard.body):
                            for cmp_ in [x for x in ast.walk(guard.test) if isinstance(x, ast.Compare) and len(x.ops) == 1]:
                                names_ = {y.id for y in ast.walk(cmp_) if isinstance(y, ast.Name)}
                                if not (names_ & seen_n):
                                    continue
                                other = cmp_.comparators[0] if isinstance(cmp_.left, ast.Name) and cmp_.left.id in seen_n else cmp_.left
                                try:
                                    k_ = ast.literal_eval(other)
                                except Exception:
                                    k_ = None
                                if isinstance(cmp_.ops[0], (ast.Lt, ast.LtE, ast.Gt, ast.GtE)) and isinstance(k_, int):
                                    wide = cmp_
                        guard = F.module.parents.get(guard)
                    if wide is not None:
                        chk.violation(
                            "R09.e", sstep, wide,
                            f"the machine of the request is replaced under `{ast.unparse(wide)}`, an order comparison: every negative id, not only the "
                            "sentinel -1, is taken for 'no machine named' - a request with machine id -2 is accepted and dispatched instead of rejected",
                            loc=F.loc(wide),
                        )
                    else:
                        chk.ok("R09.e", sstep.qualname, F.loc(stmt), "the -1 sentinel is resolved by operation.machine_id (raises for flexible operations)")
                elif ".machines" in vt:
                    chk.violation(
                        "R09.e", sstep, stmt,
                        f"step replaces the machine of the request by `{vt[:60]}`: for an operation with several eligible machines the "
                        "request `(job, -1)` names no machine and must be rejected (operation.machine_id raises), not silently "
                        "resolved to one of them",
                        loc=F.loc(stmt),
                    )
    # ---------------------------------------------------------------- R09.c
    n_env = 0
    for cname in ("SingleJobShopGraphEnv", "MultiJobShopGraphEnv"):
        env = repo.find_class(cname)
        step = env.methods.get("step")
        if step is None:
            raise AnalysisError(f"{cname}.step vanished")
        e2 = ctx.engine(relevant=_relevant, max_depth=8)
        ps, nr = check_entry(ctx, "R09.c", "R09.c", step, env, e2, f"{cname}.step", stop_at_accept=True)
        n_env += nr
        # every returning step resolved the job's next operation and
        # dispatched it: a step for a finished job cannot return normally
        for p in ps:
            if p.outcome == "raise":
                continue
            has_next = any(e.kind == "call" and nxt in (e.data.get("targets") or []) for e in p.events)
            has_disp = any(e.kind == "call" and dispatch in (e.data.get("targets") or []) for e in p.events)
            if not (has_next and has_disp):
                chk.violation(
                    "R09.c", step, None,
                    f"{cname}.step can return without " + ("resolving the job's next operation" if not has_next else "dispatching")
                    + ": a step for a job with no operations left is not rejected",
                    path=p.describe(),
                )
                break
        chk.analysed[f"{cname}_step_paths"] = len(ps)
    chk.floor("R09.c", n_env, 6, "raising paths through the environments' step")
    chk.floor("R09.a", n_raise, 4, "raising paths of dispatch")
