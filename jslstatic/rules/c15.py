"""C15 - equality means same content.

R15.a  every ``__eq__`` named by the property compares, between ``self`` and
       the other operand, each content field the property names, by ``==`` in
       a conjunction (instance fields only - class-level attributes such as
       ``__slots__`` carry no content).
R15.b  fields read by ``__hash__`` are among those ``__eq__`` compares
       (equal => equal hash).
R15.c  the type guard tests the enclosing class and its failing branch
       returns False / NotImplemented.
"""

from __future__ import annotations

import ast
import re

from ..repo import AnalysisError, ClassInfo, FuncInfo, body_of, dotted, own_nodes
from .roles import machine_id_attr, schedule_attr

MANIFEST = {
    "text": (
        "Decides C15 for the code as written: each of the four __eq__ methods "
        "is a type-guarded conjunction of == over instance fields that covers "
        "every content field the property names (machines, duration; operation, "
        "start time, machine; the machine lists; jobs), and __hash__ reads only "
        "compared fields. Such a conjunction is an equivalence relation and "
        "agrees with content equality for all objects, so this is a for-all "
        "argument over inputs, not a sample."
    ),
    "note": (
        "Trusted: Python's int/list equality; no subclass overrides __eq__. "
        "An __eq__ of a shape outside the recognised idioms (conjunction, tuple "
        "compare, all(getattr..) over __slots__, early 'return False' guards) "
        "is reported as ANALYSIS-ERROR, not decided."
    ),
    "technique": "AST shape analysis of __eq__/__hash__ (field-coverage rule)",
    "ref": "DESIGN.md §3 C15",
}

UNDECIDED = [
    "none for the conjunction-of-field-equalities shape: a type-guarded "
    "conjunction of == over fields is reflexive, symmetric and transitive "
    "provided the fields' own equalities are (checked recursively for the "
    "four classes; builtin int/list equality is trusted)",
]
ASSUMPTIONS = [
    "int, list and dict equality of the Python runtime are equivalence relations",
    "no subclass overrides __eq__ asymmetrically (the package defines none)",
]

# class -> list of alternatives; each alternative is a set of attribute names
# of which at least one must be compared
REQUIRED = {
    "Operation": [{"machines"}, {"duration"}],
    "ScheduledOperation": [
        {"operation"},
        {"start_time"},
        {"machine_id", "_machine_id"},
    ],
    "Schedule": [{"schedule", "_schedule"}],
    "JobShopInstance": [{"jobs"}],
}
# alternative complete covers (each list is a conjunction of alternatives)
ALTERNATIVE_COVERS = {
    "JobShopInstance": [[{"durations_matrix"}, {"machines_matrix"}]],
}
# derived views that lose information (float32 padding arrays, counts, sums)
LOSSY_VIEWS = {
    "durations_matrix_array": "a float32 array: integer durations above 2**24 that differ compare equal",
    "machines_matrix_array": "a float32 array: large machine ids collapse",
    "num_jobs": "a count", "num_operations": "a count", "num_machines": "a count",
    "total_duration": "a sum", "job_durations": "per-job sums", "machine_loads": "per-machine sums",
    "makespan": "a maximum", "num_scheduled_operations": "a count", "name": "a label",
}
CLASS_LEVEL = {"__slots__", "__class__", "__doc__", "__module__", "__annotations__"}


def instance_fields(ctx, ci: ClassInfo) -> set[str]:
    """Slots, attributes assigned on self anywhere in the class, properties."""
    out: set[str] = set()
    for q in ci.mro:
        c = ctx.repo.classes.get(q)
        if c is None:
            continue
        sl = c.class_attrs.get("__slots__")
        if isinstance(sl, ast.Dict):
            for k in sl.keys:
                if isinstance(k, ast.Constant) and isinstance(k.value, str):
                    out.add(k.value)
        elif isinstance(sl, (ast.Tuple, ast.List, ast.Set)):
            for k in sl.elts:
                if isinstance(k, ast.Constant) and isinstance(k.value, str):
                    out.add(k.value)
        for m in c.methods.values():
            if m.is_property:
                out.add(m.name)
            for n in own_nodes(m.node):
                if (
                    isinstance(n, ast.Attribute)
                    and isinstance(n.ctx, ast.Store)
                    and isinstance(n.value, ast.Name)
                    and n.value.id == "self"
                ):
                    out.add(n.attr)
    return out


def slot_names(ctx, ci: ClassInfo) -> list[str] | None:
    sl = ctx.repo.class_attr(ci, "__slots__")
    if isinstance(sl, ast.Dict):
        return [k.value for k in sl.keys if isinstance(k, ast.Constant)]
    if isinstance(sl, (ast.Tuple, ast.List, ast.Set)):
        return [k.value for k in sl.elts if isinstance(k, ast.Constant)]
    return None


class EqShape:
    def __init__(self):
        self.fields: set[str] = set()
        self.problems: list[tuple[ast.AST, str]] = []
        self.unknown: list[ast.AST] = []
        self.guard_ok = False
        self.guard_problem: tuple[ast.AST, str] | None = None
        # fields compared only through a projection f(self.x) == f(other.x)
        # (len, sorted, set, a derived property): implied by equality, so
        # harmless as an extra conjunct, but they do not cover the field
        self.weak: dict[str, str] = {}
        self.len_guard: set[str] = set()
        self.inner_len_guard: set[str] = set()
        # `if self.f is other.f: return True` shortcuts: (node, field, fields compared before it)
        self.early_true: list[tuple] = []


_ALIASES: dict[str, tuple] = {}  # local name -> ('self'|'other', attr) while one __eq__ is analysed


def _side(node, self_names, other_names):
    """('self'|'other', attr) if node is <name>.attr / getattr(<name>, 's') /
    a local bound to one (`jobs, other_jobs = self.jobs, other.jobs`)."""
    if isinstance(node, ast.Name) and node.id in _ALIASES:
        return _ALIASES[node.id]
    if isinstance(node, ast.Attribute) and isinstance(node.value, ast.Name):
        who = (
            "self"
            if node.value.id in self_names
            else "other" if node.value.id in other_names else None
        )
        if who:
            return who, node.attr
    return None


def _pads_with_nan(ctx, ci, attr: str) -> bool:
    """The property/method ``attr`` of the class builds its result with NaN
    padding (np.nan / a helper whose name mentions nan in its call closure)."""
    m = ctx.repo.method(ci, attr)
    if m is None:
        return False
    seen, work = set(), [m]
    while work:
        f = work.pop()
        if f.qualname in seen or len(seen) > 12:
            continue
        seen.add(f.qualname)
        for n in own_nodes(f.node):
            if isinstance(n, ast.Attribute) and n.attr in ("nan", "NaN", "NAN"):
                return True
            if isinstance(n, ast.Call):
                nm = (n.func.attr if isinstance(n.func, ast.Attribute) else n.func.id if isinstance(n.func, ast.Name) else "") or ""
                if "nan" in nm.lower() and nm not in ("isnan", "nan_to_num", "nanmax", "nanmin", "nansum"):
                    return True
                try:
                    ts, _ = ctx.res.callees(f, n, ci)
                except Exception:
                    ts = []
                work += [t for t in ts if not isinstance(t.node, ast.Lambda)]
            if isinstance(n, ast.Attribute) and isinstance(n.value, ast.Name) and n.value.id in ("self",):
                pt = ctx.repo.method(ci, n.attr)
                if pt is not None and pt.is_property:
                    work.append(pt)
    return False


def analyse_eq(ctx, fi: FuncInfo) -> EqShape:
    sh = EqShape()
    ci = fi.cls
    params = fi.params
    if len(params) != 2:
        raise AnalysisError(f"{fi.qualname}: unexpected signature")
    self_names, other_names = {params[0]}, {params[1]}
    fields = instance_fields(ctx, ci)
    helper_stack: list[str] = []
    _ALIASES.clear()

    def operand(node, positive=True):
        """Consumes one conjunct of the equality condition."""
        if isinstance(node, ast.BoolOp):
            if isinstance(node.op, ast.And) == positive:
                for v in node.values:
                    operand(v, positive)
            else:
                # one conjunct that is itself a disjunction (`n == 0 or a == b`):
                # weaker than each of its members, so it covers no field - and
                # as an extra conjunct it cannot make different objects equal.
                # It is a problem only when nothing else covers the content
                # (decided by the field-coverage test).  Its members are still
                # inspected for comparisons that fail on equal content.
                sh.weak[f"<disjunction@{getattr(node, 'lineno', 0)}>"] = ast.unparse(node)[:60]
                for v in node.values:
                    for c in ast.walk(v):
                        nan_compare(c)
            return
        if isinstance(node, ast.UnaryOp) and isinstance(node.op, ast.Not):
            operand(node.operand, not positive)
            return
        if isinstance(node, ast.Constant) and node.value is True and positive:
            return
        # a private predicate of the class on the same pair: self._same_x(other)
        if (
            positive and isinstance(node, ast.Call) and isinstance(node.func, ast.Attribute) and isinstance(node.func.value, ast.Name)
            and node.func.value.id in self_names and len(node.args) == 1 and not node.keywords
            and isinstance(node.args[0], ast.Name) and node.args[0].id in other_names and ci is not None
        ):
            h = ctx.repo.method(ci, node.func.attr)
            if h is not None and len(h.params) == 2 and h.qualname not in helper_stack:
                helper_stack.append(h.qualname)
                self_names.add(h.params[0])
                other_names.add(h.params[1])
                try:
                    walk(body_of(h.node))
                finally:
                    helper_stack.pop()
                return
        if isinstance(node, ast.Compare) and len(node.ops) == 1:
            op = node.ops[0]
            l, r = node.left, node.comparators[0]
            # `self._key() == other._key()` with a one-expression private method of the class: spelt out on both sides
            kl, kr = key_call(l), key_call(r)
            if (
                isinstance(kl, ast.Tuple) and isinstance(kr, ast.Tuple) and len(kl.elts) == len(kr.elts)
                and all(_side(x, self_names, other_names) for x in kl.elts + kr.elts)
            ):
                l, r = kl, kr  # plain fields only; anything else is left to the projection rule below
            elif (
                isinstance(kl, ast.Tuple) and isinstance(kr, ast.Tuple) and len(kl.elts) == len(kr.elts) and (kl is not l or kr is not r)
                and all(_side(x, self_names, other_names) or _deep_side(x, self_names, other_names) for x in kl.elts + kr.elts)
                and any(_deep_side(x, self_names, other_names) for x in kl.elts)
            ):
                # a key method that looks *into* a field (`self.operation.operation_id`): the plain members are
                # compared, the field itself only through that view
                if not isinstance(op, ast.Eq if positive else ast.NotEq):
                    sh.problems.append((node, f"fields compared with {type(op).__name__}, not equality"))
                    return
                for a, b in zip(kl.elts, kr.elts):
                    da, db = _deep_side(a, self_names, other_names), _deep_side(b, self_names, other_names)
                    if da and db and da[1:] == db[1:] and {da[0], db[0]} == {"self", "other"}:
                        sh.weak[da[1]] = "@." + da[2]
                    else:
                        pair(node, a, b)
                return
            want = ast.Eq if positive else ast.NotEq
            # tuple comparison: (self.a, self.b) == (o.a, o.b)
            if isinstance(l, ast.Tuple) and isinstance(r, ast.Tuple) and len(l.elts) == len(r.elts):
                if not isinstance(op, want):
                    sh.problems.append((node, f"fields compared with {type(op).__name__}, not equality"))
                    return
                for a, b in zip(l.elts, r.elts):
                    pair(node, a, b)
                return
            sl, sr = _side(l, self_names, other_names), _side(r, self_names, other_names)
            if sl and sr:
                if isinstance(op, (ast.Is, ast.IsNot)):
                    sh.problems.append(
                        (node, f"field {sl[1]!r} compared by identity: independently "
                         "built objects with the same content compare unequal")
                    )
                    return
                if not isinstance(op, want):
                    sh.problems.append(
                        (node, f"field {sl[1]!r} compared with {type(op).__name__}, not equality")
                    )
                    return
                pair(node, l, r)
                return
        if (
            positive and isinstance(node, ast.Call)
            and ast.unparse(node.func) in ("np.array_equal", "numpy.array_equal", "np.array_equiv")
            and len(node.args) >= 2
        ):
            nan_compare(node)
            pair(node, node.args[0], node.args[1])
            return
        # all(map(operator.eq, A, B))  is  all(a == b for a, b in zip(A, B))
        if (
            positive and isinstance(node, ast.Call) and isinstance(node.func, ast.Name) and node.func.id == "all"
            and len(node.args) == 1 and isinstance(node.args[0], ast.Call) and ast.unparse(node.args[0].func) == "map"
            and len(node.args[0].args) == 3 and ast.unparse(node.args[0].args[0]) in ("operator.eq", "eq")
        ):
            m_ = node.args[0]
            ge = ast.GeneratorExp(
                elt=ast.Compare(left=ast.Name("_a", ast.Load()), ops=[ast.Eq()], comparators=[ast.Name("_b", ast.Load())]),
                generators=[ast.comprehension(
                    target=ast.Tuple([ast.Name("_a", ast.Store()), ast.Name("_b", ast.Store())], ast.Store()),
                    iter=ast.Call(func=ast.Name("zip", ast.Load()), args=[m_.args[1], m_.args[2]], keywords=[]), ifs=[], is_async=0)],
            )
            new_node = ast.Call(func=node.func, args=[ge], keywords=[])
            ast.copy_location(new_node, node)
            ast.fix_missing_locations(new_node)
            node = new_node
        # all(getattr(self, s) == getattr(o, s) for s in self.__slots__)
        if (
            positive
            and isinstance(node, ast.Call)
            and isinstance(node.func, ast.Name)
            and node.func.id == "all"
            and node.args
            and isinstance(node.args[0], (ast.GeneratorExp, ast.ListComp))
        ):
            g = node.args[0]
            gen = g.generators[0]
            it = gen.iter
            names = None
            if (
                isinstance(it, ast.Attribute)
                and it.attr == "__slots__"
                and isinstance(it.value, ast.Name)
            ):
                names = slot_names(ctx, ci)
                # `self.__slots__` / `type(self).__slots__` is looked up on the
                # most derived class: for a subclass that declares its own
                # __slots__ it names only the added attributes, so none of the
                # base class's content is compared any more.  `<Class>.__slots__`
                # (the class named explicitly) does not have that problem.
                if it.value.id in self_names | other_names:
                    sh.problems.append((
                        node,
                        f"the compared attributes are taken from `{ast.unparse(it)}`, which for a subclass with its own "
                        f"__slots__ lists only the subclass's additions: {ci.name}'s own fields (and with them machines, "
                        "durations, ids) drop out of the comparison and objects with different content compare equal",
                    ))
                    return
            elif isinstance(it, (ast.Tuple, ast.List)) and all(
                isinstance(e, ast.Constant) for e in it.elts
            ):
                names = [e.value for e in it.elts]
            elt = g.elt
            if names is not None and gen.ifs and isinstance(gen.target, ast.Name):
                kept = []
                for nm in names:
                    vals = [_const_pred(c, gen.target.id, nm) for c in gen.ifs]
                    if any(v is None for v in vals):
                        kept = None
                        break
                    if all(vals):
                        kept.append(nm)
                names = kept
            if (
                names is not None
                and isinstance(gen.target, ast.Name)
                and isinstance(elt, ast.Compare)
                and len(elt.ops) == 1
                and isinstance(elt.ops[0], ast.Eq)
            ):
                v = gen.target.id

                def ga(x):
                    return (
                        isinstance(x, ast.Call)
                        and isinstance(x.func, ast.Name)
                        and x.func.id == "getattr"
                        and len(x.args) == 2
                        and isinstance(x.args[0], ast.Name)
                        and isinstance(x.args[1], ast.Name)
                        and x.args[1].id == v
                        and x.args[0].id
                    )

                a, b = ga(elt.left), ga(elt.comparators[0])
                if a and b and {a, b} == (self_names | other_names):
                    sh.fields |= set(names)
                    return
            if positive and zipped_all(node, g):
                return
        if projection(node, positive):
            return
        sh.unknown.append(node)

    def nan_compare(node):
        """np.array_equal(self.v, other.v) (without equal_nan=True) on a view
        that pads with NaN: NaN != NaN, so two objects with the same content
        never compare equal once a padded cell exists."""
        if not (
            isinstance(node, ast.Call) and ast.unparse(node.func) in ("np.array_equal", "numpy.array_equal", "np.array_equiv")
            and len(node.args) >= 2
        ):
            return
        if any(k.arg == "equal_nan" and isinstance(k.value, ast.Constant) and k.value.value is True for k in node.keywords):
            return
        for a in node.args[:2]:
            sd = _side(a, self_names, other_names)
            if sd and ci is not None and _pads_with_nan(ctx, ci, sd[1]):
                if not any(p[0] is node for p in sh.problems):
                    sh.problems.append((
                        node,
                        f"`{ast.unparse(node)[:70]}` compares `{sd[1]}`, which is padded with NaN where rows are shorter: NaN is not "
                        "equal to NaN, so two independently built objects with the same content compare unequal as soon as "
                        "the rows differ in length",
                    ))
                return

    def projection(node, positive):
        """f(self.x) == f(other.x) with the same f on both sides."""
        if not (isinstance(node, ast.Compare) and len(node.ops) == 1):
            return False
        want = ast.Eq if positive else ast.NotEq
        if not isinstance(node.ops[0], want):
            return False
        l, r = node.left, node.comparators[0]

        def strip(e):
            """(shape text with the operand field replaced by '@', who, field)"""
            hits = [x for x in ast.walk(e) if _side(x, self_names, other_names)]
            if len(hits) != 1:
                return None
            who, attr = _side(hits[0], self_names, other_names)
            txt = ast.unparse(e).replace(ast.unparse(hits[0]), "@")
            return txt, who, attr

        a, b = strip(l), strip(r)
        if not (a and b) or a[0] != b[0] or {a[1], b[1]} != {"self", "other"} or a[2] != b[2] or a[0] == "@":
            return False
        sh.weak[a[2]] = a[0]
        if a[0] == "len(@)":
            sh.len_guard.add(a[2])
        if a[0].replace(" ", "") in ("list(map(len,@))", "tuple(map(len,@))") or re.fullmatch(r"[\[(]len\((\w+)\)for\1in@[\])]", a[0].replace(" ", "")):
            # the lengths of all inner lists agree: the flattened streams have equal length and the same boundaries
            sh.len_guard.add(a[2])
            sh.inner_len_guard.add(a[2])
        return True

    def key_call(e):
        if not (
            isinstance(e, ast.Call) and not e.args and not e.keywords and isinstance(e.func, ast.Attribute)
            and isinstance(e.func.value, ast.Name) and e.func.value.id in self_names | other_names and ci is not None
        ):
            return e
        m = ctx.repo.method(ci, e.func.attr)
        if m is None or isinstance(m.node, ast.Lambda) or not m.params or m.decorators:
            return e
        body = [s_ for s_ in m.node.body if not (isinstance(s_, ast.Expr) and isinstance(s_.value, ast.Constant))]
        if len(body) != 1 or not isinstance(body[0], ast.Return) or body[0].value is None:
            return e
        import copy as _copy

        who = e.func.value.id

        class _R(ast.NodeTransformer):
            def visit_Name(self, n):
                return ast.copy_location(ast.Name(who, n.ctx), n) if n.id == m.params[0] else n

        return _R().visit(_copy.deepcopy(body[0].value))

    def flat_stream(e, _d=0):
        """(<who>.<field>, flattened?) for `<who>.<field>`, `chain.from_iterable(<who>.<field>)`,
        `chain(*<who>.<field>)` or a one-expression method of the class returning one of these."""
        d = dotted(e.func) if isinstance(e, ast.Call) else None
        if d in ("itertools.chain.from_iterable", "chain.from_iterable") and len(e.args) == 1:
            return e.args[0], True
        if d in ("itertools.chain", "chain") and len(e.args) == 1 and isinstance(e.args[0], ast.Starred):
            return e.args[0].value, True
        if (
            isinstance(e, ast.Call) and not e.args and not e.keywords and isinstance(e.func, ast.Attribute)
            and isinstance(e.func.value, ast.Name) and e.func.value.id in self_names | other_names and _d < 2
        ):
            m = ctx.repo.method(ci, e.func.attr)
            body = [s_ for s_ in (m.node.body if m is not None and not isinstance(m.node, ast.Lambda) else []) if not (isinstance(s_, ast.Expr) and isinstance(s_.value, ast.Constant))]
            if m is not None and len(body) == 1 and isinstance(body[0], ast.Return) and body[0].value is not None and m.params:
                import copy as _copy

                class _R(ast.NodeTransformer):
                    def visit_Name(self, n):
                        return ast.copy_location(ast.Name(e.func.value.id, n.ctx), n) if n.id == m.params[0] else n

                return flat_stream(_R().visit(_copy.deepcopy(body[0].value)), _d + 1)
        return e, False

    def zipped_all(node, g):
        """all(a == b for A, B in zip(self.f, other.f) [for a, b in zip(A, B)])"""
        gens = g.generators
        if any(x.ifs for x in gens):
            return False
        prev = None
        field = None
        for depth, gen in enumerate(gens):
            it = gen.iter
            if not (
                isinstance(it, ast.Call) and isinstance(it.func, ast.Name) and it.func.id == "zip" and len(it.args) == 2
                and isinstance(gen.target, ast.Tuple) and len(gen.target.elts) == 2
                and all(isinstance(t, ast.Name) for t in gen.target.elts)
            ):
                return False
            strict = any(k.arg == "strict" and isinstance(k.value, ast.Constant) and k.value.value is True for k in it.keywords)
            if depth == 0:
                x0, f0 = flat_stream(it.args[0])
                x1, f1 = flat_stream(it.args[1])
                sa, sb = _side(x0, self_names, other_names), _side(x1, self_names, other_names)
                if not (sa and sb) or {sa[0], sb[0]} != {"self", "other"} or sa[1] != sb[1] or f0 != f1:
                    return False
                field = sa[1]
                # a length guard on the list of lists says nothing about the length of the flattened streams
                guarded = strict or (field in sh.len_guard and not f0) or (f0 and field in sh.inner_len_guard)
            else:
                if [ast.unparse(x) for x in it.args] != prev:
                    return False
                guarded = strict
            if not guarded:
                sh.problems.append((
                    it,
                    f"`{ast.unparse(it)}` pairs the two sequences only up to the shorter one and their lengths are not "
                    "compared: when one list is a prefix of the other (same total count, operations distributed "
                    "differently over the machines) the objects compare equal",
                ))
                return True
            prev = [t.id for t in gen.target.elts]
        elt = g.elt
        if not (
            isinstance(elt, ast.Compare) and len(elt.ops) == 1 and isinstance(elt.ops[0], ast.Eq)
            and sorted([ast.unparse(elt.left), ast.unparse(elt.comparators[0])]) == sorted(prev or [])
        ):
            return False
        sh.fields.add(field)
        return True

    def pair(node, a, b):
        sa, sb = _side(a, self_names, other_names), _side(b, self_names, other_names)
        if not (sa and sb):
            sh.unknown.append(node)
            return
        if {sa[0], sb[0]} != {"self", "other"}:
            sh.problems.append((node, "both sides read the same object"))
            return
        if sa[1] != sb[1] and {sa[1], sb[1]} not in EQUIV:
            sh.problems.append(
                (node, f"compares field {sa[1]!r} of one operand with field {sb[1]!r} of the other")
            )
            return
        if sa[1] not in fields and ci is not None and ctx.repo.method(ci, sa[1]) is not None:
            # a derived property (num_scheduled_operations, makespan ...): a
            # projection of the content - harmless extra conjunct, covers nothing
            sh.weak[sa[1]] = "@ (derived property)"
            return
        if sa[1] in CLASS_LEVEL or sa[1] not in fields:
            sh.problems.append(
                (node, f"{sa[1]!r} is a class-level attribute, identical for every "
                 "instance: the comparison carries no content")
            )
            return
        sh.fields.add(sa[1])

    # walk the body: guards, early False returns, final return
    def walk(stmts):
        for st in stmts:
            if isinstance(st, ast.If):
                g = guard(st)
                if g:
                    continue
                # `if self is other: return True` - reflexive shortcut
                if (
                    isinstance(st.test, ast.Compare) and len(st.test.ops) == 1
                    and isinstance(st.test.ops[0], ast.Is)
                    and {ast.unparse(st.test.left), ast.unparse(st.test.comparators[0])} <= (self_names | other_names)
                    and len(st.body) == 1 and isinstance(st.body[0], ast.Return)
                    and isinstance(st.body[0].value, ast.Constant) and st.body[0].value.value is True
                    and not st.orelse
                ):
                    continue
                # `if self.f is other.f: return True` - a shortcut on ONE field: sound
                # only for what has been compared before it plus that field
                if (
                    isinstance(st.test, ast.Compare) and len(st.test.ops) == 1 and isinstance(st.test.ops[0], (ast.Is, ast.Eq))
                    and len(st.body) == 1 and isinstance(st.body[0], ast.Return)
                    and isinstance(st.body[0].value, ast.Constant) and st.body[0].value.value is True and not st.orelse
                ):
                    sa = _side(st.test.left, self_names, other_names)
                    sb = _side(st.test.comparators[0], self_names, other_names)
                    if sa and sb and {sa[0], sb[0]} == {"self", "other"} and sa[1] == sb[1]:
                        sh.early_true.append((st, sa[1], set(sh.fields)))
                        continue
                # `if cond: return False`  ==  conjunct not cond
                if (
                    len(st.body) == 1
                    and isinstance(st.body[0], ast.Return)
                    and isinstance(st.body[0].value, ast.Constant)
                    and st.body[0].value.value is False
                    and not st.orelse
                ):
                    operand(st.test, positive=False)
                    continue
                sh.unknown.append(st)
            elif isinstance(st, ast.Return):
                if st.value is None:
                    sh.unknown.append(st)
                else:
                    operand(st.value)
            elif isinstance(st, ast.Assign) and all(isinstance(t, ast.Name) for t in st.targets):
                # alias of the other operand after an isinstance rebinding
                v = st.value
                if isinstance(v, ast.Name) and v.id in other_names:
                    for t in st.targets:
                        other_names.add(t.id)
                elif _side(v, self_names, other_names) and len(st.targets) == 1:
                    # a local naming one operand's field
                    _ALIASES[st.targets[0].id] = _side(v, self_names, other_names)
                else:
                    sh.unknown.append(st)
            elif (
                isinstance(st, ast.Assign) and len(st.targets) == 1 and isinstance(st.targets[0], ast.Tuple) and isinstance(st.value, ast.Tuple)
                and len(st.targets[0].elts) == len(st.value.elts) and all(isinstance(t, ast.Name) for t in st.targets[0].elts)
                and all(_side(v, self_names, other_names) for v in st.value.elts)
            ):
                for t, v in zip(st.targets[0].elts, st.value.elts):
                    _ALIASES[t.id] = _side(v, self_names, other_names)
            elif isinstance(st, ast.For) and not st.orelse and _rejection_loop(st):
                # for a, b in zip(x, y): if <...>: return False  - an early
                # rejection: as a conjunct it cannot make different objects
                # equal, and it covers nothing
                continue
            elif isinstance(st, ast.Assert):
                continue
            else:
                sh.unknown.append(st)

    def guard(st: ast.If) -> bool:
        t = st.test
        neg = False
        if isinstance(t, ast.UnaryOp) and isinstance(t.op, ast.Not):
            t, neg = t.operand, True
        if not (
            isinstance(t, ast.Call)
            and isinstance(t.func, ast.Name)
            and t.func.id == "isinstance"
            and len(t.args) == 2
            and isinstance(t.args[0], ast.Name)
            and t.args[0].id in other_names
        ):
            return False
        fail = st.body if neg else st.orelse
        cls_node = t.args[1]
        names = [cls_node] if not isinstance(cls_node, ast.Tuple) else cls_node.elts
        ok_cls = False
        for n in names:
            q = ctx.repo.resolve(fi.module.name, ast.unparse(n))
            if q and ci is not None and (q == ci.qualname or q in ci.mro):
                ok_cls = True
        dyn_self = ast.unparse(cls_node).replace(" ", "") in {f"type({x})" for x in self_names} | {f"{x}.__class__" for x in self_names}
        if not ok_cls and not dyn_self and not any(ctx.repo.resolve(fi.module.name, ast.unparse(n)) for n in names):
            # the class tested is not named but computed (`self._kind`, `type(self).__mro__[1]`): which class that
            # is at run time is not decided here
            raise AnalysisError(
                f"{fi.qualname}: the type guard tests `{ast.unparse(cls_node)}`, a class computed at run time; whether it is "
                f"{ci.name if ci is not None else 'the enclosing class'} for every receiver is not decided"
            )
        if not ok_cls:
            sh.guard_problem = (
                st,
                f"type guard tests {ast.unparse(cls_node)}, not {ci.name}: "
                "operands of the right class are rejected or foreign ones accepted",
            )
            return True
        if neg:
            good = (
                len(fail) >= 1
                and isinstance(fail[-1], ast.Return)
                and isinstance(fail[-1].value, (ast.Constant, ast.Name))
                and (
                    getattr(fail[-1].value, "value", None) is False
                    or getattr(fail[-1].value, "id", None) == "NotImplemented"
                )
            )
            if good:
                sh.guard_ok = True
            else:
                sh.guard_problem = (st, "failing type guard does not return False/NotImplemented")
            if st.orelse:
                walk(st.orelse)  # `if not isinstance(..): return False  else: <the comparison>`
            return True
        # positive form: if isinstance(o, C): <compare> ; return False
        walk(st.body)
        sh.guard_ok = True
        return True

    walk(body_of(fi.node))
    return sh


def _rejection_loop(lp: ast.For) -> bool:
    """The loop body consists of `if <test>: return False` statements only."""
    for st in lp.body:
        if not (
            isinstance(st, ast.If) and not st.orelse and len(st.body) == 1 and isinstance(st.body[0], ast.Return)
            and isinstance(st.body[0].value, ast.Constant) and st.body[0].value.value is False
        ):
            return False
    return bool(lp.body)


def _const_pred(node, var, value):
    """Constant-folds a filter predicate over one string constant (the slot
    name): not / and / or, ==, !=, in, not in, .startswith/.endswith."""
    def ev(n):
        if isinstance(n, ast.Name) and n.id == var:
            return value
        if isinstance(n, ast.Constant):
            return n.value
        if isinstance(n, (ast.Tuple, ast.List, ast.Set)):
            vs = [ev(e) for e in n.elts]
            return None if any(v is None for v in vs) else vs
        if isinstance(n, ast.UnaryOp) and isinstance(n.op, ast.Not):
            v = ev(n.operand)
            return None if v is None else (not v)
        if isinstance(n, ast.BoolOp):
            vs = [ev(v) for v in n.values]
            if any(v is None for v in vs):
                return None
            return all(vs) if isinstance(n.op, ast.And) else any(vs)
        if isinstance(n, ast.Compare) and len(n.ops) == 1:
            a, b = ev(n.left), ev(n.comparators[0])
            if a is None or b is None:
                return None
            op = n.ops[0]
            if isinstance(op, ast.Eq):
                return a == b
            if isinstance(op, ast.NotEq):
                return a != b
            if isinstance(op, ast.In):
                return a in b
            if isinstance(op, ast.NotIn):
                return a not in b
            return None
        if isinstance(n, ast.Call) and isinstance(n.func, ast.Attribute) and n.func.attr in ("startswith", "endswith") and len(n.args) == 1:
            a, b = ev(n.func.value), ev(n.args[0])
            if isinstance(a, str) and isinstance(b, str):
                return a.startswith(b) if n.func.attr == "startswith" else a.endswith(b)
        return None

    r = ev(node)
    return r if isinstance(r, bool) else None


def _deep_side(x, self_names, other_names):
    """`<who>.<field>.<more>` -> (who, field, more)"""
    chain, e = [], x
    while isinstance(e, ast.Attribute):
        chain.append(e.attr)
        e = e.value
    if isinstance(e, ast.Name) and (e.id in self_names or e.id in other_names) and len(chain) >= 2:
        chain.reverse()
        return ("self" if e.id in self_names else "other", chain[0], ".".join(chain[1:]))
    return None


def hash_fields(fi: FuncInfo) -> set[str]:
    out = set()
    p0 = fi.params[0]
    for n in own_nodes(fi.node):
        if isinstance(n, ast.Attribute) and isinstance(n.value, ast.Name) and n.value.id == p0:
            out.add(n.attr)
    return out


EQUIV: list = [{"machine_id", "_machine_id"}, {"schedule", "_schedule"}]


def run(ctx):
    chk = ctx.chk
    # public property <-> its private backing field (found by role)
    mid, sch = machine_id_attr(ctx), schedule_attr(ctx)
    EQUIV[:] = [{"machine_id", mid}, {"schedule", sch}]
    REQUIRED["ScheduledOperation"][2] = {"machine_id", mid}
    REQUIRED["Schedule"] = [{"schedule", sch}]
    chk.rule("R15.a", "each __eq__ compares every content field named by C15 by == in a conjunction; class-level attributes do not count")
    chk.rule("R15.b", "fields read by __hash__ are a subset of the fields compared by __eq__")
    chk.rule("R15.c", "the isinstance guard tests the enclosing class; its failing branch returns False/NotImplemented")
    n = 0
    targets = []
    for cname in REQUIRED:
        ci = ctx.repo.find_class(cname)
        eq = ci.methods.get("__eq__")
        if eq is None:
            chk.violation(
                "R15.a", ci.qualname, None,
                f"{cname} defines no __eq__: equality falls back to identity, so "
                "independently built objects with the same content are unequal",
                loc=f"{ci.module.relpath}:{ci.node.lineno}",
            )
            n += 1
            continue
        targets.append((ci, eq, REQUIRED[cname]))
    if ctx.thorough:
        for fi in ctx.repo.all_functions():
            if fi.name == "__eq__" and fi.cls and fi.cls.name not in REQUIRED:
                # outside C15's list: analysed for the record only
                try:
                    sh = analyse_eq(ctx, fi)
                    chk.notes.append(
                        f"observation: {fi.qualname} compares {sorted(sh.fields)} "
                        f"(unrecognised parts: {len(sh.unknown)})"
                    )
                except AnalysisError:
                    pass
    refusals: list[str] = []
    for ci, eq, required in targets:
        sh = analyse_eq(ctx, eq)
        if sh.unknown:
            # delegated to a helper (a shared comparison function, a table of
            # attribute names): judged on the written-out form
            try:
                eqf = ctx.norm.flat(eq, depth=3)
                if ast.dump(eqf.node) != ast.dump(eq.node):
                    sh2 = analyse_eq(ctx, eqf)
                    if len(sh2.unknown) < len(sh.unknown):
                        sh, eq = sh2, eqf
            except AnalysisError:
                pass
        n += 1
        for node_, fld_, before_ in sh.early_true:
            covered_ = before_ | {fld_}
            skipped_ = [alt for alt in required if not (alt & covered_)]
            if len(required) == 1 and skipped_ == []:
                continue
            if skipped_:
                sh.problems.append((
                    node_,
                    f"`{ast.unparse(node_.test)}` returns True as soon as `{fld_}` is the same on both sides, before "
                    + ", ".join("/".join(sorted(a)) for a in skipped_)
                    + " has been compared: objects that differ only there compare equal",
                ))
        for node, msg in sh.problems:
            chk.violation("R15.a", eq, node, msg)
        missing = [alt for alt in required if not (alt & sh.fields)]
        if missing:
            for cover in ALTERNATIVE_COVERS.get(ci.name, []):
                if all(alt & sh.fields for alt in cover):
                    missing = []
        if missing and not sh.problems and sh.unknown:
            # the other classes are still judged; the refusal is reported at the end
            refusals.append(
                f"{eq.qualname}: unrecognised equality shape "
                f"({ast.unparse(sh.unknown[0])[:80]!r}); cannot decide field coverage"
            )
            continue
        if missing and not sh.problems:
            weak = {f: sh.weak[f] for alt in missing for f in alt if f in sh.weak}
            chk.violation(
                "R15.a", eq, None,
                "content field(s) never compared: "
                + ", ".join("/".join(sorted(a)) for a in missing)
                + "".join(
                    f"; `{f}` is compared only through `{shape.replace('@', 'x.' + f)}`, which identifies different values"
                    for f, shape in sorted(weak.items())
                )
                + f" (compared: {sorted(sh.fields)}"
                + "".join(f"; {f} is {LOSSY_VIEWS[f]}" for f in sorted(sh.fields) if f in LOSSY_VIEWS)
                + ")",
            )
        elif not missing and not sh.problems:
            chk.ok("R15.a", eq.qualname, eq.loc(), f"compares {sorted(sh.fields)}")
        # R15.c
        if sh.guard_problem:
            chk.violation("R15.c", eq, sh.guard_problem[0], sh.guard_problem[1])
        elif sh.guard_ok:
            chk.ok("R15.c", eq.qualname, eq.loc(), "isinstance guard on own class")
        else:
            chk.notes.append(f"observation: {eq.qualname} has no isinstance guard")
        # R15.b
        h = ci.methods.get("__hash__")
        if h is not None:
            hf = hash_fields(h)
            extra = hf - sh.fields - {"__class__"}
            if extra:
                # a key method of the class itself (`hash(self.sort_key())`): judged on the fields it reads
                try:
                    hfl = ctx.norm.flat(h, depth=2)
                    hf2 = hash_fields(hfl)
                    if not any(isinstance(x, ast.Call) and isinstance(x.func, ast.Attribute) and isinstance(x.func.value, ast.Name)
                               and x.func.value.id == h.params[0] for x in own_nodes(hfl.node)):
                        hf = hf2
                        extra = hf - sh.fields - {"__class__"}
                except AnalysisError:
                    pass
            # a field both sides look at through the same view (`x.operation.operation_id` in __eq__'s key and in
            # the hash) cannot make equal objects hash differently
            import re as _re

            for f_ in sorted(extra & set(sh.weak)):
                view_ = sh.weak[f_]
                if not view_.startswith("@."):
                    continue
                try:
                    htxt = ast.unparse(ctx.norm.flat(h, depth=2).node)
                except AnalysisError:
                    htxt = ast.unparse(h.node)
                me_ = _re.escape(h.params[0])
                all_reads = len(_re.findall(rf"(?<![\w.]){me_}\.{_re.escape(f_)}(?!\w)", htxt))
                same_view = len(_re.findall(rf"(?<![\w.]){me_}\.{_re.escape(f_)}{_re.escape(view_[1:])}(?!\w)", htxt))
                if all_reads and all_reads == same_view:
                    extra = extra - {f_}
            if extra and not sh.unknown:
                chk.violation(
                    "R15.b", h, h.node.body[-1],
                    f"__hash__ reads {sorted(extra)} which __eq__ does not compare: "
                    "equal objects can hash differently",
                )
            elif extra:
                raise AnalysisError(f"{h.qualname}: cannot relate hash fields to unrecognised __eq__")
            else:
                chk.ok("R15.b", h.qualname, h.loc(), f"hash fields {sorted(hf)} ⊆ eq fields")
    chk.floor("R15.a", n, 4, "__eq__ definitions")
    if refusals and not chk.unlisted():
        raise AnalysisError("; ".join(refusals))
