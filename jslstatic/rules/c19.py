"""C19 - generated instances respect the requested shape and seed.

R19.a  machine pool: the ``machines`` of every Operation the generator builds
       are drawn from a pool that depends on the ``num_machines`` of that
       ``generate`` call.
R19.b  jobs-vs-machines: with fewer jobs than machines disallowed, the upper
       bound of the sampled machine count is capped by the job count, and an
       explicit (num_jobs, num_machines) request is checked *after* the job
       count is known.
R19.c  RNG ownership: every draw in the generator classes goes through the
       generator's own ``random.Random(seed)``; the process-global ``random``
       module is neither seeded nor drawn from.
R19.d  naming: the name counter only ever increases by one and is part of
       every instance name; ``generate`` names each instance with it.
R19.e  iterator protocol: ``__next__`` raises StopIteration at the limit,
       advances the iteration count once and returns ``generate()``;
       ``__iter__`` restarts the iteration count (not the name counter).
R19.f  without recirculation the per-job machine pool is re-created for each
       job and the chosen id is removed from it.
R19.g  shape: one job per ``range(num_jobs)`` step, one operation per
       ``range(num_machines)`` step; sizes and durations are drawn from the
       configured ranges.
R19.h  distinct machines: nothing sampled with replacement (``choices``, a
       loop of single draws without removal / membership test) reaches
       ``Operation(machines=...)``.
"""

from __future__ import annotations

import ast

from ..repo import AnalysisError, FuncInfo, dotted, own_nodes
from .common import resolve_root, source_pos

MANIFEST = {
    "text": (
        "Decides the structural clauses of C19 for all parameter settings: the "
        "machine pool of every generated operation depends on the call's "
        "num_machines; the jobs>=machines constraint caps the sampled upper "
        "bound and checks explicit requests after the job count is known; all "
        "draws go through the generator-owned Random(seed), so equal seeds give "
        "equal sequences; the name counter only increases and is embedded in "
        "each name; the iterator yields exactly iteration_limit instances per "
        "pass; the no-recirculation pool is per job with removal; the loops "
        "produce num_jobs x num_machines operations with range-drawn durations; the machine list of a flexible operation is never sampled with replacement. "
        "Not decided: that sampled values lie in their ranges (values)."
    ),
    "note": "random.Random's determinism for a given seed and call order is trusted.",
    "technique": "interprocedural data-dependence (taint) of constructor arguments + RNG who-may-call sweep + attribute write discipline + loop-shape matching",
    "ref": "DESIGN.md §3 C19",
}
UNDECIDED = ["sampled values lie within the requested ranges (runtime values)"]
ASSUMPTIONS = ["random.Random(seed) yields the same stream for the same seed and call sequence"]

RNG_ATTRS = ("rng", "_rng", "random", "_random")


def _gen_classes(ctx):
    base = ctx.repo.find_class("InstanceGenerator")
    return base, ctx.repo.subclasses(base.qualname)


def dep_on(ctx, fi: FuncInfo, expr, names: set[str], depth=0) -> bool:
    """expr is data-dependent on one of the local/parameter ``names`` of fi,
    following local definitions and package callees (argument -> parameter
    -> return)."""
    if depth > 5:
        return False

    def pred(n):
        if isinstance(n, ast.Name) and n.id in names:
            return True
        if isinstance(n, ast.Call):
            ts, _ = ctx.res.callees(fi, n, fi.cls)
            for t in ts:
                if isinstance(t.node, ast.Lambda) or t.name == "__init__":
                    continue
                params = t.params[1:] if (t.cls is not None and not t.is_static) else t.params
                tainted = set()
                for p, a in list(zip(params, n.args)) + [(k.arg, k.value) for k in n.keywords if k.arg]:
                    if ctx.flow.depends_on(fi, a, lambda x: isinstance(x, ast.Name) and x.id in names):
                        tainted.add(p)
                if not tainted:
                    continue
                rets = [r.value for r in own_nodes(t.node) if isinstance(r, ast.Return) and r.value is not None]
                if any(dep_on(ctx, t, r, tainted, depth + 1) for r in rets):
                    return True
        return False

    return ctx.flow.depends_on(fi, expr, pred)


def run(ctx):
    chk, repo = ctx.chk, ctx.repo
    for rid, txt in (
        ("R19.a", "the machines of every generated Operation depend on the num_machines of the generate call"),
        ("R19.b", "jobs >= machines (when required): sampled upper bound capped by num_jobs; explicit requests checked after num_jobs is known"),
        ("R19.c", "all draws use the generator-owned random.Random(seed); the global random module is not seeded or drawn from"),
        ("R19.d", "the name counter only increases by one, is embedded in every name, and names every generated instance"),
        ("R19.e", "__next__: StopIteration at the limit, one increment, returns generate(); __iter__ restarts the iteration count only"),
        ("R19.f", "no recirculation: per-job pool re-created per job; chosen machine removed from it"),
        ("R19.h", "the machine list of a flexible operation is drawn without replacement (distinct machine ids)"),
        ("R19.g", "num_jobs jobs of num_machines operations; sizes and durations drawn from the configured ranges"),
    ):
        chk.rule(rid, txt)
    base, cone = _gen_classes(ctx)
    _find_roles(ctx, base, cone)
    chk.analysed["generator_roles"] = {k: (v.qualname if hasattr(v, "qualname") else v) for k, v in ROLE.items()}
    gen_cls = repo.find_class("GeneralInstanceGenerator")
    generate = gen_cls.methods.get("generate")
    cro = gen_cls.methods.get("create_random_operation")
    if generate is None or cro is None:
        raise AnalysisError("GeneralInstanceGenerator.generate/create_random_operation vanished")
    op_cls = repo.find_class("Operation")

    # ---------------------------------------------------------------- R19.a
    n_ops = 0
    for m in gen_cls.methods.values():
        for n in own_nodes(m.node):
            if not (isinstance(n, ast.Call) and repo.resolve(m.module.name, dotted(n.func) or "") == op_cls.qualname):
                continue
            n_ops += 1
            marg = next((k.value for k in n.keywords if k.arg == "machines"), n.args[0] if n.args else None)
            if marg is None:
                raise AnalysisError(f"{m.loc(n)}: Operation(...) without machines")
            pool_params = {p for p in m.params if "machine" in p}
            if m is generate:
                pool_params = {"num_machines"}
            if dep_on(ctx, m, marg, pool_params):
                chk.ok("R19.a", m.qualname, m.loc(n), f"machines depend on {sorted(pool_params)}")
            else:
                src = ast.unparse(marg)
                d = ctx.flow.defs(m).of(src) if isinstance(marg, ast.Name) else []
                shown = ast.unparse(d[-1][1]) if d else src
                chk.violation(
                    "R19.a", m, d[-1][2] if d else n,
                    f"the eligible machines of this operation come from `{shown}`, which does not depend on the "
                    f"machine pool of the instance being generated ({sorted(pool_params)}): they are drawn from a "
                    "fixed prefix of machine ids, not from all M machines",
                    loc=m.loc(n),
                )
    chk.floor("R19.a", n_ops, 1, "Operation constructions in the generator")
    # generate must hand a pool derived from num_machines to create_random_operation
    for n in own_nodes(generate.node):
        if isinstance(n, ast.Call) and isinstance(n.func, ast.Attribute) and n.func.attr == "create_random_operation":
            a = n.args[0] if n.args else next((k.value for k in n.keywords), None)
            if a is None or not ctx.flow.depends_on(generate, a, lambda x: isinstance(x, ast.Name) and x.id == "num_machines"):
                chk.violation("R19.a", generate, n, "generate does not pass a pool derived from num_machines to create_random_operation", loc=generate.loc(n))
            else:
                chk.ok("R19.a", generate.qualname, generate.loc(n), "pool = f(num_machines)")

    # ---------------------------------------------------------------- R19.h
    _distinct_machines(ctx, cro, op_cls)

    # ---------------------------------------------------------------- R19.b
    _jobs_vs_machines(ctx, generate)

    # ---------------------------------------------------------------- R19.c
    n_draw = 0
    owner_ok = False
    for c in cone:
        for m in list(c.methods.values()):
            for n in own_nodes(m.node):
                if not isinstance(n, ast.Call):
                    continue
                d = dotted(n.func) or ""
                q = repo.resolve(m.module.name, d) or d
                if q == "random.Random":
                    # owned RNG: must be seeded with the constructor's seed
                    if m.name == "__init__" and n.args and isinstance(n.args[0], ast.Name) and n.args[0].id == "seed":
                        owner_ok = True
                        chk.ok("R19.c", m.qualname, m.loc(n), "self RNG = random.Random(seed)")
                    elif m.name == "__init__":
                        chk.violation("R19.c", m, n, f"the generator's RNG is created as `{ast.unparse(n)}`, not from the `seed` argument", loc=m.loc(n))
                    continue
                if q.startswith("random.") or q.startswith(("numpy.random.", "np.random.")):
                    n_draw += 1
                    what = "seeds" if q.endswith(".seed") else "draws from"
                    chk.violation(
                        "R19.c", m, n,
                        f"{m.name} {what} the process-global RNG (`{d}`): two generators with the same seed "
                        "interleave on shared state (or this draw is not covered by the seed at all) and "
                        "produce different sequences",
                        loc=m.loc(n),
                    )
                elif isinstance(n.func, ast.Attribute) and isinstance(n.func.value, ast.Attribute) and n.func.value.attr in RNG_ATTRS and ast.unparse(n.func.value.value) == "self":
                    n_draw += 1
                    chk.ok("R19.c", m.qualname, m.loc(n), f"draw through self.{n.func.value.attr}")
    if not owner_ok and not any(i["rule"] == "R19.c" and i["verdict"] != "holds" for i in chk.instances):
        chk.violation("R19.c", base.methods["__init__"], None, "the generator owns no RNG seeded from its `seed` argument")
    chk.floor("R19.c", n_draw, 5, "random draws in the generator classes")

    # ---------------------------------------------------------------- R19.d
    n_cw = 0
    for c in cone:
        for m in c.methods.values():
            for n in own_nodes(m.node):
                tgt = None
                if isinstance(n, ast.Assign):
                    tgt = [t for t in n.targets if isinstance(t, ast.Attribute) and t.attr == ROLE["counter"] and ROLE["counter"]]
                    if tgt:
                        n_cw += 1
                        if m.name == "__init__" and isinstance(n.value, ast.Constant) and n.value.value == 0:
                            chk.ok("R19.d", m.qualname, m.loc(n), "counter starts at 0")
                        else:
                            chk.violation(
                                "R19.d", m, n,
                                f"{m.name} rebinds the name counter (`{ast.unparse(n)}`): names already used by "
                                "this generator are handed out again",
                                loc=m.loc(n),
                            )
                elif isinstance(n, ast.AugAssign) and isinstance(n.target, ast.Attribute) and ROLE["counter"] and n.target.attr == ROLE["counter"]:
                    n_cw += 1
                    if isinstance(n.op, ast.Add) and isinstance(n.value, ast.Constant) and n.value.value == 1:
                        chk.ok("R19.d", m.qualname, m.loc(n), "counter += 1")
                    else:
                        chk.violation("R19.d", m, n, f"the name counter is changed by `{ast.unparse(n)}`, not increased by one", loc=m.loc(n))
    if ROLE["counter"] is not None:
        chk.floor("R19.d", n_cw, 2, "writes of the name counter")
    nn = ROLE["namer"]
    if nn is None:
        chk.violation("R19.d", generate, None, "no function of the generator builds the instance name from a counter it increases: names can repeat")
    else:
        rets = [r for r in own_nodes(nn.node) if isinstance(r, ast.Return)]
        inc = [a for a in own_nodes(nn.node) if isinstance(a, ast.AugAssign) and _self_attr(a.target) == ROLE["counter"]]
        if len(rets) == 1 and inc and source_pos(nn.node)(inc[0]) < source_pos(nn.node)(rets[0]):
            chk.ok("R19.d", nn.qualname, nn.loc(), "name embeds the freshly increased counter")
        else:
            chk.violation("R19.d", nn, rets[0] if rets else None, "the instance name does not embed the freshly increased counter")
        if ROLE["iter"] is not None and ROLE["iter"] == ROLE["counter"]:
            chk.violation(
                "R19.d", nn, inc[0] if inc else None,
                f"the name counter and the iteration count are the same attribute `self.{ROLE['counter']}`: restarting an "
                "iteration restarts the names, and every generate() call eats one iteration",
            )
        gflat = ctx.norm.flat(generate)
        named = [
            n for n in own_nodes(gflat.node)
            if isinstance(n, ast.Call) and repo.resolve(generate.module.name, dotted(n.func) or "") == repo.find_class("JobShopInstance").qualname
        ]
        def _named_by_counter(call):
            for k in call.keywords:
                if k.arg == "name":
                    t = ctx.norm.xtext(gflat, k.value)
                    return f"{nn.name}(" in t or f"self.{ROLE['counter']}" in t
            return False
        if len(named) == 1 and _named_by_counter(named[0]):
            chk.ok("R19.d", generate.qualname, gflat.loc(named[0]), f"every instance named through {nn.name}()")
        else:
            chk.violation("R19.d", generate, named[0] if named else None, f"generate does not name the instance with {nn.name}()")

    # ---------------------------------------------------------------- R19.e
    _iterator(ctx, base)

    # ---------------------------------------------------------------- R19.f/g
    _pool_and_shape(ctx, gen_cls, generate, cro)


ROLE = {"limit": "_iteration_limit", "iter": "_current_iteration", "counter": "_counter", "namer": None}


def _self_attr(e):
    if isinstance(e, ast.Attribute) and isinstance(e.value, ast.Name) and e.value.id == "self":
        return e.attr
    return None


def _find_roles(ctx, base, cone):
    """Attribute / helper names by the role they play (a rename of private
    names is not an analysis error):
    limit   - self.X = iteration_limit in the base constructor
    iter    - the self attribute __next__ compares with the limit
    counter - the self attribute increased in the function whose returned
              string embeds it (the namer)"""
    init = base.methods.get("__init__")
    nxt = base.methods.get("__next__")
    if init is None or nxt is None:
        raise AnalysisError("InstanceGenerator.__init__/__next__ vanished")
    limit = None
    for n in own_nodes(init.node):
        tgs = n.targets if isinstance(n, ast.Assign) else [n.target] if isinstance(n, ast.AnnAssign) and n.value is not None else []
        for t in tgs:
            if _self_attr(t) and isinstance(n.value, ast.Name) and n.value.id == "iteration_limit":
                limit = t.attr
    if limit is None:
        raise AnalysisError("InstanceGenerator.__init__: attribute holding iteration_limit not found")
    it = None
    for n in own_nodes(nxt.node):
        if isinstance(n, ast.Compare):
            n = ctx.norm.xexpr(nxt, n)  # local aliases of the attributes expanded
            attrs = [_self_attr(x) for x in [n.left] + list(n.comparators)]
            if limit in attrs:
                others = [a for a in attrs if a and a != limit]
                if others:
                    it = others[0]
    counter = namer = None
    for c in cone:
        for m in c.methods.values():
            incs = [a for a in own_nodes(m.node) if isinstance(a, ast.AugAssign) and _self_attr(a.target)]
            rets = [r for r in own_nodes(m.node) if isinstance(r, ast.Return) and r.value is not None]
            for a in incs:
                if any(isinstance(r.value, (ast.JoinedStr, ast.BinOp, ast.Call)) and any(_self_attr(x) == a.target.attr for x in ast.walk(r.value)) for r in rets):
                    counter, namer = a.target.attr, m
    ROLE.update(limit=limit, iter=it, counter=counter, namer=namer)


_DRAW_ONE = ("choice", "randint", "randrange")


def _distinct_machines(ctx, cro_raw, op_cls):
    """R19.h on the flattened create_random_operation: whatever reaches
    Operation(machines=<list>) is not sampled with replacement."""
    chk, repo = ctx.chk, ctx.repo
    cro = ctx.norm.flat(cro_raw)
    defs = ctx.flow.defs(cro)
    n_sites = 0
    for n in own_nodes(cro.node):
        if not (isinstance(n, ast.Call) and repo.resolve(cro_raw.module.name, dotted(n.func) or "") == op_cls.qualname):
            continue
        marg = next((k.value for k in n.keywords if k.arg == "machines"), n.args[0] if n.args else None)
        if marg is None:
            continue
        # names the argument is computed from (transitively, by name)
        names, work, exprs = set(), [marg], [marg]
        while work:
            e = work.pop()
            for x in ast.walk(e):
                if isinstance(x, ast.Name) and x.id not in names:
                    names.add(x.id)
                    for d in defs.of(x.id):
                        if d[0] == "value" and d[1] is not None:
                            work.append(d[1])
                            exprs.append(d[1])
        n_sites += 1
        bad = False
        for e in exprs:
            for c in ast.walk(e):
                if isinstance(c, ast.Call) and isinstance(c.func, ast.Attribute) and c.func.attr == "choices":
                    bad = True
                    chk.violation(
                        "R19.h", cro, c,
                        f"the machines of an operation are drawn with `{ast.unparse(c)[:70]}`: choices() samples with "
                        "replacement, so an operation can list the same machine twice and fewer distinct machines "
                        "than requested",
                        loc=cro.loc(c),
                    )
        # lists filled one draw at a time inside a loop
        for loop in own_nodes(cro.node):
            if not isinstance(loop, (ast.For, ast.While)):
                continue
            body_calls = [c for st in loop.body for c in ast.walk(st) if isinstance(c, ast.Call) and isinstance(c.func, ast.Attribute)]
            for c in body_calls:
                if c.func.attr not in ("append", "add") or not isinstance(c.func.value, ast.Name) or c.func.value.id not in names or not c.args:
                    continue
                drawn = c.args[0]
                dexpr = drawn
                if isinstance(drawn, ast.Name):
                    ds = [d[1] for d in defs.of(drawn.id) if d[0] == "value" and d[1] is not None]
                    dexpr = ds[-1] if ds else drawn
                if not (isinstance(dexpr, ast.Call) and isinstance(dexpr.func, ast.Attribute) and dexpr.func.attr in _DRAW_ONE):
                    continue
                dtxt = ast.unparse(drawn)
                removed = any(
                    k.func.attr in ("remove", "discard", "pop") and k.args and dtxt in ast.unparse(k.args[0])
                    for k in body_calls
                ) or any(
                    isinstance(t, ast.Compare) and any(isinstance(o, (ast.NotIn, ast.In)) for o in t.ops) and dtxt in ast.unparse(t)
                    for st in loop.body for t in ast.walk(st)
                )
                if removed:
                    chk.ok("R19.h", cro.qualname, cro.loc(c), f"`{dtxt}` is removed from the pool (or tested for membership) before the next draw")
                else:
                    bad = True
                    chk.violation(
                        "R19.h", cro, c,
                        f"`{dtxt}` is drawn with {dexpr.func.attr}() in a loop and appended, but never removed from the "
                        "pool nor tested for membership: the same machine can be drawn again",
                        loc=cro.loc(c),
                    )
        if not bad:
            chk.ok("R19.h", cro.qualname, cro.loc(n), "no with-replacement draw reaches Operation(machines=...)")
    chk.floor("R19.h", n_sites, 1, "Operation constructions in create_random_operation")


def _jobs_vs_machines(ctx, generate_raw):
    chk = ctx.chk
    flag = "allow_less_jobs_than_machines"
    generate = ctx.norm.flat(generate_raw)
    draws = [
        n for n in own_nodes(generate.node)
        if isinstance(n, ast.Assign) and isinstance(n.targets[0], ast.Name) and n.targets[0].id.startswith("num_machines")
        and isinstance(n.value, ast.Call) and isinstance(n.value.func, ast.Attribute) and n.value.func.attr == "randint"
        and "machines_per_operation" not in ast.unparse(n.value)
    ]
    if len(draws) != 1 or len(draws[0].value.args) != 2:
        raise AnalysisError("generate: sampling of num_machines not recognised")
    lo, hi = draws[0].value.args
    caps = {}
    for n in own_nodes(generate.node):
        if isinstance(n, ast.If) and flag in ast.unparse(n.test) and isinstance(n.test, ast.UnaryOp):
            for m in n.body:
                if isinstance(m, ast.Assign) and isinstance(m.targets[0], ast.Name):
                    v = m.value
                    if isinstance(v, ast.Call) and isinstance(v.func, ast.Name) and v.func.id in ("min", "max"):
                        args = {ast.unparse(a) for a in v.args}
                        caps[m.targets[0].id] = (v.func.id, "num_jobs" in args, m)
    hi_name = hi.id if isinstance(hi, ast.Name) else None
    lo_name = lo.id if isinstance(lo, ast.Name) else None
    if hi_name in caps and caps[hi_name][0] == "min" and caps[hi_name][1]:
        chk.ok("R19.b", generate.qualname, generate.loc(caps[hi_name][2]), "upper bound capped by min(num_jobs, ...)")
    elif isinstance(hi, ast.Call) and isinstance(hi.func, ast.Name) and hi.func.id == "min" and "num_jobs" in {ast.unparse(a) for a in hi.args}:
        chk.ok("R19.b", generate.qualname, generate.loc(hi), "upper bound capped inline")
    elif lo_name in caps and caps[lo_name][1]:
        chk.violation(
            "R19.b", generate, caps[lo_name][2],
            f"with {flag}=False the *lower* bound of the machine count is clamped "
            f"(`{ast.unparse(caps[lo_name][2])}`) and the upper bound is left alone: instances with more "
            "machines than jobs are still generated",
            loc=generate.loc(caps[lo_name][2]),
        )
    else:
        chk.violation("R19.b", generate, draws[0], f"the sampled machine count is never capped by the job count when {flag} is False", loc=generate.loc(draws[0]))
    # explicit request: raising guard evaluated after num_jobs is known
    eng = ctx.engine(
        relevant=lambda e: e.kind == "raise", max_depth=2,
        inline_filter=lambda t: t.name.startswith("_") and t.cls is not None and t.cls.qualname in generate_raw.cls.mro,
    )
    seen_guard = False
    for p in eng.paths(generate_raw, generate_raw.cls):
        drew = None
        for i, e in enumerate(p.events):
            if e.kind == "write" and e.data.get("local") and e.data.get("root") == "num_jobs" and e.frame.parent is None:
                drew = i
            if e.kind == "branch":
                t = e.data.get("text", "")
                if "num_jobs" in t and "num_machines" in t and ("<" in t or ">" in t):
                    seen_guard = True
                    if drew is None and any(
                        x.kind == "write" and x.data.get("root") == "num_jobs" and x.frame.parent is None for x in p.events[i:]
                    ):
                        chk.violation(
                            "R19.b", generate, e.node,
                            "the jobs-vs-machines check of an explicit request runs before num_jobs is drawn: "
                            "generate(num_machines=M) with a sampled job count below M is accepted",
                            loc=e.loc,
                        )
                        return
    if seen_guard:
        chk.ok("R19.b", generate.qualname, generate.loc(), "explicit (num_jobs, num_machines) requests are checked after the job count is known")
    else:
        chk.violation("R19.b", generate, None, f"an explicit num_machines above num_jobs is not rejected when {flag} is False")


def _iterator(ctx, base):
    chk = ctx.chk
    nxt, it = base.methods.get("__next__"), base.methods.get("__iter__")
    if nxt is None or it is None:
        raise AnalysisError("InstanceGenerator.__iter__/__next__ vanished")
    eng = ctx.engine(relevant=lambda e: True, max_depth=0)
    ok = True
    n_ret = 0
    for p in eng.paths(nxt, base):
        incs = [e for e in p.events if e.kind == "write" and not e.data.get("local") and ROLE["iter"] is not None and ROLE["iter"] in (e.data.get("chain") or [])]
        if p.outcome == "raise":
            if p.events[-1].data.get("exc") != "StopIteration":
                ok = False
                chk.violation("R19.e", nxt, p.events[-1].node, "__next__ raises something other than StopIteration", loc=p.events[-1].loc)
            if incs:
                ok = False
                chk.violation("R19.e", nxt, incs[0].node, "the iteration count advances on the StopIteration path", loc=incs[0].loc)
            continue
        n_ret += 1
        if len(incs) != 1 or not (isinstance(incs[0].node, ast.AugAssign) and isinstance(incs[0].node.value, ast.Constant) and incs[0].node.value.value == 1):
            ok = False
            chk.violation("R19.e", nxt, incs[0].node if incs else None, f"__next__ advances the iteration count {len(incs)} times per yielded instance (must be once, by one)")
        rv = p.events[-1].data.get("value") if p.events and p.events[-1].kind == "return" else None
        if rv is None or ast.unparse(rv) != "self.generate()":
            ok = False
            chk.violation("R19.e", nxt, rv, "__next__ does not return self.generate()")
    from .common import path_atoms

    A_LIM = f"self.{ROLE['limit']} is None"
    A_CMP = f"self.{ROLE['iter']} < self.{ROLE['limit']}"
    saw_stop = False
    for p in eng.paths(nxt, base):
        atoms = path_atoms(ctx, p.events)
        lim_set = atoms.get(A_LIM) is False
        reached = atoms.get(A_CMP) is False
        if p.outcome == "raise" and p.events[-1].data.get("exc") == "StopIteration":
            saw_stop = True
            if not (lim_set and reached):
                # off-by-one and friends
                strict = atoms.get(f"self.{ROLE['limit']} < self.{ROLE['iter']}") is True
                ok = False
                chk.violation(
                    "R19.e", nxt, p.events[-1].node,
                    "StopIteration is raised under a condition other than `limit is not None and current >= limit`"
                    + (" (the comparison is strict: one instance too many is yielded)" if strict else ""),
                    loc=p.events[-1].loc,
                )
                break
        elif p.outcome == "return" and lim_set and reached:
            ok = False
            chk.violation("R19.e", nxt, p.events[-1].node, "__next__ yields an instance although the iteration limit is reached", loc=p.events[-1].loc)
            break
    if not saw_stop and ok:
        ok = False
        chk.violation("R19.e", nxt, None, "no StopIteration guard `limit is not None and current >= limit`")
    if ok and n_ret:
        chk.ok("R19.e", nxt.qualname, nxt.loc(), "StopIteration at the limit; one increment; returns generate()")
    # __iter__
    writes = [n for n in own_nodes(it.node) if isinstance(n, (ast.Assign, ast.AugAssign))]
    w_ok = any(isinstance(n, ast.Assign) and ast.unparse(n.targets[0]) == f"self.{ROLE['iter']}" and isinstance(n.value, ast.Constant) and n.value.value == 0 for n in writes)
    r_ok = any(isinstance(n, ast.Return) and ast.unparse(n.value) == "self" for n in own_nodes(it.node))
    if w_ok and r_ok:
        chk.ok("R19.e", it.qualname, it.loc(), "restarts the iteration count, returns self")
    else:
        chk.violation("R19.e", it, None, "__iter__ does not restart the iteration count at 0 and return self: a second pass yields a different number of instances")
    ln = base.methods.get("__len__")
    if ln is not None:
        rets = [n for n in own_nodes(ln.node) if isinstance(n, ast.Return)]
        if rets and all(ctx.norm.xtext(ln, r.value) == f"self.{ROLE['limit']}" for r in rets):
            chk.ok("R19.e", ln.qualname, ln.loc(), "len = iteration limit")
        else:
            chk.violation("R19.e", ln, rets[-1] if rets else None, "__len__ is not the iteration limit")


def _pool_and_shape(ctx, gen_cls, generate_raw, cro):
    chk = ctx.chk
    generate = ctx.norm.flat(generate_raw)
    xt = lambda e: ctx.norm.xtext(generate, e).replace(" ", "")  # noqa: E731
    outer = [n for n in generate.node.body if isinstance(n, ast.For)]
    if len(outer) != 1:
        raise AnalysisError("generate: job loop not recognised")
    o = outer[0]
    # operations of one job: an inner for-loop with one append, or a
    # comprehension, over range(num_machines)
    inner_for = [n for n in o.body if isinstance(n, ast.For)]
    comps = [n for st in o.body for n in ast.walk(st) if isinstance(n, ast.ListComp)]
    ops_iter = None
    once = False
    if len(inner_for) == 1:
        i = inner_for[0]
        ops_iter = xt(i.iter)
        op_app = [n for n in ast.walk(i) if isinstance(n, ast.Call) and isinstance(n.func, ast.Attribute) and n.func.attr == "append"]
        once = len(op_app) == 1 and not any(isinstance(n, (ast.If, ast.Break, ast.Continue)) for n in ast.walk(i))
    elif len(comps) >= 1:
        c = [c for c in comps if any(isinstance(x, ast.Call) and isinstance(x.func, ast.Attribute) and x.func.attr == "create_random_operation" for x in ast.walk(c.elt))]
        if len(c) == 1 and len(c[0].generators) == 1 and not c[0].generators[0].ifs:
            ops_iter = xt(c[0].generators[0].iter)
            once = True
    if ops_iter is None:
        raise AnalysisError("generate: operation loop not recognised")
    if xt(o.iter) == "range(num_jobs)" and ops_iter == "range(num_machines)":
        chk.ok("R19.g", generate_raw.qualname, generate.loc(o), "range(num_jobs) x range(num_machines)")
    else:
        chk.violation(
            "R19.g", generate_raw, o,
            f"jobs are built over `{xt(o.iter)}` x `{ops_iter}` instead of "
            "range(num_jobs) x range(num_machines): wrong number of jobs or operations per job",
            loc=generate.loc(o),
        )
    job_app = [
        st for st in o.body
        if isinstance(st, ast.Expr) and isinstance(st.value, ast.Call) and isinstance(st.value.func, ast.Attribute)
        and st.value.func.attr == "append" and isinstance(st.value.func.value, ast.Name)
    ]
    if len(job_app) == 1 and once and not any(isinstance(n, (ast.Break, ast.Continue)) for n in ast.walk(o)):
        chk.ok("R19.g", generate_raw.qualname, generate.loc(o), "one job per step, one operation per inner step")
    else:
        chk.violation("R19.g", generate_raw, o, "jobs/operations are not appended exactly once per loop step", loc=generate.loc(o))
    if inner_for:
        fresh_job = any(isinstance(n, ast.Assign) and ast.unparse(n.targets[0]) == "job" and isinstance(n.value, ast.List) and not n.value.elts for n in o.body)
        if not fresh_job:
            chk.violation("R19.g", generate_raw, o, "the per-job operation list is not re-created for each job", loc=generate.loc(o))
    # sizes and durations from the configured ranges
    want = {"num_jobs": "num_jobs_range", "duration": "duration_range"}
    for m, (var, rng) in ((generate_raw, ("num_jobs", "num_jobs_range")), (cro, ("duration", "duration_range"))):
        hit = False
        for n in own_nodes(m.node):
            if isinstance(n, ast.Assign) and isinstance(n.targets[0], ast.Name) and n.targets[0].id == var and isinstance(n.value, ast.Call):
                c = n.value
                if isinstance(c.func, ast.Attribute) and c.func.attr == "randint":
                    hit = True
                    a = ast.unparse(c)
                    if f"*self.{rng}" in a or (f"self.{rng}[0]" in a and f"self.{rng}[1]" in a):
                        chk.ok("R19.g", m.qualname, m.loc(n), f"{var} ~ randint(*self.{rng})")
                    else:
                        chk.violation("R19.g", m, n, f"`{var}` is drawn as `{a}`, not from self.{rng}", loc=m.loc(n))
        if not hit:
            raise AnalysisError(f"{m.qualname}: draw of {var} not recognised")
    # R19.f pool: re-created inside the job loop from num_machines
    pool = None
    for n in own_nodes(generate.node):
        if isinstance(n, ast.Call) and isinstance(n.func, ast.Attribute) and n.func.attr == "create_random_operation" and n.args and isinstance(n.args[0], ast.Name):
            pool = n.args[0].id
    if pool is None:
        raise AnalysisError("generate: pool passed to create_random_operation not recognised")
    in_loop = [n for n in o.body if isinstance(n, ast.Assign) and ast.unparse(n.targets[0]) == pool]
    def fresh_full_pool(v):
        """list(range(num_machines)), possibly through a one-level copy of a
        template that is itself that list and is never mutated or handed out."""
        x = v
        root = None
        for _ in range(3):
            if isinstance(x, ast.Call) and isinstance(x.func, ast.Attribute) and x.func.attr == "copy" and not x.args:
                x = x.func.value
            elif isinstance(x, ast.Call) and isinstance(x.func, ast.Name) and x.func.id == "list" and len(x.args) == 1 and not isinstance(x.args[0], ast.Call):
                x = x.args[0]
            elif isinstance(x, ast.Subscript) and isinstance(x.slice, ast.Slice) and x.slice.lower is None and x.slice.upper is None and x.slice.step is None:
                x = x.value
            else:
                break
        if isinstance(x, ast.Name) and x is not v:
            root = x.id
            touched = [
                c for c in own_nodes(generate.node)
                if isinstance(c, ast.Call) and (
                    (isinstance(c.func, ast.Attribute) and isinstance(c.func.value, ast.Name) and c.func.value.id == root
                     and c.func.attr in ("remove", "pop", "append", "extend", "clear", "sort", "reverse", "insert"))
                    or any(isinstance(a, ast.Name) and a.id == root for a in list(c.args) + [k.value for k in c.keywords])
                    and not (isinstance(c.func, ast.Name) and c.func.id in ("list", "len", "tuple", "sorted"))
                )
            ]
            if touched:
                return False
        return xt(x if x is not v else v).replace(" ", "") in ("list(range(num_machines))", "range(num_machines)") and (
            x is not v or xt(v).replace(" ", "") == "list(range(num_machines))"
        )

    if in_loop and all(fresh_full_pool(n.value) for n in in_loop):
        chk.ok("R19.f", generate_raw.qualname, generate.loc(in_loop[0]), "machine pool re-created for every job")
    else:
        chk.violation(
            "R19.f", generate_raw, o,
            f"the machine pool `{pool}` is not re-created as list(range(num_machines)) for each job: from the "
            "second job on the pool is exhausted or stale",
            loc=generate.loc(o),
        )
    # judged on the flattened create_random_operation (the private
    # single-machine helper inlined), so its name does not matter
    one = ctx.norm.flat(cro, depth=3)
    rm = None
    for n in own_nodes(one.node):
        if isinstance(n, ast.If) and ast.unparse(n.test) == "not self.allow_recirculation":
            for m in n.body:
                if isinstance(m, ast.Expr) and isinstance(m.value, ast.Call) and isinstance(m.value.func, ast.Attribute) and m.value.func.attr == "remove":
                    rm = m.value
    chosen = [n for n in own_nodes(one.node) if isinstance(n, ast.Assign) and isinstance(n.value, ast.Call) and isinstance(n.value.func, ast.Attribute) and n.value.func.attr == "choice"]
    if rm is not None and chosen and ast.unparse(rm.args[0]) == ast.unparse(chosen[0].targets[0]) and ast.unparse(rm.func.value) == ast.unparse(chosen[0].value.args[0]):
        chk.ok("R19.f", one.qualname, one.loc(rm), "chosen machine removed from the pool when recirculation is off")
    else:
        chk.violation("R19.f", one, rm, "without recirculation the chosen machine is not removed from the pool it was drawn from: a job can visit a machine twice")
